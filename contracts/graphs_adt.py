"""Sidecar contracts for the simple-graph ADT of cnfgen/graphs.py  (C16).

Representation invariant INV(G) with a ghost index function idx (DESIGN C16): sorted adjacency lists,
adjacency lists and edge set describe the same symmetric loop-free relation, edge counter = |edgeset|/2.
Every public mutator preserves INV and changes the abstract edge set exactly as documented; refused
operations leave every field unchanged.
"""
G = 'cnfgen/graphs.py'

INV = [
    'self.n >= 0', 'len(self.adjlist) == self.n + 1',
    'forall(lambda u: implies(1 <= u and u <= self.n, len(self.adjlist[u]) >= 0))',
    # S: adjacency lists strictly increasing
    'forall(lambda u, k, j: implies(1 <= u and u <= self.n and 0 <= k and k < j and j < len(self.adjlist[u]), self.adjlist[u][k] < self.adjlist[u][j]))',
    # M1: every entry is a vertex and the pair is in the edge set
    'forall(lambda u, k: implies(1 <= u and u <= self.n and 0 <= k and k < len(self.adjlist[u]), '
    '1 <= self.adjlist[u][k] and self.adjlist[u][k] <= self.n and ((u, self.adjlist[u][k]) in self.edgeset)))',
    # M2: every pair of the edge set sits in the adjacency list, at the ghost position idx
    'forall(lambda u, v: implies((u, v) in self.edgeset, 1 <= u and u <= self.n and 1 <= v and v <= self.n and '
    '0 <= self.idx[u, v] and self.idx[u, v] < len(self.adjlist[u]) and self.adjlist[u][self.idx[u, v]] == v))',
    # symmetric, loop-free, counted
    'forall(lambda u, v: ((u, v) in self.edgeset) == ((v, u) in self.edgeset))',
    'forall(lambda u: not ((u, u) in self.edgeset))',
    '2 * self.m == card2(self.edgeset)',
]

CLASSMODELS = {
    'Graph': {'file': G, 'fields': {'n': 'int', 'm': 'int', 'adjlist': 'intlist2', 'edgeset': 'pairset', 'idx': 'ghostfun2'},
              'invariant': INV},
}

UNCHANGED = ['self.n == old(self.n)', 'self.m == old(self.m)', 'self.adjlist == old(self.adjlist)', 'self.edgeset == old(self.edgeset)', 'self.idx == old(self.idx)']

CONTRACTS = {
    ('cnfgen/localtypes.py', 'non_negative_int'): {'inline_always': True},
    (G, 'Graph.has_edge'): {
        'property': ['C16'],
        'params': {'u': 'int', 'v': 'int'}, 'returns': 'bool',
        'ensures': ['result == ((u, v) in self.edgeset)'] + UNCHANGED,
    },
    (G, 'Graph.add_edge'): {
        'property': ['C16'],
        'params': {'u': 'int', 'v': 'int'},
        # refused without side effect: out of range or a self loop
        'raises': {'ValueError': 'not (1 <= u and u <= self.n and 1 <= v and v <= self.n and u != v)'},
        'ensures_on_raise': UNCHANGED,
        'modifies': ['self.adjlist', 'self.edgeset', 'self.m', 'self.idx'],      # frame used at call sites
        'ghost_code': [
            ('self.adjlist[u].insert(pos, v)',
             'self.idx = lam2(lambda x, w: ite(x == u and w == v, pos, ite(x == u, self.idx[x, w] + ite(self.idx[x, w] >= pos, 1, 0), self.idx[x, w])))'),
            ('self.adjlist[v].insert(pos, u)',
             'self.idx = lam2(lambda x, w: ite(x == v and w == u, pos, ite(x == v, self.idx[x, w] + ite(self.idx[x, w] >= pos, 1, 0), self.idx[x, w])))'),
        ],
        'ensures': [
            'self.n == old(self.n)',
            # the abstract view: exactly the edge {u,v} is added (nothing if already there)
            'forall(lambda x, y: ((x, y) in self.edgeset) == (((x, y) in old(self.edgeset)) or (x == u and y == v) or (x == v and y == u)))',
            'self.m == old(self.m) + ite((u, v) in old(self.edgeset), 0, 1)',
            # duplicate insertion changes nothing
            'implies((u, v) in old(self.edgeset), self.adjlist == old(self.adjlist) and self.edgeset == old(self.edgeset))',
        ] + INV,
    },
    (G, 'Graph.add_edges_from'): {
        # a list of pairs, inserted one after the other: the invariant is kept, nothing is lost, every listed edge is in
        'property': ['C16'],
        'source': (G, 'BaseGraph.add_edges_from'),
        'params': {'self': 'obj:Graph', 'edges': 'pairlist'},
        'modifies': ['self.adjlist', 'self.edgeset', 'self.m', 'self.idx'],
        # refused at the first pair the graph type does not allow
        'raises': {'ValueError': 'not forall(lambda j: implies(0 <= j and j < len(edges), 1 <= edges[j][0] and edges[j][0] <= self.n and '
                                 '1 <= edges[j][1] and edges[j][1] <= self.n and edges[j][0] != edges[j][1]))'},
        'ensures_on_raise': ['self.n == old(self.n)'] + INV,
        'loops': {0: {'ghost_at_entry': {'E0': 'self.edgeset'},
                      'inv': ['self.n == old(self.n)',
                              'forall(lambda x, y: implies((x, y) in E0, (x, y) in self.edgeset))',
                              'forall(lambda j: implies(0 <= j and j < _it, (edges[j][0], edges[j][1]) in self.edgeset), lambda j: edges[j][0])',
                              'forall(lambda j: implies(0 <= j and j < _it, 1 <= edges[j][0] and edges[j][0] <= self.n and '
                              '1 <= edges[j][1] and edges[j][1] <= self.n and edges[j][0] != edges[j][1]))'] + INV,
                      'modifies_objects': ['self'], 'modifies_fields': {'self': ['adjlist', 'edgeset', 'm', 'idx']}}},
        'ensures': ['self.n == old(self.n)',
                    'forall(lambda x, y: implies((x, y) in old(self.edgeset), (x, y) in self.edgeset))',
                    'forall(lambda j: implies(0 <= j and j < len(edges), (edges[j][0], edges[j][1]) in self.edgeset), lambda j: edges[j][0])'] + INV,
    },
    (G, 'Graph.remove_edge'): {
        'property': ['C16'],
        'params': {'u': 'int', 'v': 'int'},
        'modifies': ['self.adjlist', 'self.edgeset', 'self.m', 'self.idx'],
        'inline': ['Graph.has_edge'],
        'ghost_code': [
            ('self.adjlist[u].remove(v)',
             'self.idx = lam2(lambda x, w: ite(x == u, self.idx[x, w] - ite(self.idx[x, w] > self.idx[u, v], 1, 0), self.idx[x, w]))'),
            ('self.adjlist[v].remove(u)',
             'self.idx = lam2(lambda x, w: ite(x == v, self.idx[x, w] - ite(self.idx[x, w] > self.idx[v, u], 1, 0), self.idx[x, w]))'),
        ],
        'ensures': [
            'self.n == old(self.n)',
            # exactly the edge {u,v} disappears (nothing happens if it is not there; never an exception)
            'forall(lambda x, y: ((x, y) in self.edgeset) == (((x, y) in old(self.edgeset)) and not (x == u and y == v) and not (x == v and y == u)))',
            'self.m == old(self.m) - ite((u, v) in old(self.edgeset), 1, 0)',
            'implies(not ((u, v) in old(self.edgeset)), self.adjlist == old(self.adjlist) and self.edgeset == old(self.edgeset))',
        ] + INV,
    },
    (G, 'Graph.update_vertex_number'): {
        'property': ['C16'],
        'params': {'new_value': 'int'},
        'modifies': ['self.adjlist', 'self.n'],
        'raises': {'ValueError': 'new_value < 0'},
        'ensures_on_raise': UNCHANGED,
        'loops': {0: {'ghost_at_entry': {'A0': 'self.adjlist'}, 'ghost_at_entry_vals': {'N0': 'self.n'},
                      'inv': ['len(self.adjlist) == N0 + 1 + _it', 'self.n == N0',
                              'forall(lambda u: implies(N0 < u and u <= N0 + _it, len(self.adjlist[u]) == 0))',
                              'forall(lambda u: implies(0 <= u and u <= N0, len(self.adjlist[u]) == len(A0[u])))',
                              'forall(lambda u, k: implies(0 <= u and u <= N0, self.adjlist[u][k] == A0[u][k]))']}},
        'ensures': [
            'self.n == zmax(old(self.n), new_value)',       # the vertex count only grows
            'self.edgeset == old(self.edgeset)', 'self.m == old(self.m)',   # same edges
            'forall(lambda u: implies(old(self.n) < u and u <= self.n, len(self.adjlist[u]) == 0))',   # new vertices are isolated
        ] + INV,
    },
    (G, 'Graph.degree'): {
        'property': ['C16'],
        'params': {'u': 'int'}, 'returns': 'int',
        'raises': {'ValueError': 'not (1 <= u and u <= self.n)'},
        'ensures': ['result == len(self.adjlist[u])'] + UNCHANGED,
    },
    (G, 'Graph.number_of_edges'): {
        'property': ['C16'], 'params': {}, 'returns': 'int',
        'ensures': ['2 * result == card2(self.edgeset)'] + UNCHANGED,
    },
    (G, 'Graph.number_of_vertices'): {
        'property': ['C16'], 'params': {}, 'returns': 'int',
        'ensures': ['result == self.n'] + UNCHANGED,
    },
}

# ---------------------------------------------------------------------------------------------------------
# DirectedGraph: predecessor / successor lists, edge set, edge counter, acyclicity flag
D_INV = [
    'self.n >= 0', 'len(self.pred) == self.n + 1', 'len(self.succ) == self.n + 1',
    'forall(lambda u: implies(1 <= u and u <= self.n, len(self.pred[u]) >= 0 and len(self.succ[u]) >= 0))',
    'forall(lambda u, k, j: implies(1 <= u and u <= self.n and 0 <= k and k < j and j < len(self.succ[u]), self.succ[u][k] < self.succ[u][j]))',
    'forall(lambda u, k, j: implies(1 <= u and u <= self.n and 0 <= k and k < j and j < len(self.pred[u]), self.pred[u][k] < self.pred[u][j]))',
    'forall(lambda u, k: implies(1 <= u and u <= self.n and 0 <= k and k < len(self.succ[u]), '
    '1 <= self.succ[u][k] and self.succ[u][k] <= self.n and ((u, self.succ[u][k]) in self.edgeset)))',
    'forall(lambda u, k: implies(1 <= u and u <= self.n and 0 <= k and k < len(self.pred[u]), '
    '1 <= self.pred[u][k] and self.pred[u][k] <= self.n and ((self.pred[u][k], u) in self.edgeset)))',
    'forall(lambda u, v: implies((u, v) in self.edgeset, 1 <= u and u <= self.n and 1 <= v and v <= self.n and '
    '0 <= self.idxs[u, v] and self.idxs[u, v] < len(self.succ[u]) and self.succ[u][self.idxs[u, v]] == v and '
    '0 <= self.idxp[v, u] and self.idxp[v, u] < len(self.pred[v]) and self.pred[v][self.idxp[v, u]] == u))',
    'self.m == card2(self.edgeset)',
    # the property's acyclicity clause: the flag is set exactly when every inserted edge goes upward
    'self.still_a_dag == forall(lambda u, v: implies((u, v) in self.edgeset, u < v))',
]
CLASSMODELS['DirectedGraphRep'] = {
    'file': G, 'real': 'DirectedGraph',
    'fields': {'n': 'int', 'm': 'int', 'pred': 'intlist2', 'succ': 'intlist2', 'edgeset': 'pairset', 'still_a_dag': 'bool',
               'idxs': 'ghostfun2', 'idxp': 'ghostfun2'},
    'invariant': D_INV}
D_UNCHANGED = ['self.n == old(self.n)', 'self.m == old(self.m)', 'self.pred == old(self.pred)', 'self.succ == old(self.succ)',
               'self.edgeset == old(self.edgeset)', 'self.still_a_dag == old(self.still_a_dag)', 'self.idxp == old(self.idxp)', 'self.idxs == old(self.idxs)']

CONTRACTS.update({
    (G, 'DirectedGraphRep.has_edge'): {
        'property': ['C16'], 'params': {'self': 'obj:DirectedGraphRep', 'src': 'int', 'dest': 'int'}, 'returns': 'bool',
        'source': (G, 'DirectedGraph.has_edge'),
        'ensures': ['result == ((src, dest) in self.edgeset)'] + D_UNCHANGED,
    },
    (G, 'DirectedGraphRep.add_edge'): {
        'property': ['C16', 'C15'],
        'source': (G, 'DirectedGraph.add_edge'),
        'params': {'self': 'obj:DirectedGraphRep', 'src': 'int', 'dest': 'int'},
        'raises': {'ValueError': 'not (1 <= src and src <= self.n and 1 <= dest and dest <= self.n)'},
        'ensures_on_raise': D_UNCHANGED,
        'modifies': ['self.pred', 'self.succ', 'self.edgeset', 'self.m', 'self.idxp', 'self.idxs', 'self.still_a_dag'],
        'ghost_code': [
            ('self.pred[dest].insert(pos, src)',
             'self.idxp = lam2(lambda x, w: ite(x == dest and w == src, pos, ite(x == dest, self.idxp[x, w] + ite(self.idxp[x, w] >= pos, 1, 0), self.idxp[x, w])))'),
            ('self.succ[src].insert(pos, dest)',
             'self.idxs = lam2(lambda x, w: ite(x == src and w == dest, pos, ite(x == src, self.idxs[x, w] + ite(self.idxs[x, w] >= pos, 1, 0), self.idxs[x, w])))'),
        ],
        'ensures': [
            'self.n == old(self.n)',
            'forall(lambda x, y: ((x, y) in self.edgeset) == (((x, y) in old(self.edgeset)) or (x == src and y == dest)))',
            'self.m == old(self.m) + ite((src, dest) in old(self.edgeset), 0, 1)',
            'implies((src, dest) in old(self.edgeset), self.pred == old(self.pred) and self.succ == old(self.succ) and self.edgeset == old(self.edgeset))',
            # what the DAG constructions (contracts/graphs_dag.py) assume about the flag
            'self.still_a_dag == (old(self.still_a_dag) and src < dest)',
        ] + D_INV,
    },
    (G, 'DirectedGraphRep.is_dag'): {
        'property': ['C16'], 'params': {'self': 'obj:DirectedGraphRep'}, 'returns': 'bool',
        'source': (G, 'DirectedGraph.is_dag'),
        'ensures': ['result == forall(lambda u, v: implies((u, v) in self.edgeset, u < v))'] + D_UNCHANGED,
    },
    (G, 'DirectedGraphRep.in_degree'): {
        'property': ['C16'], 'params': {'self': 'obj:DirectedGraphRep', 'u': 'int'}, 'returns': 'int',
        'source': (G, 'DirectedGraph.in_degree'),
        'raises': {'ValueError': 'not (1 <= u and u <= self.n)'},
        'ensures': ['result == len(self.pred[u])'] + D_UNCHANGED,
    },
    (G, 'DirectedGraphRep.out_degree'): {
        'property': ['C16'], 'params': {'self': 'obj:DirectedGraphRep', 'v': 'int'}, 'returns': 'int',
        'source': (G, 'DirectedGraph.out_degree'),
        'raises': {'ValueError': 'not (1 <= v and v <= self.n)'},
        'ensures': ['result == len(self.succ[v])'] + D_UNCHANGED,
    },
})

# ---------------------------------------------------------------------------------------------------------
# BipartiteGraph: ladj / radj are dicts vertex -> sorted list (a missing key means no neighbour)
B_INV = [
    'self.lorder >= 0', 'self.rorder >= 0',
    'forall(lambda u: implies(u in self.ladj, 1 <= u and u <= self.lorder and len(self.ladj[u]) >= 0))',
    'forall(lambda v: implies(v in self.radj, 1 <= v and v <= self.rorder and len(self.radj[v]) >= 0))',
    'forall(lambda u, k, j: implies((u in self.ladj) and 0 <= k and k < j and j < len(self.ladj[u]), self.ladj[u][k] < self.ladj[u][j]))',
    'forall(lambda v, k, j: implies((v in self.radj) and 0 <= k and k < j and j < len(self.radj[v]), self.radj[v][k] < self.radj[v][j]))',
    'forall(lambda u, k: implies((u in self.ladj) and 0 <= k and k < len(self.ladj[u]), '
    '1 <= self.ladj[u][k] and self.ladj[u][k] <= self.rorder and ((u, self.ladj[u][k]) in self.edgeset)))',
    'forall(lambda v, k: implies((v in self.radj) and 0 <= k and k < len(self.radj[v]), '
    '1 <= self.radj[v][k] and self.radj[v][k] <= self.lorder and ((self.radj[v][k], v) in self.edgeset)))',
    'forall(lambda u, v: implies((u, v) in self.edgeset, 1 <= u and u <= self.lorder and 1 <= v and v <= self.rorder and '
    '(u in self.ladj) and 0 <= self.idxl[u, v] and self.idxl[u, v] < len(self.ladj[u]) and self.ladj[u][self.idxl[u, v]] == v and '
    '(v in self.radj) and 0 <= self.idxr[v, u] and self.idxr[v, u] < len(self.radj[v]) and self.radj[v][self.idxr[v, u]] == u))',
]
CLASSMODELS['BipartiteGraphRep'] = {
    'file': G, 'real': 'BipartiteGraph',
    'fields': {'lorder': 'int', 'rorder': 'int', 'ladj': 'intdict2', 'radj': 'intdict2', 'edgeset': 'pairset',
               'idxl': 'ghostfun2', 'idxr': 'ghostfun2'},
    'invariant': B_INV}
B_UNCHANGED = ['self.lorder == old(self.lorder)', 'self.rorder == old(self.rorder)', 'self.ladj == old(self.ladj)',
               'self.radj == old(self.radj)', 'self.edgeset == old(self.edgeset)', 'self.idxl == old(self.idxl)', 'self.idxr == old(self.idxr)']

CONTRACTS.update({
    (G, 'BipartiteGraphRep.has_edge'): {
        'property': ['C16'], 'params': {'self': 'obj:BipartiteGraphRep', 'u': 'int', 'v': 'int'}, 'returns': 'bool',
        'source': (G, 'BipartiteGraph.has_edge'),
        'ensures': ['result == ((u, v) in self.edgeset)'] + B_UNCHANGED,
    },
    (G, 'BipartiteGraphRep.add_edge'): {
        'property': ['C16'],
        'source': (G, 'BipartiteGraph.add_edge'),
        'params': {'self': 'obj:BipartiteGraphRep', 'u': 'int', 'v': 'int'},
        'raises': {'ValueError': 'not (1 <= u and u <= self.lorder and 1 <= v and v <= self.rorder)'},
        'ensures_on_raise': B_UNCHANGED,
        'modifies': ['self.ladj', 'self.radj', 'self.edgeset', 'self.idxl', 'self.idxr'],
        'ghost_code': [
            ('self.ladj[u].insert(pv, v)',
             'self.idxl = lam2(lambda x, w: ite(x == u and w == v, pv, ite(x == u, self.idxl[x, w] + ite(self.idxl[x, w] >= pv, 1, 0), self.idxl[x, w])))'),
            ('self.radj[v].insert(pu, u)',
             'self.idxr = lam2(lambda x, w: ite(x == v and w == u, pu, ite(x == v, self.idxr[x, w] + ite(self.idxr[x, w] >= pu, 1, 0), self.idxr[x, w])))'),
        ],
        'ensures': [
            'self.lorder == old(self.lorder)', 'self.rorder == old(self.rorder)',
            'forall(lambda x, y: ((x, y) in self.edgeset) == (((x, y) in old(self.edgeset)) or (x == u and y == v)))',
            'implies((u, v) in old(self.edgeset), self.ladj == old(self.ladj) and self.radj == old(self.radj) and self.edgeset == old(self.edgeset))',
            'card2(self.edgeset) == card2(old(self.edgeset)) + ite((u, v) in old(self.edgeset), 0, 1)',
            # the row of u grows by exactly one entry for a new edge; every other left row is untouched (degrees)
            'implies(not ((u, v) in old(self.edgeset)), (u in self.ladj) and '
            'len(self.ladj[u]) == ite(u in old(self.ladj), len(old(self.ladj)[u]), 0) + 1)',
            'forall(lambda x: implies(x != u, ((x in self.ladj) == (x in old(self.ladj))) and '
            'implies(x in self.ladj, len(self.ladj[x]) == len(old(self.ladj)[x]))))',
        ] + B_INV,
    },
    (G, 'BipartiteGraphRep.number_of_edges'): {
        'property': ['C16'], 'params': {'self': 'obj:BipartiteGraphRep'}, 'returns': 'int',
        'source': (G, 'BipartiteGraph.number_of_edges'),
        'ensures': ['result == card2(self.edgeset)'] + B_UNCHANGED,
    },
})

for _side, _adj, _ord, _other in (('right_neighbors', 'ladj', 'lorder', 'u'), ('left_neighbors', 'radj', 'rorder', 'v')):
    CONTRACTS[(G, 'BipartiteGraphRep.' + _side)] = {
        'property': ['C16'], 'params': {'self': 'obj:BipartiteGraphRep', _other: 'int'}, 'returns': 'intlist',
        'source': (G, 'BipartiteGraph.' + _side),
        'raises': {'ValueError': 'not (1 <= {0} and {0} <= self.{1})'.format(_other, _ord)},
        # a copy of the (sorted, duplicate-free by INV) adjacency list; empty for a vertex without neighbours
        'ensures': ['len(result) == ite({0} in self.{1}, len(self.{1}[{0}]), 0)'.format(_other, _adj),
                    'forall(lambda k: implies(({0} in self.{1}) and 0 <= k and k < len(result), result[k] == self.{1}[{0}][k]))'.format(_other, _adj)]
        + B_UNCHANGED,
    }

# ---------------------------------------------------------------------------------------------------------
# constructors and a sampler over the proved ADT: bipartite_random_m_edges has exactly m edges for every outcome of the RNG
CLASSMODELS['BipartiteGraphRep']['fields']['name'] = 'opaque'
CONTRACTS.update({
    (G, 'BaseBipartiteGraph.__init__'): {'inline_always': True},
    (G, 'BaseBipartiteGraph.parts'): {'inline_always': True},
    (G, 'BipartiteGraphRep.__init__'): {
        'property': ['C16', 'C15'],
        'source': (G, 'BipartiteGraph.__init__'),
        'params': {'self': 'newobj:BipartiteGraphRep', 'L': 'int', 'R': 'int', 'name': 'none'},
        'raises': {'ValueError': 'L < 0 or R < 0'},
        'modifies': ['self.lorder', 'self.rorder', 'self.ladj', 'self.radj', 'self.edgeset', 'self.idxl', 'self.idxr', 'self.name'],
        # the empty graph satisfies the representation invariant
        'ghost_code': [('self.edgeset = set()', 'self.idxl = lam2(lambda x, w: 0)\nself.idxr = lam2(lambda x, w: 0)')],
        'ensures': ['self.lorder == L', 'self.rorder == R', 'card2(self.edgeset) == 0',
                    'forall(lambda x, y: not ((x, y) in self.edgeset))'] + B_INV,
    },
    (G, 'bipartite_random_m_edges'): {
        'property': ['C15'],
        'params': {'L': 'int', 'R': 'int', 'm': 'int', 'seed': 'none'},
        'calls_model': {'BipartiteGraph': 'BipartiteGraphRep'},
        # refused exactly outside the documented range
        'raises': {'ValueError': 'L < 1 or R < 1 or m < 0 or m > L * R'},
        'loops': {
            0: {'hints': [  # the pairs still to come differ from the one just inserted (sample positions are distinct, pair numbering injective)
                            'forall(lambda j: implies(_it < j and j < m, not (_iter[j][0] == _iter[_it][0] and _iter[j][1] == _iter[_it][1])))'],
                'inv': ['card2(G.edgeset) == _it', 'G.lorder == L', 'G.rorder == R',
                        'forall(lambda j: implies(_it <= j and j < m, not ((_iter[j][0], _iter[j][1]) in G.edgeset)))',
                        'forall(lambda j: implies(0 <= j and j < m, 1 <= _iter[j][0] and _iter[j][0] <= L and 1 <= _iter[j][1] and _iter[j][1] <= R))'] + [c.replace('self.', 'G.') for c in B_INV],
                'modifies_objects': ['G'], 'modifies_fields': {'G': ['ladj', 'radj', 'edgeset', 'idxl', 'idxr']}},
            1: {'inv': ['card2(G.edgeset) == count', '0 <= count', 'count <= m', 'G.lorder == L', 'G.rorder == R'] + [c.replace('self.', 'G.') for c in B_INV],
                'modifies_objects': ['G'], 'modifies_fields': {'G': ['ladj', 'radj', 'edgeset', 'idxl', 'idxr']}},
        },
        # exactly m edges, whatever the random generator answers (termination of the sparse retry loop is not claimed)
        'ensures': ['card2(result.edgeset) == m', 'result.lorder == L', 'result.rorder == R'] + [c.replace('self.', 'result.') for c in B_INV],
    },
})


def _edges_from(model, inv, valid, fields):
    """BaseGraph.add_edges_from on the given graph model: a loop of add_edge calls"""
    V = valid.format(a='edges[j][0]', b='edges[j][1]')
    return {
        'property': ['C16'],
        'source': (G, 'BaseGraph.add_edges_from'),
        'params': {'self': 'obj:' + model, 'edges': 'pairlist'},
        'raises': {'ValueError': 'not forall(lambda j: implies(0 <= j and j < len(edges), {}))'.format(V)},
        'ensures_on_raise': inv,
        'modifies': ['self.' + f for f in fields],
        'loops': {0: {'ghost_at_entry': {'E0': 'self.edgeset'},
                      'inv': ['forall(lambda x, y: implies((x, y) in E0, (x, y) in self.edgeset))',
                              'forall(lambda j: implies(0 <= j and j < _it, (edges[j][0], edges[j][1]) in self.edgeset), lambda j: edges[j][0])',
                              'forall(lambda j: implies(0 <= j and j < _it, {}))'.format(V)] + inv,
                      'modifies_objects': ['self'], 'modifies_fields': {'self': fields}}},
        'ensures': ['forall(lambda x, y: implies((x, y) in old(self.edgeset), (x, y) in self.edgeset))',
                    'forall(lambda j: implies(0 <= j and j < len(edges), (edges[j][0], edges[j][1]) in self.edgeset), lambda j: edges[j][0])'] + inv,
    }


CONTRACTS[(G, 'DirectedGraphRep.add_edges_from')] = _edges_from(
    'DirectedGraphRep', D_INV, '1 <= {a} and {a} <= self.n and 1 <= {b} and {b} <= self.n',
    ['pred', 'succ', 'edgeset', 'm', 'idxp', 'idxs', 'still_a_dag'])
CONTRACTS[(G, 'BipartiteGraphRep.add_edges_from')] = _edges_from(
    'BipartiteGraphRep', B_INV, '1 <= {a} and {a} <= self.lorder and 1 <= {b} and {b} <= self.rorder',
    ['ladj', 'radj', 'edgeset', 'idxl', 'idxr'])

# glrd: every left vertex gets exactly min(r, d) neighbours, for every outcome of the random generator
_GI = [c.replace('self.', 'G.') for c in B_INV]
CONTRACTS[(G, 'bipartite_random_left_regular')] = {
    'property': ['C15'],
    'params': {'l': 'int', 'r': 'int', 'd': 'int', 'seed': 'none'},
    'calls_model': {'BipartiteGraph': 'BipartiteGraphRep'},
    'raises': {'ValueError': 'l < 0 or r < 0 or d < 0'},
    'loops': {
        0: {'counter': '_ito',
            'inv': ['G.lorder == l', 'G.rorder == r', 'd >= 0', 'd <= r',
                    # the rows of the vertices done have d entries; no edge at any later vertex yet
                    'forall(lambda x: implies(1 <= x and x <= _ito, ite(x in G.ladj, len(G.ladj[x]), 0) == d))',
                    'forall(lambda x, w: implies((x, w) in G.edgeset, x <= _ito))'] + _GI,
            'modifies_objects': ['G'], 'modifies_fields': {'G': ['ladj', 'radj', 'edgeset', 'idxl', 'idxr']}},
        1: {'inv': ['G.lorder == l', 'G.rorder == r', 'd >= 0', 'd <= r',
                    'forall(lambda x: implies(1 <= x and x <= _ito, ite(x in G.ladj, len(G.ladj[x]), 0) == d))',
                    'forall(lambda x, w: implies((x, w) in G.edgeset, x <= _ito + 1))',
                    # the row of the current vertex has one entry per sampled neighbour so far, all below the next one
                    'ite(u in G.ladj, len(G.ladj[u]), 0) == _it',
                    'forall(lambda w: implies((u, w) in G.edgeset, _it >= 1 and w <= _iter[_it - 1]))'] + _GI,
            'modifies_objects': ['G'], 'modifies_fields': {'G': ['ladj', 'radj', 'edgeset', 'idxl', 'idxr']}},
    },
    'ensures': ['result.lorder == l', 'result.rorder == r',
                'forall(lambda x: implies(1 <= x and x <= l, ite(x in result.ladj, len(result.ladj[x]), 0) == zmin(r, d)))']
               + [c.replace('self.', 'result.') for c in B_INV],
}
