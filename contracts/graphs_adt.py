"""Sidecar contracts for the simple-graph ADT of cnfgen/graphs.py  (C16).

Representation invariant INV(G) with a ghost index function idx (DESIGN C16): sorted adjacency lists,
adjacency lists and edge set describe the same symmetric loop-free relation, edge counter = |edgeset|/2.
Every public mutator preserves INV and changes the abstract edge set exactly as documented; refused
operations leave every field unchanged.
"""
G = 'cnfgen/graphs.py'

INV = [
    'self.n >= 0', 'len(self.adjlist) == self.n + 1',
    'forall(lambda u: implies(1 <= u and u <= self.n, len(self.adjlist[u]) >= 0))',
    # S: adjacency lists strictly increasing
    'forall(lambda u, k, j: implies(1 <= u and u <= self.n and 0 <= k and k < j and j < len(self.adjlist[u]), self.adjlist[u][k] < self.adjlist[u][j]))',
    # M1: every entry is a vertex and the pair is in the edge set
    'forall(lambda u, k: implies(1 <= u and u <= self.n and 0 <= k and k < len(self.adjlist[u]), '
    '1 <= self.adjlist[u][k] and self.adjlist[u][k] <= self.n and ((u, self.adjlist[u][k]) in self.edgeset)))',
    # M2: every pair of the edge set sits in the adjacency list, at the ghost position idx
    'forall(lambda u, v: implies((u, v) in self.edgeset, 1 <= u and u <= self.n and 1 <= v and v <= self.n and '
    '0 <= self.idx[u, v] and self.idx[u, v] < len(self.adjlist[u]) and self.adjlist[u][self.idx[u, v]] == v))',
    # symmetric, loop-free, counted
    'forall(lambda u, v: ((u, v) in self.edgeset) == ((v, u) in self.edgeset))',
    'forall(lambda u: not ((u, u) in self.edgeset))',
    '2 * self.m == card2(self.edgeset)',
]

CLASSMODELS = {
    'Graph': {'file': G, 'fields': {'n': 'int', 'm': 'int', 'adjlist': 'intlist2', 'edgeset': 'pairset', 'idx': 'ghostfun2'},
              'invariant': INV},
}

UNCHANGED = ['self.n == old(self.n)', 'self.m == old(self.m)', 'self.adjlist == old(self.adjlist)', 'self.edgeset == old(self.edgeset)']

CONTRACTS = {
    ('cnfgen/localtypes.py', 'non_negative_int'): {'inline_always': True},
    (G, 'Graph.has_edge'): {
        'property': ['C16'],
        'params': {'u': 'int', 'v': 'int'},
        'ensures': ['result == ((u, v) in self.edgeset)'] + UNCHANGED,
    },
    (G, 'Graph.add_edge'): {
        'property': ['C16'],
        'params': {'u': 'int', 'v': 'int'},
        # refused without side effect: out of range or a self loop
        'raises': {'ValueError': 'not (1 <= u and u <= self.n and 1 <= v and v <= self.n and u != v)'},
        'ensures_on_raise': UNCHANGED,
        'ghost_code': [
            ('self.adjlist[u].insert(pos, v)',
             'self.idx = lam2(lambda x, w: ite(x == u and w == v, pos, ite(x == u, self.idx[x, w] + ite(self.idx[x, w] >= pos, 1, 0), self.idx[x, w])))'),
            ('self.adjlist[v].insert(pos, u)',
             'self.idx = lam2(lambda x, w: ite(x == v and w == u, pos, ite(x == v, self.idx[x, w] + ite(self.idx[x, w] >= pos, 1, 0), self.idx[x, w])))'),
        ],
        'ensures': [
            'self.n == old(self.n)',
            # the abstract view: exactly the edge {u,v} is added (nothing if already there)
            'forall(lambda x, y: ((x, y) in self.edgeset) == (((x, y) in old(self.edgeset)) or (x == u and y == v) or (x == v and y == u)))',
            'self.m == old(self.m) + ite((u, v) in old(self.edgeset), 0, 1)',
            # duplicate insertion changes nothing
            'implies((u, v) in old(self.edgeset), self.adjlist == old(self.adjlist) and self.edgeset == old(self.edgeset))',
        ] + INV,
    },
}
