"""Sidecar contracts: WordOfIndicesVariables with wordtype 'combinations' - the group of one variable per k-subset of 1..n
(new_combinations: the edge variables of clique-colouring, Ramsey numbers, the compact ordering principle, counting principle) (C11, C10).

The group keeps `vid2seq` (the list of index tuples in identifier order) and `seq2vid` (a dict from index tuple to identifier).
PROVED for all n, k >= 0:
  * the constructor enumerates the k-subsets of 1..n in itertools.combinations order, takes exactly the first free identifiers - as many
    as there are subsets - and establishes: vid2seq IS that enumeration, every listed tuple is a key of seq2vid, and
    seq2vid[vid2seq[j]] == first identifier + j  (this needs the subsets to be pairwise distinct: Lean pass 21);
  * _unsafe_index_to_lit / to_index under that invariant: to_index is refused iff the variable is not in the group and otherwise returns
    the tuple whose identifier is the variable; an index that is listed converts to its identifier and back - index <-> identifier
    is a bijection between the enumeration and the identifier range.
The other word types (permutations, words, combinations with replacement) share the code path: bounded tier.
"""
V = 'cnfgen/formula/variables.py'

GEN = 'combs(apseq(1, {n}), {k})'
W_INV = [
    'self.n >= 0', 'self.k >= 0', 'self.offset >= 0',
    'self.vid2seq == ' + GEN.format(n='self.n', k='self.k'),
    'self.ids_lo == self.offset + 1', 'self.ids_hi == self.offset + 1 + clen(self.vid2seq)',
    'forall(lambda j: implies(0 <= j and j < clen(self.vid2seq), mhas(self.seq2vid, cget(self.vid2seq, j)) and '
    'mget(self.seq2vid, cget(self.vid2seq, j)) == self.offset + 1 + j), lambda j: cget(self.vid2seq, j))',
]

CLASSMODELS = {
    'WordVars': {'file': V, 'real': 'WordOfIndicesVariables',
                 'fields': {'n': 'int', 'k': 'int', 'wordtype': 'opaque', 'offset': 'int', 'vid2seq': 'mclist', 'seq2vid': 'seqmap',
                            'ids': 'range:ids_lo:ids_hi', 'labelfmt': 'opaque', 'formula': 'opaque'},
                 'invariant': W_INV},
}

CONTRACTS = {
    (V, 'WordVars.__init__'): {
        'property': ['C11', 'C10'],
        'source': (V, 'WordOfIndicesVariables.__init__'),
        'params': {'self': 'newobj:WordVars', 'formula': 'obj:BaseCNF', 'n': 'int', 'k': 'int', 'labelfmt': 'opaquestr', 'wordtype': 'const:"combinations"'},
        'requires': ['formula._numvar >= 0'],
        'raises': {'ValueError': None},        # negative n / k (documented) or a label with too many placeholders
        'loops': {0: {'ghost_at_entry': {'GEN': '_iter'},
                      'inv': ['vid == self.offset + _it', 'self.offset == formula._numvar', 'n >= 0', 'k >= 0',
                              'self.vid2seq == ctake(GEN, _it)', 'GEN == ' + GEN.format(n='n', k='k'),
                              'forall(lambda j: implies(0 <= j and j < _it, mhas(self.seq2vid, cget(GEN, j)) and '
                              'mget(self.seq2vid, cget(GEN, j)) == self.offset + 1 + j), lambda j: cget(GEN, j))'],
                      'modifies_objects': ['self'], 'modifies_fields': {'self': ['vid2seq', 'seq2vid']}}},
        'ensures': W_INV + ['self.offset == formula._numvar', 'self.n == n', 'self.k == k'],
    },
    (V, 'WordVars._unsafe_index_to_lit'): {
        'property': ['C11', 'C10'],
        'source': (V, 'WordOfIndicesVariables._unsafe_index_to_lit'),
        'params': {'index': 'iseq'}, 'returns': 'int',
        'raises': {'KeyError': 'not mhas(self.seq2vid, index)'},
        'ensures': ['result == mget(self.seq2vid, index)'],
    },
    (V, 'WordVars.to_index'): {
        'property': ['C11'],
        'source': (V, 'WordOfIndicesVariables.to_index'),
        'params': {'lit': 'int'}, 'returns': 'iseq',
        'raises': {'ValueError': 'not (self.ids_lo <= abs(lit) and abs(lit) < self.ids_hi)'},
        'ensures': ['result == cget(self.vid2seq, abs(lit) - self.offset - 1)',
                    # round trip: the identifier of the returned index is the variable of the literal (either polarity)
                    'mhas(self.seq2vid, result)', 'mget(self.seq2vid, result) == abs(lit)'],
    },
    (V, 'WordVars.indices'): {
        'property': ['C11'],
        'source': (V, 'WordOfIndicesVariables.indices'),
        # without a pattern: the index tuples in identifier order (what the counting principle walks through)
        'params': {'pattern': 'noargs'}, 'returns': 'cseq', 'raises': {},
        'ensures': ['result == self.vid2seq', 'result == ' + GEN.format(n='self.n', k='self.k')],
    },
    (V, 'ManagerW.new_combinations'): {
        'property': ['C10', 'C11'],
        'source': (V, 'VariablesManager.new_combinations'),
        'params': {'self': 'obj:ManagerW', 'n': 'int', 'k': 'int', 'label': 'opaquestr'},
        'calls_model': {'WordOfIndicesVariables': 'WordVars'},
        'modifies': ['self._groups', 'self._formula._numvar'],
        'requires': ['self._formula._numvar >= 0'],
        'raises': {'ValueError': None},
        'returns': 'obj:WordVars',
        # constructor + registration: exactly the first free identifiers, one per k-subset, registered once, last
        'ensures': [c.replace('self.', 'result.') for c in W_INV] + [
            'result.n == n', 'result.k == k', 'result.offset == old(self._formula._numvar)',
            'self._formula._numvar == old(self._formula._numvar) + clen(result.vid2seq)',
            'ocount(self._groups) == ocount(old(self._groups)) + 1', 'olast(self._groups) == result'],
        'ensures_on_raise': ['self._formula._numvar == old(self._formula._numvar)', 'ocount(self._groups) == ocount(old(self._groups))'],
    },
}
CLASSMODELS['ManagerW'] = {'file': V, 'real': 'VariablesManager', 'fields': {'_groups': 'countedlist', '_formula': 'obj:BaseCNF'}}
CONTRACTS[(V, 'WordVars.__init__')]['modifies'] = ['self.vid2seq', 'self.seq2vid']
