"""Sidecar contracts: SubgraphFormula and RamseyWitnessFormula (C02) over the mapping interface and the edge view of the graph.

SubgraphFormula - PROVED for all graphs G, H and all flag values, for an arbitrary assignment a: a satisfies the formula iff
  * s is a complete, functional, injective [and, with symbreak, non-decreasing] mapping V(H) -> V(G), and
  * for all vertices i1 < i2 of H and j1 < j2 of G whose adjacency is NOT consistent - i.e. not (G-edge == H-edge), and not
    (G-edge present while induced is off) - s does not put (i1, i2) on (j1, j2) [nor, without symbreak, on (j2, j1)]
- so every edge of H lands on an edge of G (and every non-edge on a non-edge when induced): an (induced) copy of H in G.

CliqueFormula - PROVED for every graph, k and `symbreak`: a satisfies the formula iff s is a complete, functional, injective [with
symbreak: non-decreasing] mapping [k] -> V(G) that never puts two positions i1 < i2 on a NON-adjacent pair j1 < j2 [without
symbreak: in either order] - i.e. the image is a k-clique.  `non_edges(G)` is proved to yield, in combination order, exactly the
non-adjacent pairs (every iteration yields iff its pair is not an edge; iteration counts at loop exit); its value at the call
site is that filtered pair enumeration (`value_form`: the correspondence between the two statements is by reading).

GraphIsomorphism - PROVED for all graphs G1, G2 and both values of `nontrivial`: a satisfies the formula iff f is a complete,
surjective, functional, injective mapping V(G1) -> V(G2) (a bijection) such that for all u1 < u2 and v1 < v2 whose adjacency
differs (G1-edge != G2-edge) f puts (u1, u2) neither on (v1, v2) nor on (v2, v1) - an isomorphism - and, when `nontrivial`, some
vertex u <= min(|V1|, |V2|) is not mapped to itself.  GraphAutomorphism(G) - PROVED over that contract: an isomorphism G -> G
that moves some vertex.

RamseyWitnessFormula:

PROVED for every graph G, every k and both values of `symbreak`, for an arbitrary assignment a: a satisfies the formula iff
  * s is a complete, functional, injective mapping [k] -> V(G)                      (k distinct vertices), and
  * for all positions i1 < i2 and all vertices j1 < j2:
       - if s puts i1 on j1 and i2 on j2, the variable C is TRUE when {j1, j2} is an edge and FALSE when it is not
         (so the chosen set is a clique when C holds and an independent set when it does not),
       - symbreak: s never puts i1 on j2 and i2 on j1 (positions in increasing vertex order);
         otherwise the same requirement on C for the swapped placement
- all position pairs and all vertex pairs quantified, none missing, nothing else; 1 + k*N variables.
This is the documented property "a k-clique or an s-independent set exists" exactly when k == s: the parameter s does not
occur in the encoding at all - the known finding D18 (KNOWN_FINDINGS.txt), which this contract makes explicit rather than hides.
The loop over product(combinations(.., 2), combinations(.., 2)) - created as a value first - is verified as the four nested
range loops it is equivalent to.
ASSUMED: group allocation and call contracts (C11), the meaning of force_* (C04), the interface meaning of add_clause (C04),
the graph views order() / has_edge (C16).
"""
S = 'cnfgen/families/subgraph.py'
F_ = 'cnfgen/formula/cnf.py'
V_ = 'cnfgen/formula/variables.py'
G_ = 'cnfgen/graphs.py'

CLASSMODELS = {
    'MapS': {'file': V_, 'real': 'UnaryMappingVariables', 'fields': {'gid': 'int', 'n': 'int', 'm': 'int'}},
    'FormulaS': {'file': F_, 'real': 'CNF', 'fields': {'store': 'mclist', '_numvar': 'int', 'cls': 'int', 'header': 'opaque'}},
    'GraphS': {'file': G_, 'real': 'Graph', 'fields': {'gid': 'int', 'n': 'int', 'name': 'opaquestr'}, 'invariant': ['self.n >= 0']},
}
M = 'created("MapS", 0)'


def lt(x):
    return 'lit_true(a, {})'.format(x)


def sv(i, j):
    return lt('mvar({}.gid, {}, {})'.format(M, i, j))


def placed(i1, j1, i2, j2):
    """the requirement on C when i1 sits on j1 and i2 on j2"""
    return 'implies({} and {}, lit_true(a, 1) == gadj(G.gid, j1, j2))'.format(sv(i1, j1), sv(i2, j2))


ROW = '({} and ite(symbreak, not ({} and {}), {}))'.format(placed('i1', 'j1', 'i2', 'j2'), sv('i1', 'j2'), sv('i2', 'j1'), placed('i1', 'j2', 'i2', 'j1'))


def row(i1, i2, j1, j2):
    return ROW.replace('i1', '(' + i1 + ')').replace('i2', '(' + i2 + ')').replace('j1', '(' + j1 + ')').replace('j2', '(' + j2 + ')')


def acc(text):
    return 'sat(a, F.store) == (sat(a, S0) and {})'.format(text)


FR = {'modifies_objects': ['F'], 'modifies_fields': {'F': ['store', '_numvar']}}
KEEP = ['F._numvar == 1 + k * N', 'k >= 0', 'N >= 0']
D1 = 'forall(lambda i1, i2, j1, j2: implies(1 <= i1 and i1 <= _a and i1 < i2 and i2 <= k and 1 <= j1 and j1 < j2 and j2 <= N, {}))'.format(row('i1', 'i2', 'j1', 'j2'))
D2 = 'forall(lambda i2, j1, j2: implies(_a + 1 < i2 and i2 <= _a + 1 + _b and 1 <= j1 and j1 < j2 and j2 <= N, {}))'.format(row('_a + 1', 'i2', 'j1', 'j2'))
D3 = 'forall(lambda j1, j2: implies(1 <= j1 and j1 <= _c and j1 < j2 and j2 <= N, {}))'.format(row('_a + 1', '_a + 2 + _b', 'j1', 'j2'))
D4 = 'forall(lambda j2: implies(_c + 1 < j2 and j2 <= _c + 1 + _it, {}))'.format(row('_a + 1', '_a + 2 + _b', '_c + 1', 'j2'))


def force(pred):
    return {'assumed': 'meaning of force_{0}_mapping = the relational predicate m_{0} (proved for unary mappings: C04)'.format(pred),
            'params': {'f': 'obj:MapS'}, 'ghost_params': {'a': 'asg'}, 'modifies': ['self.store'],
            'ensures': ['sat(a, self.store) == (sat(a, old(self.store)) and m_{}(a, f.gid))'.format(pred)]}


CONTRACTS = {
    (G_, 'GraphS.order'): {'assumed': 'Graph.order() is the number of vertices', 'params': {}, 'returns_expr': 'self.n'},
    (G_, 'GraphS.has_edge'): {'assumed': 'edge view (C16): the adjacency relation of the graph', 'params': {'u': 'int', 'v': 'int'},
                              'returns_expr': 'gadj(self.gid, u, v)',
                              # a simple graph: adjacency is symmetric (has_edge(v, u) is the same question)
                              'ensures': ['gadj(self.gid, u, v) == gadj(self.gid, v, u)']},
    (F_, 'FormulaS.__init__'): {'assumed': 'formula_class() builds an empty formula of that class', 'params': {},
                                'modifies': ['self.store', 'self._numvar'], 'ensures': ['self.store == cnil', 'self._numvar == 0']},
    (F_, 'FormulaS.new_variable'): {'assumed': 'group allocation (C11): one fresh variable', 'params': {'label': 'any'}, 'modifies': ['self._numvar'],
                                    'returns': 'int', 'ensures': ['self._numvar == old(self._numvar) + 1', 'result == self._numvar']},
    (F_, 'FormulaS.new_mapping'): {
        'assumed': 'group allocation (C11): n*m fresh variables; every s[i,j] is a variable of the formula, above the earlier ones',
        'params': {'n': 'int', 'm': 'int', 'label': 'any'}, 'requires': ['n >= 0', 'm >= 0'],
        'modifies': ['self._numvar'], 'returns': 'obj:MapS',
        'ensures': ['result.n == n', 'result.m == m', 'self._numvar == old(self._numvar) + n * m',
                    'forall(lambda u, v: implies(1 <= u and u <= n and 1 <= v and v <= m, '
                    'old(self._numvar) < mvar(result.gid, u, v) and mvar(result.gid, u, v) <= self._numvar), lambda u, v: mvar(result.gid, u, v))']},
    (F_, 'FormulaS.force_complete_mapping'): force('complete'),
    (F_, 'FormulaS.force_functional_mapping'): force('functional'),
    (F_, 'FormulaS.force_injective_mapping'): force('injective'),
    (V_, 'MapS.__call__'): {'assumed': 'mapping call contract (C11): s(i, j) is the variable s[i,j]', 'params': {},
                            'supports': ['len(index) == 2', 'index[0] is not None and index[1] is not None'],
                            'requires': ['1 <= index[0] and index[0] <= self.n', '1 <= index[1] and index[1] <= self.m'],
                            'returns_expr': 'mvar(self.gid, index[0], index[1])'},
    (F_, 'FormulaS.add_clause'): {
        'assumed': 'interface meaning of add_clause (C04)',
        'params': {'clause': 'iseq', 'check': 'bool'}, 'ghost_params': {'a': 'asg'},
        'raises': {'ValueError': 'check and haszero(clause)'}, 'modifies': ['self.store', 'self._numvar'],
        'ensures': ['sat(a, self.store) == (sat(a, old(self.store)) and count(a, clause) >= 1)',
                    'self._numvar == ite(check, zmax(old(self._numvar), maxabs(clause)), old(self._numvar))']},
    (S, 'RamseyWitnessFormula'): {
        'property': ['C02', 'C08', 'C10'],
        'params': {'G': 'obj:GraphS', 'k': 'int', 's': 'int', 'symbreak': 'bool', 'formula_class': 'class:FormulaS'},
        'ghost_params': {'a': 'asg'},
        'raises': {'ValueError': 'k < 0 or s < 0'},
        'loops': {0: {'nest': [
            dict(FR, counter='_a', ghost_at_entry={'S0': 'F.store'}, inv=KEEP + [acc(D1)]),
            dict(FR, counter='_b', inv=KEEP + [acc('({} and {})'.format(D1, D2))]),
            dict(FR, counter='_c', inv=KEEP + [acc('({} and {} and {})'.format(D1, D2, D3))]),
            dict(FR, inv=KEEP + [acc('({} and {} and {} and {})'.format(D1, D2, D3, D4))]),
        ]}},
        'ensures': [
            'sat(a, result.store) == (m_complete(a, {m}.gid) and m_functional(a, {m}.gid) and m_injective(a, {m}.gid) and '
            'forall(lambda i1, i2, j1, j2: implies(1 <= i1 and i1 < i2 and i2 <= k and 1 <= j1 and j1 < j2 and j2 <= G.n, {row})))'.format(
                m=M, row=ROW.replace('N', 'G.n')),
            'result._numvar == 1 + k * G.n',
            'result.cls == formula_class',
        ],
    },
}


# ---- SubgraphFormula ----------------------------------------------------------------------------------------------------------
CLASSMODELS['DictS'] = {'file': V_, 'real': 'BaseVariableGroup', 'fields': {'gid': 'int', 'n': 'int', 'm': 'int'}}
CONS = '((gadj(G.gid, j1, j2) == gadj(H.gid, i1, i2)) or (gadj(G.gid, j1, j2) and not induced))'
SROW = '(implies(not {c}, not ({a} and {b}) and implies(not symbreak, not ({x} and {y}))))'.format(
    c=CONS, a=sv('i1', 'j1'), b=sv('i2', 'j2'), x=sv('i1', 'j2'), y=sv('i2', 'j1'))


def srow(i1, i2, j1, j2):
    return SROW.replace('i1', '(' + i1 + ')').replace('i2', '(' + i2 + ')').replace('j1', '(' + j1 + ')').replace('j2', '(' + j2 + ')')


KEEP2 = ['F._numvar == k * N', 'k >= 0', 'N >= 0']
E1 = 'forall(lambda i1, i2, j1, j2: implies(1 <= i1 and i1 <= _a and i1 < i2 and i2 <= k and 1 <= j1 and j1 < j2 and j2 <= N, {}))'.format(srow('i1', 'i2', 'j1', 'j2'))
E2 = 'forall(lambda i2, j1, j2: implies(_a + 1 < i2 and i2 <= _a + 1 + _b and 1 <= j1 and j1 < j2 and j2 <= N, {}))'.format(srow('_a + 1', 'i2', 'j1', 'j2'))
E3 = 'forall(lambda j1, j2: implies(1 <= j1 and j1 <= _c and j1 < j2 and j2 <= N, {}))'.format(srow('_a + 1', '_a + 2 + _b', 'j1', 'j2'))
E4 = 'forall(lambda j2: implies(_c + 1 < j2 and j2 <= _c + 1 + _it, {}))'.format(srow('_a + 1', '_a + 2 + _b', '_c + 1', 'j2'))

CONTRACTS.update({
    (F_, 'FormulaS.force_nondecreasing_mapping'): force('nondecreasing'),
    (V_, 'MapS.to_dict'): {'assumed': 'to_dict() maps every index (u, v) to the identifier of s[u,v] (C11)', 'params': {}, 'returns': 'obj:DictS',
                           'ensures': ['result.gid == self.gid', 'result.n == self.n', 'result.m == self.m']},
    (V_, 'DictS.__getitem__'): {'assumed': 'the dictionary of a mapping group: D[u, v] is the variable s[u,v] (C11)', 'params': {'choices': 'tuple:int,int'},
                                'requires': ['1 <= choices[0] and choices[0] <= self.n', '1 <= choices[1] and choices[1] <= self.m'],
                                'returns_expr': 'mvar(self.gid, choices[0], choices[1])'},
    (S, 'SubgraphFormula'): {
        'property': ['C02', 'C08', 'C10'],
        'params': {'G': 'obj:GraphS', 'H': 'obj:GraphS', 'induced': 'bool', 'symbreak': 'bool', 'formula_class': 'class:FormulaS'},
        'ghost_params': {'a': 'asg'},
        'raises': {},
        'loops': {0: {'nest': [
            dict(FR, counter='_a', ghost_at_entry={'S0': 'F.store'}, inv=KEEP2 + [acc(E1)]),
            dict(FR, counter='_b', inv=KEEP2 + [acc('({} and {})'.format(E1, E2))]),
            dict(FR, counter='_c', inv=KEEP2 + [acc('({} and {} and {})'.format(E1, E2, E3))]),
            dict(FR, inv=KEEP2 + [acc('({} and {} and {} and {})'.format(E1, E2, E3, E4))]),
        ]}},
        'ensures': [
            'sat(a, result.store) == (m_complete(a, {m}.gid) and m_functional(a, {m}.gid) and m_injective(a, {m}.gid) and '
            'implies(symbreak, m_nondecreasing(a, {m}.gid)) and '
            'forall(lambda i1, i2, j1, j2: implies(1 <= i1 and i1 < i2 and i2 <= H.n and 1 <= j1 and j1 < j2 and j2 <= G.n, {row})))'.format(m=M, row=SROW),
            'result._numvar == H.n * G.n',
            'result.cls == formula_class',
        ],
    },
})


# ---- non_edges and CliqueFormula --------------------------------------------------------------------------------------------------
CROW = '(implies(not gadj(G.gid, j1, j2), not ({a} and {b}) and implies(not symbreak, not ({x} and {y}))))'.format(
    a=sv('i1', 'j1'), b=sv('i2', 'j2'), x=sv('i1', 'j2'), y=sv('i2', 'j1'))


def crow(i1, i2, j1, j2):
    return CROW.replace('i1', '(' + i1 + ')').replace('i2', '(' + i2 + ')').replace('j1', '(' + j1 + ')').replace('j2', '(' + j2 + ')')


C1 = 'forall(lambda i1, i2, j1, j2: implies(1 <= i1 and i1 <= _a and i1 < i2 and i2 <= k and 1 <= j1 and j1 < j2 and j2 <= N, {}))'.format(crow('i1', 'i2', 'j1', 'j2'))
C2 = 'forall(lambda i2, j1, j2: implies(_a + 1 < i2 and i2 <= _a + 1 + _b and 1 <= j1 and j1 < j2 and j2 <= N, {}))'.format(crow('_a + 1', 'i2', 'j1', 'j2'))
C3 = 'forall(lambda j1, j2: implies(1 <= j1 and j1 <= _c and j1 < j2 and j2 <= N, {}))'.format(crow('_a + 1', '_a + 2 + _b', 'j1', 'j2'))
C4 = 'forall(lambda j2: implies(_c + 1 < j2 and j2 <= _c + 1 + _it, {}))'.format(crow('_a + 1', '_a + 2 + _b', '_c + 1', 'j2'))

CONTRACTS.update({
    (S, 'non_edges'): {
        'property': ['C02'],
        'params': {'G': 'obj:GraphS'},
        'raises': {},
        # the pairs u < v of 1..N in combination order; an iteration yields its pair iff the pair is not an edge; none missing:
        # the loops make exactly N-1 and N-u iterations
        'loops': {0: {'inv': [], 'exit_ensures': ['_it == zmax(G.n - 1, 0)']},
                  1: {'inv': [], 'counter': '_itv', 'exit_ensures': ['_itv == G.n - (1 + _it)'],
                      'iter_ensures': ['_yielded_now == ite(gadj(G.gid, 1 + _it, 2 + _it + _itv), 0, 1)']}},
        'yields_at': {0: ['len(yielded) == 2', 'yielded[0] == 1 + _it', 'yielded[1] == 2 + _it + _itv', 'yielded[1] <= G.n',
                          'not gadj(G.gid, yielded[0], yielded[1])']},
        # the same statement as a value, for the callers
        'value_form': 'the value of non_edges(G) at a call site is the filtered pair enumeration its proved yield clauses describe (correspondence by reading)',
        'returns_expr': 'combs2_where(1, G.n + 1, lambda u, v: not gadj(G.gid, u, v))',
    },
    (S, 'CliqueFormula'): {
        'property': ['C02', 'C08', 'C10'],
        'params': {'G': 'obj:GraphS', 'k': 'int', 'symbreak': 'bool', 'formula_class': 'class:FormulaS'},
        'ghost_params': {'a': 'asg'},
        'raises': {'ValueError': 'k < 0'},
        'loops': {0: {'nest': [
            dict(FR, counter='_a', ghost_at_entry={'S0': 'F.store'}, inv=KEEP2 + [acc(C1)]),
            dict(FR, counter='_b', inv=KEEP2 + [acc('({} and {})'.format(C1, C2))]),
            dict(FR, counter='_c', inv=KEEP2 + [acc('({} and {} and {})'.format(C1, C2, C3))]),
            dict(FR, inv=KEEP2 + [acc('({} and {} and {} and {})'.format(C1, C2, C3, C4))]),
        ]}},
        'ensures': [
            'sat(a, result.store) == (m_complete(a, {m}.gid) and m_functional(a, {m}.gid) and m_injective(a, {m}.gid) and '
            'implies(symbreak, m_nondecreasing(a, {m}.gid)) and '
            'forall(lambda i1, i2, j1, j2: implies(1 <= i1 and i1 < i2 and i2 <= k and 1 <= j1 and j1 < j2 and j2 <= G.n, {row})))'.format(m=M, row=CROW),
            'result._numvar == k * G.n',
            'result.cls == formula_class',
        ],
    },
})


# ---- GraphIsomorphism ---------------------------------------------------------------------------------------------------------------
I_ = 'cnfgen/families/graphisomorphism.py'
CLASSMODELS['FormulaI'] = {'file': F_, 'real': 'CNF', 'fields': {'store': 'mclist', '_numvar': 'int', 'cls': 'int', 'header': 'opaque', '_mapping': 'obj:MapS'}}
IROW = ('(implies(gadj(G1.gid, u1, u2) != gadj(G2.gid, v1, v2), not ({a} and {b}) and not ({x} and {y})))').format(
    a=sv('u1', 'v1'), b=sv('u2', 'v2'), x=sv('u1', 'v2'), y=sv('u2', 'v1'))


def irow(u1, u2, v1, v2):
    return IROW.replace('u1', '(' + u1 + ')').replace('u2', '(' + u2 + ')').replace('v1', '(' + v1 + ')').replace('v2', '(' + v2 + ')')


KEEP3 = ['F._numvar == G1.n * G2.n']
I1 = 'forall(lambda u1, u2, v1, v2: implies(1 <= u1 and u1 <= _a and u1 < u2 and u2 <= G1.n and 1 <= v1 and v1 < v2 and v2 <= G2.n, {}))'.format(irow('u1', 'u2', 'v1', 'v2'))
I2 = 'forall(lambda u2, v1, v2: implies(_a + 1 < u2 and u2 <= _a + 1 + _b and 1 <= v1 and v1 < v2 and v2 <= G2.n, {}))'.format(irow('_a + 1', 'u2', 'v1', 'v2'))
I3 = 'forall(lambda v1, v2: implies(1 <= v1 and v1 <= _c and v1 < v2 and v2 <= G2.n, {}))'.format(irow('_a + 1', '_a + 2 + _b', 'v1', 'v2'))
I4 = 'forall(lambda v2: implies(_c + 1 < v2 and v2 <= _c + 1 + _it, {}))'.format(irow('_a + 1', '_a + 2 + _b', '_c + 1', 'v2'))
_FI = {k: v for k, v in CONTRACTS.items() if k[1].startswith('FormulaS.')}
for (_f, _q), _c in _FI.items():
    CONTRACTS[(_f, _q.replace('FormulaS.', 'FormulaI.'))] = _c
CONTRACTS[(F_, 'FormulaI.__init__')] = {'assumed': 'formula_class(description=...) builds an empty formula of that class', 'params': {'description': 'any'},
                                        'modifies': ['self.store', 'self._numvar'], 'ensures': ['self.store == cnil', 'self._numvar == 0']}
CONTRACTS[(F_, 'FormulaI.force_surjective_mapping')] = force('surjective')
CONTRACTS.update({
    (V_, 'MapS.domain'): {'assumed': 'domain() = 1..n', 'params': {'v': 'none'}, 'returns_expr': 'range(1, self.n + 1)'},
    (V_, 'MapS.range'): {'assumed': 'range() = 1..m', 'params': {'u': 'none'}, 'returns_expr': 'range(1, self.m + 1)'},
    (I_, 'GraphIsomorphism'): {
        'property': ['C02', 'C08', 'C10'],
        'params': {'G1': 'obj:GraphS', 'G2': 'obj:GraphS', 'nontrivial': 'bool', 'formula_class': 'class:FormulaI'},
        'returns': 'obj:FormulaI',
        'ghost_params': {'a': 'asg'},
        'raises': {},
        'loops': {0: {'nest': [dict(FR, counter='_a', ghost_at_entry={'S0': 'F.store'}, inv=KEEP3 + [acc(I1)]),
                               dict(FR, counter='_b', inv=KEEP3 + [acc('({} and {})'.format(I1, I2))])]},
                  1: {'nest': [dict(FR, counter='_c', inv=KEEP3 + [acc('({} and {} and {})'.format(I1, I2, I3))]),
                               dict(FR, inv=KEEP3 + [acc('({} and {} and {} and {})'.format(I1, I2, I3, I4))])]}},
        'ensures': [
            'sat(a, result.store) == (m_complete(a, {m}.gid) and m_surjective(a, {m}.gid) and m_functional(a, {m}.gid) and m_injective(a, {m}.gid) and '
            'forall(lambda u1, u2, v1, v2: implies(1 <= u1 and u1 < u2 and u2 <= G1.n and 1 <= v1 and v1 < v2 and v2 <= G2.n, {row})) and '
            # nontrivial: some vertex u (of both graphs) is NOT mapped to itself - the clause [-f(u,u) for u in 1..min(n1, n2)]
            'implies(nontrivial, count(a, iofarr(lam1(lambda j: -mvar({m}.gid, 1 + j, 1 + j)), zmax(zmin(G1.n, G2.n), 0))) >= 1))'.format(m=M, row=IROW),
            'result._numvar == G1.n * G2.n',
            'result.cls == formula_class',
            # the mapping group is handed to the callers (GraphAutomorphism)
            'result._mapping.gid == {m}.gid'.format(m=M), 'result._mapping.n == G1.n', 'result._mapping.m == G2.n',
            'forall(lambda u, v: implies(1 <= u and u <= G1.n and 1 <= v and v <= G2.n, 1 <= mvar({m}.gid, u, v) and mvar({m}.gid, u, v) <= result._numvar), '
            'lambda u, v: mvar({m}.gid, u, v))'.format(m=M),
        ],
    },
})


CONTRACTS[(I_, 'GraphAutomorphism')] = {
    'property': ['C02', 'C08', 'C10'],
    'params': {'G': 'obj:GraphS', 'formula_class': 'class:FormulaI'},
    'ghost_params': {'a': 'asg'},
    'raises': {},
    'ensures': [
        'sat(a, result.store) == (m_complete(a, {m}.gid) and m_surjective(a, {m}.gid) and m_functional(a, {m}.gid) and m_injective(a, {m}.gid) and '
        'forall(lambda u1, u2, v1, v2: implies(1 <= u1 and u1 < u2 and u2 <= G.n and 1 <= v1 and v1 < v2 and v2 <= G.n, {row})) and '
        'count(a, iofarr(lam1(lambda j: -mvar({m}.gid, 1 + j, 1 + j)), G.n)) >= 1)'.format(m=M, row=IROW.replace('G1.', 'G.').replace('G2.', 'G.')),
        'result._numvar == G.n * G.n',
        'result.cls == formula_class',
    ],
}


# ---- BinaryCliqueFormula ------------------------------------------------------------------------------------------------------------
# PROVED for every graph, every k >= 0 and both values of symbreak, for an arbitrary assignment a: with bsel(a, g, i) the vertex number
# (0-based, as the binary mapping counts) spelled by the bits of clique position i,
#     sat  <=>  the mapping is complete and injective [and non-decreasing when symbreak] and for all positions i1 < i2 and all NON-edges
#               {j1, j2}, j1 < j2 (1-based vertices): not (i1 -> j1 - 1 and i2 -> j2 - 1) [and, without symbreak, not the crossed placement];
# k * bitlen(N) variables.  The "- 1" is the 0-based numbering of the binary mapping - the off-by-one of issue #115 is exactly what this
# postcondition pins down.  The loop runs over product(combinations(.., 2), ((u-1, v-1) for (u, v) in non_edges(G))): verified as the four
# nested range loops it is equivalent to, the inner pair handed out shifted by -1.
# ASSUMED: the binary group as the family sees it - allocation (k * bitlen(N) fresh variables, 2**bits >= N), forbid(i, j) is a clause over
# the group's variables that is false exactly when the bits of i spell j and is refused iff j >= 2**bits (C11 bounded tier); force_* (C04
# bounded tier for binary mappings); add_clause (C04); graph views (C16).
CLASSMODELS['BinMapB'] = {'file': V_, 'real': 'BinaryMappingVariables', 'fields': {'gid': 'int', 'n': 'int', 'm': 'int', 'bits': 'int', 'hi': 'int'}}
CLASSMODELS['FormulaB'] = {'file': F_, 'real': 'CNF', 'fields': {'store': 'mclist', '_numvar': 'int', 'cls': 'int', 'header': 'opaque'}}
MB = 'created("BinMapB", 0)'


def bs(i):
    return 'bsel(a, {}.gid, {})'.format(MB, i)


BROW = ('(implies(not gadj(G.gid, j1, j2), not ({a} == j1 - 1 and {b} == j2 - 1) and implies(not symbreak, not ({a} == j2 - 1 and {b} == j1 - 1))))'
        ).format(a=bs('i1'), b=bs('i2'))


def brow(i1, i2, j1, j2):
    return BROW.replace('i1', '(' + i1 + ')').replace('i2', '(' + i2 + ')').replace('j1', '(' + j1 + ')').replace('j2', '(' + j2 + ')')


def forceb(pred):
    return {'assumed': 'meaning of force_{0}_mapping = the relational predicate m_{0} (binary mappings: bounded tier of C04)'.format(pred),
            'params': {'f': 'obj:BinMapB'}, 'ghost_params': {'a': 'asg'}, 'modifies': ['self.store'],
            'ensures': ['sat(a, self.store) == (sat(a, old(self.store)) and m_{}(a, f.gid))'.format(pred)]}


KEEPB = ['F._numvar == k * bitlen(N)', 'k >= 0', 'N >= 0', '{m}.hi == F._numvar'.format(m=MB), '{m}.n == k'.format(m=MB), 'pow2({m}.bits) >= N'.format(m=MB)]
B1 = 'forall(lambda i1, i2, j1, j2: implies(1 <= i1 and i1 <= _a and i1 < i2 and i2 <= k and 1 <= j1 and j1 < j2 and j2 <= N, {}))'.format(brow('i1', 'i2', 'j1', 'j2'))
B2 = 'forall(lambda i2, j1, j2: implies(_a + 1 < i2 and i2 <= _a + 1 + _b and 1 <= j1 and j1 < j2 and j2 <= N, {}))'.format(brow('_a + 1', 'i2', 'j1', 'j2'))
B3 = 'forall(lambda j1, j2: implies(1 <= j1 and j1 <= _c and j1 < j2 and j2 <= N, {}))'.format(brow('_a + 1', '_a + 2 + _b', 'j1', 'j2'))
B4 = 'forall(lambda j2: implies(_c + 1 < j2 and j2 <= _c + 1 + _it, {}))'.format(brow('_a + 1', '_a + 2 + _b', '_c + 1', 'j2'))

CONTRACTS.update({
    (F_, 'FormulaB.__init__'): {'assumed': 'formula_class() builds an empty formula of that class', 'params': {},
                                'modifies': ['self.store', 'self._numvar'], 'ensures': ['self.store == cnil', 'self._numvar == 0']},
    (F_, 'FormulaB.new_binary_mapping'): {
        'assumed': 'group allocation (C11): n * bitlen(m) fresh variables, enough bits to spell 0..m-1',
        'params': {'n': 'int', 'm': 'int', 'label': 'any'}, 'raises': {'ValueError': 'n < 0 or m < 0'},
        'modifies': ['self._numvar'], 'returns': 'obj:BinMapB',
        'ensures': ['result.n == n', 'result.m == m', 'result.bits >= 0', 'pow2(result.bits) >= m', 'self._numvar == old(self._numvar) + n * bitlen(m)',
                    'result.hi == self._numvar']},
    (F_, 'FormulaB.force_complete_mapping'): forceb('complete'),
    (F_, 'FormulaB.force_injective_mapping'): forceb('injective'),
    (F_, 'FormulaB.force_nondecreasing_mapping'): forceb('nondecreasing'),
    (F_, 'FormulaB.add_clause'): CONTRACTS[(F_, 'FormulaS.add_clause')],
    (V_, 'BinMapB.forbid'): {
        'assumed': 'forbid(i, j) (C11 bounded tier): a clause over variables of the group, false exactly when the bits of element i spell j; refused iff j has too many bits',
        'params': {'i': 'int', 'j': 'int'}, 'ghost_params': {'a': 'asg'}, 'requires': ['1 <= i and i <= self.n', 'j >= 0'],
        'raises': {'ValueError': 'j >= pow2(self.bits)'}, 'returns': 'iseq',
        'ensures': ['(count(a, result) >= 1) == (bsel(a, self.gid, i) != j)', 'not haszero(result)', 'maxabs(result) <= self.hi']},
    (S, 'BinaryCliqueFormula'): {
        'property': ['C02', 'C08', 'C10'],
        'params': {'G': 'obj:GraphS', 'k': 'int', 'symbreak': 'bool', 'formula_class': 'class:FormulaB'},
        'ghost_params': {'a': 'asg'},
        'raises': {'ValueError': 'k < 0'},
        'loops': {0: {'nest': [
            dict(FR, counter='_a', ghost_at_entry={'S0': 'F.store'}, inv=KEEPB + [acc(B1)]),
            dict(FR, counter='_b', inv=KEEPB + [acc('({} and {})'.format(B1, B2))]),
            dict(FR, counter='_c', inv=KEEPB + [acc('({} and {} and {})'.format(B1, B2, B3))]),
            dict(FR, inv=KEEPB + [acc('({} and {} and {} and {})'.format(B1, B2, B3, B4))]),
        ]}},
        'ensures': [
            'sat(a, result.store) == (m_complete(a, {m}.gid) and m_injective(a, {m}.gid) and implies(symbreak, m_nondecreasing(a, {m}.gid)) and '
            'forall(lambda i1, i2, j1, j2: implies(1 <= i1 and i1 < i2 and i2 <= k and 1 <= j1 and j1 < j2 and j2 <= G.n, {row})))'.format(m=MB, row=BROW),
            'result._numvar == k * bitlen(G.n)',
            'result.cls == formula_class',
        ],
    },
})
