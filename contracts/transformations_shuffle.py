"""Sidecar contract for cnfgen/transformations/shuffle.py:Shuffle  (C09, C10, C19).

The post is the property statement: the result is obtained from F by ONE choice of polarity per variable s,
ONE bijection of the variables sigma and ONE permutation of the clause positions, applied to every occurrence.
The witnesses are the function's own values at exit (final('polarity_flips'), final('variables_permutation'),
final('clauses_mapping'), final('substitution')); imapsub(c, T, n) is "look every literal of c up in the table T".
Arguments are polymorphic ('fixed' | 'shuffle' | explicit list): three variants, all three arguments in the same mode;
mixed modes are decided by the bounded tier.  RNG calls are demonic (any outcome allowed by their contract).
"""
S = 'cnfgen/transformations/shuffle.py'

N = 'F._numvar'
M = 'clen(F._clauses)'
WF_F = ['F._numvar >= 0', 'cmaxabs(F._clauses) <= F._numvar', 'not chaszero(F._clauses)']

POST = [
    'result._numvar == F._numvar',                       # same number of variables ...
    'clen(result._clauses) == clen(F._clauses)',         # ... and of clauses
    # one polarity per variable, one bijection of the variables
    'forall(lambda j: implies(0 <= j and j < F._numvar, final("polarity_flips")[j] == 1 or final("polarity_flips")[j] == -1))',
    # the literal table realises exactly "variable v -> s(v) * sigma(v)", consistently for both polarities
    'forall(lambda v: implies(1 <= v and v <= F._numvar, final("substitution")[v] == final("polarity_flips")[v - 1] * final("variables_permutation")[v - 1] '
    'and final("substitution")[2 * F._numvar + 1 - v] == -final("substitution")[v]))',
    # clause at new position j is the renamed clause at old position clauses_mapping[j][0]; new positions are 0..M-1 in order
    'forall(lambda j: implies(0 <= j and j < clen(F._clauses), final("clauses_mapping")[j][1] == j and '
    'cget(result._clauses, j) == imapsub(cget(F._clauses, final("clauses_mapping")[j][0]), final("substitution"), 2 * F._numvar + 1)))',
    # the input formula is untouched (C19)
    'F._clauses == old(F._clauses)', 'F._numvar == old(F._numvar)',
    # the result is well formed (C10)
    'cmaxabs(result._clauses) <= result._numvar', 'not chaszero(result._clauses)',
]

LOOPS = {
    0: {'inv': ['i >= 1']},
    1: {'inv': ['forall(lambda j: implies(0 <= j and j < _it, polarity_flips[j] == 1 or polarity_flips[j] == -1))', 'i == _it']},
    2: {'inv': ['forall(lambda j: implies(0 <= j and j < _it, tmp[j] == j + 1))', 'i == _it'],
        # L13a: a list whose sorted copy is 1..N is a permutation of 1..N
        'exit_hints': ['isperm(variables_permutation, N, 1)']},
    3: {'inv': ['forall(lambda j: implies(0 <= j and j < _it, tmp[j] == j))', 'i == _it'],
        'exit_hints': ['isperm(clauses_permutation, M, 0)']},
    4: {'inv': ['len(substitution) == 2 * N + 1', 'i == 1 + _it',
                'forall(lambda v: implies(1 <= v and v < i, substitution[v] == polarity_flips[v - 1] * variables_permutation[v - 1]))',
                'forall(lambda w: implies(2 * N + 1 - i < w and w <= 2 * N, substitution[w] == -substitution[2 * N + 1 - w]))',
                # consequences kept explicit for the last loop: every filled slot is a literal over 1..N
                'forall(lambda v: implies(1 <= v and v < i, 1 <= abs(substitution[v]) and abs(substitution[v]) <= N))',
                'forall(lambda w: implies(2 * N + 1 - i < w and w <= 2 * N, 1 <= abs(substitution[w]) and abs(substitution[w]) <= N))']},
    5: {'inv': ['clen(out._clauses) == _it', 'out._numvar == N', 'cmaxabs(out._clauses) <= N', 'not chaszero(out._clauses)',
                'forall(lambda j: implies(0 <= j and j < _it, cget(out._clauses, j) == imapsub(cget(F._clauses, clauses_mapping[j][0]), substitution, 2 * N + 1)))'],
        'modifies_objects': ['out'], 'modifies_fields': {'out': ['_clauses', '_numvar']}},
}

EXPLICIT_BAD = ('len(polarity_flips) != F._numvar or not forall(lambda j: implies(0 <= j and j < F._numvar, polarity_flips[j] == 1 or polarity_flips[j] == -1)) '
                'or len(variables_permutation) != F._numvar or not isperm(variables_permutation, F._numvar, 1) '
                'or len(clauses_permutation) != clen(F._clauses) or not isperm(clauses_permutation, clen(F._clauses), 0)')

CLASSMODELS = {}
NOT_PYVC = False

CONTRACTS = {
    ('cnfgen/formula/basecnf.py', 'BaseCNF.number_of_variables'): {'inline_always': True},
    ('cnfgen/formula/basecnf.py', 'BaseCNF.number_of_clauses'): {'inline_always': True},
    ('cnfgen/formula/basecnf.py', 'BaseCNF.__len__'): {'inline_always': True},
    ('cnfgen/formula/basecnf.py', 'BaseCNF.__getitem__'): {'inline_always': True},
    ('cnfgen/formula/basecnf.py', 'BaseCNF.update_variable_number'): {'inline_always': True},
    ('cnfgen/localtypes.py', 'non_negative_int'): {'inline_always': True},
    (S, 'Shuffle'): {
        'property': ['C09', 'C10', 'C19'],
        'tags': {'F._clauses == old': ['C19'], 'F._numvar == old': ['C19'], 'cmaxabs(result': ['C10'], 'chaszero(result': ['C10']},
        'requires': WF_F,
        'loops': LOOPS,
        'ensures': POST,
        'variants': {
            'explicit': {
                'params': {'F': 'obj:CNF', 'polarity_flips': 'intlist', 'variables_permutation': 'intlist', 'clauses_permutation': 'intlist'},
                # invalid explicit arguments are rejected, valid ones are applied exactly as given
                'raises': {'ValueError': EXPLICIT_BAD},
                'ensures': ['isperm(final("variables_permutation"), F._numvar, 1)',
                            'forall(lambda j: implies(0 <= j and j < clen(F._clauses), clauses_permutation[final("clauses_mapping")[j][0]] == j))'],
            },
            'fixed': {
                'params': {'F': 'obj:CNF', 'polarity_flips': 'const:"fixed"', 'variables_permutation': 'const:"fixed"', 'clauses_permutation': 'const:"fixed"'},
                'raises': {},
                # switched off = identity components
                'ensures': ['forall(lambda j: implies(0 <= j and j < F._numvar, final("polarity_flips")[j] == 1 and final("variables_permutation")[j] == j + 1))',
                            'forall(lambda j: implies(0 <= j and j < clen(F._clauses), final("clauses_mapping")[j][0] == j))'],
            },
            'shuffle': {
                'params': {'F': 'obj:CNF', 'polarity_flips': 'const:"shuffle"', 'variables_permutation': 'const:"shuffle"', 'clauses_permutation': 'const:"shuffle"'},
                'raises': {},
                # whatever the random generator answers, the components are a sign vector and two permutations
                'ensures': ['isperm(final("variables_permutation"), F._numvar, 1)',
                            'isperm(firsts(final("clauses_mapping")), clen(F._clauses), 0)'],
            },
        },
    },
}
