"""Sidecar contract for cnfgen/transformations/shuffle.py:Shuffle  (C09, C10, C19).

The post is the property statement: the result is obtained from F by ONE choice of polarity per variable s,
ONE bijection of the variables sigma and ONE permutation of the clause positions, applied to every occurrence.
The witnesses are the function's own values at exit (final('polarity_flips'), final('variables_permutation'),
final('clauses_mapping'), final('substitution')); imapsub(c, T, n) is "look every literal of c up in the table T".
Arguments are polymorphic ('fixed' | 'shuffle' | explicit list): every argument independently: 27 variants (quick tier: 6 of them, thorough tier: all).  RNG calls are demonic (any outcome allowed by their contract).
"""
S = 'cnfgen/transformations/shuffle.py'

N = 'F._numvar'
M = 'clen(F._clauses)'
WF_F = ['F._numvar >= 0', 'cmaxabs(F._clauses) <= F._numvar', 'not chaszero(F._clauses)']

POST = [
    'result._numvar == F._numvar',                       # same number of variables ...
    'clen(result._clauses) == clen(F._clauses)',         # ... and of clauses
    # one polarity per variable, one bijection of the variables
    'forall(lambda j: implies(0 <= j and j < F._numvar, final("polarity_flips")[j] == 1 or final("polarity_flips")[j] == -1))',
    # the literal table realises exactly "variable v -> s(v) * sigma(v)", consistently for both polarities
    'forall(lambda v: implies(1 <= v and v <= F._numvar, final("substitution")[v] == final("polarity_flips")[v - 1] * final("variables_permutation")[v - 1] '
    'and final("substitution")[2 * F._numvar + 1 - v] == -final("substitution")[v]))',
    # clause at new position j is the renamed clause at old position clauses_mapping[j][0]; new positions are 0..M-1 in order
    'forall(lambda j: implies(0 <= j and j < clen(F._clauses), final("clauses_mapping")[j][1] == j and '
    'cget(result._clauses, j) == imapsub(cget(F._clauses, final("clauses_mapping")[j][0]), final("substitution"), 2 * F._numvar + 1)))',
    # the input formula is untouched (C19)
    'F._clauses == old(F._clauses)', 'F._numvar == old(F._numvar)',
    # the result is well formed (C10)
    'cmaxabs(result._clauses) <= result._numvar', 'not chaszero(result._clauses)',
]

LOOPS = {
    0: {'inv': ['i >= 1']},
    1: {'inv': ['forall(lambda j: implies(0 <= j and j < _it, polarity_flips[j] == 1 or polarity_flips[j] == -1))', 'i == _it']},
    2: {'inv': ['forall(lambda j: implies(0 <= j and j < _it, tmp[j] == j + 1))', 'i == _it'],
        # L13a: a list whose sorted copy is 1..N is a permutation of 1..N
        'exit_hints': ['isperm(variables_permutation, N, 1)']},
    3: {'inv': ['forall(lambda j: implies(0 <= j and j < _it, tmp[j] == j))', 'i == _it'],
        'exit_hints': ['isperm(clauses_permutation, M, 0)']},
    4: {'inv': ['len(substitution) == 2 * N + 1', 'i == 1 + _it',
                'forall(lambda v: implies(1 <= v and v < i, substitution[v] == polarity_flips[v - 1] * variables_permutation[v - 1]))',
                'forall(lambda w: implies(2 * N + 1 - i < w and w <= 2 * N, substitution[w] == -substitution[2 * N + 1 - w]))',
                # consequences kept explicit for the last loop: every filled slot is a literal over 1..N
                'forall(lambda v: implies(1 <= v and v < i, 1 <= abs(substitution[v]) and abs(substitution[v]) <= N))',
                'forall(lambda w: implies(2 * N + 1 - i < w and w <= 2 * N, 1 <= abs(substitution[w]) and abs(substitution[w]) <= N))']},
    5: {'inv': ['clen(out._clauses) == _it', 'out._numvar == N', 'cmaxabs(out._clauses) <= N', 'not chaszero(out._clauses)',
                'forall(lambda j: implies(0 <= j and j < _it, cget(out._clauses, j) == imapsub(cget(F._clauses, clauses_mapping[j][0]), substitution, 2 * N + 1)))'],
        'modifies_objects': ['out'], 'modifies_fields': {'out': ['_clauses', '_numvar']}},
}

EXPLICIT_BAD = ('len(polarity_flips) != F._numvar or not forall(lambda j: implies(0 <= j and j < F._numvar, polarity_flips[j] == 1 or polarity_flips[j] == -1)) '
                'or len(variables_permutation) != F._numvar or not isperm(variables_permutation, F._numvar, 1) '
                'or len(clauses_permutation) != clen(F._clauses) or not isperm(clauses_permutation, clen(F._clauses), 0)')

# every argument independently: an explicit list, 'fixed' (switched off) or 'shuffle' (random): 27 combinations.
# per argument: (parameter type, raises-disjunct for an explicit value, extra postconditions)
_MODES = {
    'polarity_flips': {
        'explicit': ('intlist', 'len(polarity_flips) != F._numvar or not forall(lambda j: implies(0 <= j and j < F._numvar, polarity_flips[j] == 1 or polarity_flips[j] == -1))', []),
        'fixed': ('const:"fixed"', None, ['forall(lambda j: implies(0 <= j and j < F._numvar, final("polarity_flips")[j] == 1))']),
        'shuffle': ('const:"shuffle"', None, []),
    },
    'variables_permutation': {
        'explicit': ('intlist', 'len(variables_permutation) != F._numvar or not isperm(variables_permutation, F._numvar, 1)',
                     ['isperm(final("variables_permutation"), F._numvar, 1)']),
        'fixed': ('const:"fixed"', None, ['forall(lambda j: implies(0 <= j and j < F._numvar, final("variables_permutation")[j] == j + 1))']),
        'shuffle': ('const:"shuffle"', None, ['isperm(final("variables_permutation"), F._numvar, 1)']),
    },
    'clauses_permutation': {
        'explicit': ('intlist', 'len(clauses_permutation) != clen(F._clauses) or not isperm(clauses_permutation, clen(F._clauses), 0)',
                     ['forall(lambda j: implies(0 <= j and j < clen(F._clauses), clauses_permutation[final("clauses_mapping")[j][0]] == j))']),
        'fixed': ('const:"fixed"', None, ['forall(lambda j: implies(0 <= j and j < clen(F._clauses), final("clauses_mapping")[j][0] == j))']),
        'shuffle': ('const:"shuffle"', None, ['isperm(firsts(final("clauses_mapping")), clen(F._clauses), 0)']),
    },
}
VARIANTS = {}
for _p in ('explicit', 'fixed', 'shuffle'):
    for _v in ('explicit', 'fixed', 'shuffle'):
        for _c in ('explicit', 'fixed', 'shuffle'):
            _sel = {'polarity_flips': _p, 'variables_permutation': _v, 'clauses_permutation': _c}
            _bad = [_MODES[a][m][1] for a, m in _sel.items() if _MODES[a][m][1]]
            VARIANTS['{}-{}-{}'.format(_p[0], _v[0], _c[0])] = {
                'params': dict({'F': 'obj:CNF'}, **{a: _MODES[a][m][0] for a, m in _sel.items()}),
                # invalid explicit arguments are rejected, valid ones are applied exactly as given
                'raises': {'ValueError': ' or '.join(_bad)} if _bad else {},
                'ensures': [t for a, m in _sel.items() for t in _MODES[a][m][2]],
            }
# the quick tier proves the three uniform combinations and three mixed ones; the thorough tier all 27
QUICK_VARIANTS = ['e-e-e', 'f-f-f', 's-s-s', 'e-s-f', 's-f-e', 'f-e-s']

CLASSMODELS = {}
NOT_PYVC = False

CONTRACTS = {
    ('cnfgen/formula/basecnf.py', 'BaseCNF.number_of_variables'): {'inline_always': True},
    ('cnfgen/formula/basecnf.py', 'BaseCNF.number_of_clauses'): {'inline_always': True},
    ('cnfgen/formula/basecnf.py', 'BaseCNF.__len__'): {'inline_always': True},
    ('cnfgen/formula/basecnf.py', 'BaseCNF.__getitem__'): {'inline_always': True},
    ('cnfgen/formula/basecnf.py', 'BaseCNF.update_variable_number'): {'inline_always': True},
    ('cnfgen/localtypes.py', 'non_negative_int'): {'inline_always': True},
    (S, 'Shuffle'): {
        'property': ['C09', 'C10', 'C19'],
        'tags': {'F._clauses == old': ['C19'], 'F._numvar == old': ['C19'], 'cmaxabs(result': ['C10'], 'chaszero(result': ['C10']},
        'requires': WF_F,
        'loops': LOOPS,
        'ensures': POST,
        'variants': VARIANTS,
        'quick_variants': QUICK_VARIANTS,
    },
}
