"""Sidecar contract for the DIMACS graph reader of cnfgen/graphs.py (C14 reader half, C18), under the token abstraction of the
readers (the text is a sequence of opaque lines; strip / split / int() are demonic library functions: int() raises ValueError or
returns some integer).

PROVED for every input text under that abstraction, for both graph classes (through an abstract view of add_edge that may refuse
any edge with ValueError):
  * the only exception that can leave the reader is ValueError - no IndexError on `l[0]`, no unpacking error that is not a
    ValueError, no AttributeError on a graph that does not exist yet (an edge line before the problem line is rejected), no
    comparison with an undeclared count;
  * a second problem line is rejected; a format other than 'edge' is rejected;
  * on normal return the graph exists, has the declared number of vertices, and exactly as many edge lines were read - each
    accepted by add_edge - as the problem line declares (a text with fewer or more edge lines is rejected).
_kthlist_parse, the tokenizer behind the three KTH adjacency-list readers, is proved in the same way (see below).
Left to the bounded tier: that the integers are the ones written in the text, the KTH readers on top of the tokenizer, the matrix format.
"""
G = 'cnfgen/graphs.py'

CLASSMODELS = {
    'GraphRd': {'file': G, 'real': 'DirectedGraph', 'fields': {'n': 'int', 'nadd': 'int', 'cls': 'int'}, 'stands_for': ['Graph']},
}

INV = ['m_cnt >= 0', 'implies(G is None, m_cnt == 0 and m == -1)', 'implies(G is not None, G.n == n and G.nadd == m_cnt)']

CONTRACTS = {
    (G, 'GraphRd.__init__'): {'assumed': 'graph constructor view: n vertices, no edge yet (refuses a negative count)', 'params': {'n': 'int', 'name': 'any'},
                              'raises': {'ValueError': 'n < 0'}, 'modifies': ['self.n', 'self.nadd'], 'ensures': ['self.n == n', 'self.nadd == 0']},
    (G, 'GraphRd.add_edge'): {'assumed': 'add_edge view for both graph classes: may refuse the edge with ValueError (C16: exactly when it is illegal); otherwise one more accepted call',
                              'params': {'src': 'int', 'dest': 'int'}, 'raises': {'ValueError': None}, 'modifies': ['self.nadd'],
                              'ensures': ['self.nadd == old(self.nadd) + 1']},
    (G, '_read_graph_dimacs_format'): {
        'property': ['C14', 'C18'],
        'params': {'inputfile': 'textfile', 'graph_class': 'class:GraphRd'},
        'raises': {'ValueError': None},
        'locals': {'G': 'optobj:GraphRd'},
        'loops': {0: {'inv': INV}},
        'ensures': ['result is not None', 'result.n == final("n")', 'result.nadd == final("m")', 'final("m") == final("m_cnt")'],
    },
    # the tokenizer of the KTH adjacency-list formats (all three graph kinds read through it): only ValueError escapes; the vertex
    # count (>= 0) is yielded exactly once and before any adjacency line; every adjacency line yielded has its vertex in 1..size and
    # all listed neighbours in 1..size (the closing 0 removed); a text without a vertex count is rejected
    (G, '_kthlist_parse'): {
        'property': ['C14', 'C18'],
        'params': {'inputfile': 'textfile'},
        'raises': {'ValueError': None},
        'loops': {0: {'inv': ['size >= -1', 'implies(size < 0, _y0 == 0 and _y1 == 0)', 'implies(size >= 0, _y0 == 1)']}},
        'yields_at': {
            0: ['yielded[0] >= 0', '_y0 == 0', '_y1 == 0'],
            1: ['1 <= yielded[0]', 'yielded[0] <= size', 'size >= 0',
                'forall(lambda j: implies(0 <= j and j < len(yielded[1]), 1 <= yielded[1][j] and yielded[1][j] <= size))'],
        },
        'ensures': ['final("size") >= 0', 'final("_y0") == 1'],
    },
}
