"""Sidecar contract: force_nondecreasing_mapping on complete unary mappings (C04 mapping builders, C10).

PROVED (for every complete mapping f: [n] -> [m] created from the manager's own formula, every well-formed formula, an arbitrary
assignment a): afterwards a satisfies the formula iff it satisfied it before and for all u1 < u2 and all v1 > v2 NOT both f[u1,v1]
and f[u2,v2] - a later element is never mapped below an earlier one; the variable count is unchanged, the earlier clauses are kept.
The loop over product(range(u1), range(u2)) inside the loop over combinations(domain, 2) is verified as nested range loops.
Sparse mappings (ranges that are arbitrary neighbour lists) and binary mappings stay with the bounded tier.
ASSUMED: the dictionary of the group (C11: fd[(u, v)] is the variable f[u,v], a variable of the formula) and its domain / range views.
"""
V = 'cnfgen/formula/variables.py'

CLASSMODELS = {
    'UMapC': {'file': V, 'real': 'UnaryMappingVariables', 'fields': {'gid': 'int', 'n': 'int', 'm': 'int', 'formula': 'obj:CNFLinear'},
              'invariant': ['self.n >= 0', 'self.m >= 0']},
    'DictC': {'file': V, 'real': 'BaseVariableGroup', 'fields': {'gid': 'int', 'n': 'int', 'm': 'int', 'top': 'int'}},
    'ManagerN': {'file': V, 'real': 'VariablesManager', 'fields': {'_groups': 'opaque', '_formula': 'obj:CNFLinear'}},
}
WF = ['self._formula._numvar >= 0', 'cmaxabs(self._formula._clauses) <= self._formula._numvar', 'not chaszero(self._formula._clauses)']
LT = 'lit_true(a, mvar(f.gid, {}, {}))'


def nd(u1, u2, v1, v2):
    return 'not ({} and {})'.format(LT.format(u1, v1), LT.format(u2, v2))


def acc(text):
    return 'sat(a, self._formula._clauses) == (sat(a, C0) and {})'.format(text)


FR = {'modifies_objects': ['self._formula'], 'modifies_fields': {'self._formula': ['_clauses', '_numvar']}}
KEEP = ['self._formula._numvar == NV', 'ctake(self._formula._clauses, clen(C0)) == C0', 'clen(self._formula._clauses) >= clen(C0)'] + WF
D1 = 'forall(lambda u1, u2, v1, v2: implies(1 <= u1 and u1 <= _a and u1 < u2 and u2 <= f.n and 1 <= v2 and v2 < v1 and v1 <= f.m, {}))'.format(nd('u1', 'u2', 'v1', 'v2'))
D2 = 'forall(lambda u2, v1, v2: implies(_a + 1 < u2 and u2 <= _a + 1 + _b and 1 <= v2 and v2 < v1 and v1 <= f.m, {}))'.format(nd('(_a + 1)', 'u2', 'v1', 'v2'))
D3 = 'forall(lambda v1, v2: implies(1 <= v1 and v1 <= _c and 1 <= v2 and v2 < v1, {}))'.format(nd('(_a + 1)', '(_a + 2 + _b)', 'v1', 'v2'))
D4 = 'forall(lambda v2: implies(1 <= v2 and v2 <= _it and v2 < _c + 1, {}))'.format(nd('(_a + 1)', '(_a + 2 + _b)', '(_c + 1)', 'v2'))

CONTRACTS = {
    (V, 'UMapC.domain'): {'assumed': 'domain() of a complete mapping = 1..n', 'params': {'v': 'none'}, 'returns_expr': 'range(1, self.n + 1)'},
    (V, 'UMapC.range'): {'assumed': 'range(u) of a COMPLETE mapping = 1..m for every u', 'params': {'u': 'int'}, 'returns_expr': 'range(1, self.m + 1)'},
    (V, 'UMapC.to_dict'): {'assumed': 'to_dict() maps every index (u, v) to the identifier of f[u,v], a variable of the formula (C11)', 'params': {},
                           'returns': 'obj:DictC',
                           'ensures': ['result.gid == self.gid', 'result.n == self.n', 'result.m == self.m', 'result.top == self.formula._numvar',
                                       'forall(lambda u, v: implies(1 <= u and u <= self.n and 1 <= v and v <= self.m, '
                                       '1 <= mvar(self.gid, u, v) and mvar(self.gid, u, v) <= self.formula._numvar), lambda u, v: mvar(self.gid, u, v))']},
    (V, 'DictC.__getitem__'): {'assumed': 'the dictionary of a mapping group: D[(u, v)] is the variable f[u,v] (C11)', 'params': {'choices': 'tuple:int,int'},
                               'requires': ['1 <= choices[0] and choices[0] <= self.n', '1 <= choices[1] and choices[1] <= self.m'],
                               'returns_expr': 'mvar(self.gid, choices[0], choices[1])'},
    (V, 'ManagerN.force_nondecreasing_mapping'): {
        'property': ['C04', 'C01', 'C10'],
        'source': (V, 'VariablesManager.force_nondecreasing_mapping'),
        'params': {'self': 'obj:ManagerN', 'f': 'obj:UMapC'},
        'aliases': [('f.formula', 'self._formula')],
        'ghost_params': {'a': 'asg'},
        'requires': WF,
        'raises': {},
        'modifies': ['self._formula._clauses', 'self._formula._numvar'],
        'loops': {
            0: {'nest': [dict(FR, counter='_a', ghost_at_entry={'C0': 'self._formula._clauses'}, ghost_at_entry_vals={'NV': 'self._formula._numvar'},
                              inv=KEEP + [acc(D1)]),
                         dict(FR, counter='_b', inv=KEEP + [acc('({} and {})'.format(D1, D2))])]},
            1: {'nest': [dict(FR, counter='_c', inv=KEEP + [acc('({} and {} and {})'.format(D1, D2, D3))]),
                         dict(FR, inv=KEEP + [acc('({} and {} and {} and {})'.format(D1, D2, D3, D4))])]},
        },
        'ensures': [
            'sat(a, self._formula._clauses) == (sat(a, old(self._formula._clauses)) and '
            'forall(lambda u1, u2, v1, v2: implies(1 <= u1 and u1 < u2 and u2 <= f.n and 1 <= v2 and v2 < v1 and v1 <= f.m, {})))'.format(nd('u1', 'u2', 'v1', 'v2')),
            'self._formula._numvar == old(self._formula._numvar)',
            'ctake(self._formula._clauses, clen(old(self._formula._clauses))) == old(self._formula._clauses)',
        ] + WF,
    },
}
