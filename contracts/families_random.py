"""Sidecar contracts: RandomKCNF over the sampler's contract (C13, C10).

sample_clauses (sets of tuples, RNG) is outside pyvc's subset: its contract is ASSUMED here and decided by the
bounded tier of C13 (all (k,n,m) in small scope, scripted RNG).  PROVED: RandomKCNF declares exactly n variables,
adds exactly the sampled clauses with check=False only after raising the variable count (so WF holds), and raises
ValueError exactly for k > n (besides what the sampler refuses) - for all k, n, m.
"""
R = 'cnfgen/families/randomformulas.py'

CLASSMODELS = {}

CONTRACTS = {
    ('cnfgen/localtypes.py', 'non_negative_int'): {'inline_always': True},
    ('cnfgen/formula/basecnf.py', 'BaseCNF.update_variable_number'): {'inline_always': True},
    (R, 'sample_clauses'): {
        'assumed': 'sampler contract: exactly m clauses over variables 1..n without zero literal, or ValueError; decided by the bounded tier of C13',
        'params': {'k': 'int', 'n': 'int', 'm': 'int', 'planted_assignments': 'any'},
        'requires': ['0 <= k', 'k <= n', 'm >= 0'],
        # sparse sampling only ever collects distinct compatible clauses, the dense fallback refuses iff fewer than m exist
        'raises': {'ValueError': 'm > navail_p(k, n)'},
        'returns': 'cseq',
        'ensures': ['clen(result) == m', 'cmaxabs(result) <= n', 'not chaszero(result)'],
    },
    (R, 'RandomKCNF'): {
        'property': ['C13', 'C10'],
        'params': {'k': 'int', 'n': 'int', 'm': 'int', 'seed': 'none', 'planted_assignments': 'any', 'formula_class': 'class:CNF'},
        # C13: "fails with a ValueError exactly when k exceeds n or m exceeds the number of clauses compatible with the
        # planted assignments, and never otherwise" (negative arguments are refused as documented)
        'raises': {'ValueError': 'n < 0 or m < 0 or k < 0 or k > n or m > navail_p(k, n)'},
        'tags': {},
        'loops': {0: {'ghost_at_entry': {'S': '_iter'},
                      'inv': ['F._clauses == ctake(S, _it)', 'F._numvar == n', 'n >= 0', 'cmaxabs(S) <= n', 'not chaszero(S)', 'clen(S) == m'],
                      'modifies_objects': ['F'], 'modifies_fields': {'F': ['_clauses', '_numvar']}}},
        'ensures': ['result._numvar == n', 'clen(result._clauses) == m', 'cmaxabs(result._clauses) <= n', 'not chaszero(result._clauses)',
                    'k <= n', 'k >= 0', 'n >= 0', 'm >= 0'],
    },
    # ---- random k-XOR: the same shape over the parity sampler
    ('cnfgen/families/randomkxor.py', 'sample_parities'): {
        'assumed': 'sampler contract: exactly m parities (variables 1..n, no zero, right-hand side 0/1), or ValueError iff fewer than m are '
                   'compatible with the planted assignments; decided by the bounded tier of C13',
        'params': {'k': 'int', 'n': 'int', 'm': 'int', 'planted_assignments': 'any'},
        'requires': ['0 <= k', 'k <= n', 'm >= 0'],
        'raises': {'ValueError': 'm > navail_x(k, n)'},
        'returns': 'paritylist',
        'ensures': ['clen(pxs(result)) == m', 'cmaxabs(pxs(result)) <= n', 'not chaszero(pxs(result))',
                    'forall(lambda j: implies(0 <= j and j < m, pbs(result)[j] == 0 or pbs(result)[j] == 1))'],
    },
    ('cnfgen/families/randomkxor.py', 'RandomKXOR'): {
        'property': ['C13', 'C10'],
        'params': {'k': 'int', 'n': 'int', 'm': 'int', 'seed': 'none', 'planted_assignments': 'any', 'formula_class': 'class:CNF'},
        'ghost_params': {'a': 'asg'},
        'raises': {'ValueError': 'n < 0 or m < 0 or k < 0 or k > n or m > navail_x(k, n)'},
        'loops': {0: {'ghost_at_entry': {'S': 'pxs(_iter)', 'B': 'pbs(_iter)'},
                      'inv': ['F._numvar == n', 'n >= 0', 'cmaxabs(F._clauses) <= n', 'not chaszero(F._clauses)',
                              'cmaxabs(S) <= n', 'not chaszero(S)', 'clen(S) == m',
                              'forall(lambda j: implies(0 <= j and j < m, B[j] == 0 or B[j] == 1))',
                              # the satisfying assignments are the solutions of the linear system sampled so far
                              'sat(a, F._clauses) == forall(lambda j: implies(0 <= j and j < _it, (count(a, cget(S, j)) % 2 == 1) == (B[j] == 1)))'],
                      'modifies_objects': ['F'], 'modifies_fields': {'F': ['_clauses', '_numvar']}}},
        'ensures': ['result._numvar == n', 'cmaxabs(result._clauses) <= n', 'not chaszero(result._clauses)',
                    'sat(a, result._clauses) == forall(lambda j: implies(0 <= j and j < m, '
                    '(count(a, cget(final("S"), j)) % 2 == 1) == (final("B")[j] == 1)))',
                    'clen(final("S")) == m', 'k <= n', 'k >= 0', 'n >= 0', 'm >= 0'],
    },
}
