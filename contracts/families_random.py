"""Sidecar contracts: the random k-CNF / k-XOR generators, both samplers and the dense clause enumeration (C13, C10).

PROVED for all k, n, m and EVERY outcome of the random generator:
  * sample_clauses / sample_parities (sparse rejection sampling with a seen-set, then the dense fallback): m pairwise distinct
    clauses (parities), each over k distinct variables of 1..n (increasing; a parity with a bit) and compatible with the planted
    assignments; ValueError exactly when fewer than m exist (counting lemma: pairwise distinct valid items cannot outnumber them);
  * all_clauses / all_good_parities: the filtered product of the k-subsets of 1..n and the sign patterns (resp. the two bits) -
    every compatible clause (parity) exactly once (Lean all_clauses_spec / all_parities_spec);
  * RandomKCNF: exactly n variables, exactly those m clauses, well formed; RandomKXOR: exactly n variables, exactly m such parities,
    and the satisfying assignments are the solutions of that linear system; ValueError exactly for a negative argument, k > n or
    m above the number of compatible clauses (parities).
ASSUMED: clause_satisfied / parity_satisfied are pure tests (psat / psatx; no exception for total planted assignments) - what they
compute is decided by the bounded tier of C13 (small scope, scripted RNG).
"""
R = 'cnfgen/families/randomformulas.py'
X_ = 'cnfgen/families/randomkxor.py'

CLASSMODELS = {}

CONTRACTS = {
    ('cnfgen/localtypes.py', 'non_negative_int'): {'inline_always': True},
    ('cnfgen/formula/basecnf.py', 'BaseCNF.update_variable_number'): {'inline_always': True},
    (R, 'clause_satisfied'): {
        'assumed': 'clause_satisfied(cls, assignments) is a pure test: psat(cls) - whether every planted assignment of this call satisfies the clause',
        'params': {'cls': 'iseq', 'assignments': 'any'}, 'returns_expr': 'psat(cls)'},
    # the dense enumeration: for every k-subset of 1..n (itertools order) and every sign pattern, the clause if it is
    # compatible with the planted assignments; hence (Lean all_clauses_spec) every compatible clause exactly once
    (R, 'all_clauses'): {
        'property': ['C13'],
        'params': {'k': 'int', 'n': 'int', 'planted_assignments': 'any'},
        'requires': ['k >= 0', 'n >= 0'],
        'yield_acc': True, 'returns': 'cseq', 'raises': {},
        'loops': {0: {'counter': '_ito', 'inv': ['_ys == ydom(k, n, _ito)']},
                  1: {'inv': ['_ys == capp(ydom(k, n, _ito), ysign(k, domain, _it))']}},
        'ensures': ['result == ydom(k, n, clen(combs(apseq(1, n), k)))',
                    'cdistinct(result)', 'cvalid(k, n, result)', 'clen(result) == navail_p(k, n)'],
    },
    # the sampler itself: m pairwise distinct clauses, each over k distinct variables of 1..n (increasing) and compatible with the
    # planted assignments, for EVERY outcome of the random generator (sparse rejection sampling, then the dense fallback);
    # ValueError exactly when fewer than m such clauses exist
    (R, 'sample_clauses'): {
        'property': ['C13'],
        'params': {'k': 'int', 'n': 'int', 'm': 'int', 'planted_assignments': 'any'},
        'requires': ['0 <= k', 'k <= n', 'm >= 0'],
        'locals': {'clauses': 'mclist', 'sampled': 'seqset'},
        'raises': {'ValueError': 'm > navail_p(k, n)'},
        'returns': 'cseq',
        'loops': {0: {'inv': ['cdistinct(clauses)', 'cvalid(k, n, clauses)', 'sampled == setof(clauses)', 'clen(clauses) <= m', 't >= 0']}},
        'ensures': ['clen(result) == m', 'cdistinct(result)', 'cvalid(k, n, result)', 'cmaxabs(result) <= n', 'not chaszero(result)'],
    },
    (R, 'RandomKCNF'): {
        'property': ['C13', 'C10'],
        'params': {'k': 'int', 'n': 'int', 'm': 'int', 'seed': 'none', 'planted_assignments': 'any', 'formula_class': 'class:CNF'},
        # C13: "fails with a ValueError exactly when k exceeds n or m exceeds the number of clauses compatible with the
        # planted assignments, and never otherwise" (negative arguments are refused as documented)
        'raises': {'ValueError': 'n < 0 or m < 0 or k < 0 or k > n or m > navail_p(k, n)'},
        'tags': {},
        'loops': {0: {'ghost_at_entry': {'S': '_iter'},
                      'inv': ['F._clauses == ctake(S, _it)', 'F._numvar == n', 'n >= 0', 'cmaxabs(S) <= n', 'not chaszero(S)', 'clen(S) == m',
                              'cdistinct(S)', 'cvalid(k, n, S)'],
                      'modifies_objects': ['F'], 'modifies_fields': {'F': ['_clauses', '_numvar']}}},
        'ensures': ['result._numvar == n', 'clen(result._clauses) == m', 'cmaxabs(result._clauses) <= n', 'not chaszero(result._clauses)',
                    # C13: m pairwise distinct clauses, each over k distinct variables of 1..n, each satisfied by every planted assignment
                    'cdistinct(result._clauses)', 'cvalid(k, n, result._clauses)',
                    'k <= n', 'k >= 0', 'n >= 0', 'm >= 0'],
    },
    # ---- random k-XOR.  A parity (X, b) is kept as the augmented list X + [b]; lists of parities as sequences of those.
    (X_, 'parity_satisfied'): {
        'assumed': 'parity_satisfied(X, b, assignments) is a pure test: psatx(X + [b]); for TOTAL planted assignments (the scope of C13) it does not raise',
        'params': {'X': 'iseq', 'b': 'int', 'assignments': 'any'}, 'returns_expr': 'psatx(isnoc(X, b))'},
    # the dense enumeration of parities: for every k-subset X of 1..n (itertools order) the parities (X, 0) and (X, 1) that are
    # compatible with the planted assignments; hence (Lean all_parities_spec) every compatible parity exactly once
    (X_, 'all_good_parities'): {
        'property': ['C13'],
        'params': {'k': 'int', 'n': 'int', 'planted_assignments': 'any'},
        'requires': ['k >= 0', 'n >= 0'],
        'yield_acc': 'parities', 'returns': 'paritylist', 'raises': {},
        'loops': {0: {'inv': ['_ys == yxdom(k, n, _it)']}},
        'ensures': ['paug(result) == yxdom(k, n, clen(combs(apseq(1, n), k)))',
                    'cdistinct(paug(result))', 'cvalidx(k, n, paug(result))', 'clen(paug(result)) == navail_x(k, n)'],
    },
    # the parity sampler: m pairwise distinct parities, each on k distinct variables of 1..n with a bit, compatible with the planted
    # assignments, for EVERY outcome of the random generator; ValueError exactly when fewer than m exist
    (X_, 'sample_parities'): {
        'property': ['C13'],
        'params': {'k': 'int', 'n': 'int', 'm': 'int', 'planted_assignments': 'any'},
        'requires': ['0 <= k', 'k <= n', 'm >= 0'],
        'locals': {'sampled_list': 'paritylist', 'sampled_set': 'seqset'},
        'raises': {'ValueError': 'm > navail_x(k, n)'},
        'returns': 'paritylist',
        'loops': {0: {'inv': ['cdistinct(paug(sampled_list))', 'cvalidx(k, n, paug(sampled_list))', 'sampled_set == setof(paug(sampled_list))',
                              'clen(paug(sampled_list)) <= m', 't >= 0']}},
        'ensures': ['clen(paug(result)) == m', 'cdistinct(paug(result))', 'cvalidx(k, n, paug(result))'],
    },
    (X_, 'RandomKXOR'): {
        'property': ['C13', 'C10'],
        'params': {'k': 'int', 'n': 'int', 'm': 'int', 'seed': 'none', 'planted_assignments': 'any', 'formula_class': 'class:CNF'},
        'ghost_params': {'a': 'asg'},
        'raises': {'ValueError': 'n < 0 or m < 0 or k < 0 or k > n or m > navail_x(k, n)'},
        'loops': {0: {'ghost_at_entry': {'S': 'paug(_iter)'},
                      'inv': ['F._numvar == n', 'n >= 0', 'cmaxabs(F._clauses) <= n', 'not chaszero(F._clauses)',
                              'clen(S) == m', 'cdistinct(S)', 'cvalidx(k, n, S)',
                              # the satisfying assignments are the solutions of the linear system sampled so far
                              'sat(a, F._clauses) == forall(lambda j: implies(0 <= j and j < _it, '
                              '(count(a, ifront(cget(S, j))) % 2 == 1) == (ilast(cget(S, j)) == 1)), lambda j: cget(S, j))'],
                      'modifies_objects': ['F'], 'modifies_fields': {'F': ['_clauses', '_numvar']}}},
        'ensures': ['result._numvar == n', 'cmaxabs(result._clauses) <= n', 'not chaszero(result._clauses)',
                    # exactly m pairwise distinct parities on k distinct variables each, compatible with the planted assignments ...
                    'clen(final("S")) == m', 'cdistinct(final("S"))', 'cvalidx(k, n, final("S"))',
                    # ... and the formula holds exactly for the solutions of that linear system
                    'sat(a, result._clauses) == forall(lambda j: implies(0 <= j and j < m, '
                    '(count(a, ifront(cget(final("S"), j))) % 2 == 1) == (ilast(cget(final("S"), j)) == 1)), lambda j: cget(final("S"), j))',
                    'k <= n', 'k >= 0', 'n >= 0', 'm >= 0'],
    },
}
