"""Sidecar contracts: RandomKCNF over the sampler's contract (C13, C10).

sample_clauses (sets of tuples, RNG) is outside pyvc's subset: its contract is ASSUMED here and decided by the
bounded tier of C13 (all (k,n,m) in small scope, scripted RNG).  PROVED: RandomKCNF declares exactly n variables,
adds exactly the sampled clauses with check=False only after raising the variable count (so WF holds), and raises
ValueError exactly for k > n (besides what the sampler refuses) - for all k, n, m.
"""
R = 'cnfgen/families/randomformulas.py'

CLASSMODELS = {}

CONTRACTS = {
    ('cnfgen/localtypes.py', 'non_negative_int'): {'inline_always': True},
    ('cnfgen/formula/basecnf.py', 'BaseCNF.update_variable_number'): {'inline_always': True},
    (R, 'sample_clauses'): {
        'assumed': 'sampler contract: exactly m clauses over variables 1..n without zero literal, or ValueError; decided by the bounded tier of C13',
        'params': {'k': 'int', 'n': 'int', 'm': 'int', 'planted_assignments': 'any'},
        'requires': ['0 <= k', 'k <= n', 'm >= 0'],
        # sparse sampling only ever collects distinct compatible clauses, the dense fallback refuses iff fewer than m exist
        'raises': {'ValueError': 'm > navail_p(k, n)'},
        'returns': 'cseq',
        'ensures': ['clen(result) == m', 'cmaxabs(result) <= n', 'not chaszero(result)'],
    },
    (R, 'RandomKCNF'): {
        'property': ['C13', 'C10'],
        'params': {'k': 'int', 'n': 'int', 'm': 'int', 'seed': 'none', 'planted_assignments': 'any', 'formula_class': 'class:CNF'},
        # C13: "fails with a ValueError exactly when k exceeds n or m exceeds the number of clauses compatible with the
        # planted assignments, and never otherwise" (negative arguments are refused as documented)
        'raises': {'ValueError': 'n < 0 or m < 0 or k < 0 or k > n or m > navail_p(k, n)'},
        'tags': {},
        'loops': {0: {'ghost_at_entry': {'S': '_iter'},
                      'inv': ['F._clauses == ctake(S, _it)', 'F._numvar == n', 'n >= 0', 'cmaxabs(S) <= n', 'not chaszero(S)', 'clen(S) == m'],
                      'modifies_objects': ['F'], 'modifies_fields': {'F': ['_clauses', '_numvar']}}},
        'ensures': ['result._numvar == n', 'clen(result._clauses) == m', 'cmaxabs(result._clauses) <= n', 'not chaszero(result._clauses)',
                    'k <= n', 'k >= 0', 'n >= 0', 'm >= 0'],
    },
}
