"""Sidecar contracts: the random k-CNF / k-XOR generators and the clause sampler (C13, C10).

PROVED for all k, n, m and EVERY outcome of the random generator:
  * sample_clauses (sparse rejection sampling with a seen-set, then the dense fallback): m pairwise distinct clauses, each over
    k distinct variables of 1..n (increasing) and compatible with the planted assignments; ValueError exactly when fewer
    than m such clauses exist (counting lemma: pairwise distinct valid clauses cannot outnumber the valid clauses);
  * RandomKCNF: exactly n variables, exactly those m clauses, well formed; ValueError exactly for a negative argument, k > n
    or m above the number of compatible clauses;
  * RandomKXOR: exactly n variables; the satisfying assignments are the solutions of the sampled linear system; same refusals.
ASSUMED: clause_satisfied is a pure test (psat), all_clauses enumerates each compatible clause once (navail_p of them),
the parity sampler (sample_parities) - all decided by the bounded tier of C13 (small scope, scripted RNG).
"""
R = 'cnfgen/families/randomformulas.py'

CLASSMODELS = {}

CONTRACTS = {
    ('cnfgen/localtypes.py', 'non_negative_int'): {'inline_always': True},
    ('cnfgen/formula/basecnf.py', 'BaseCNF.update_variable_number'): {'inline_always': True},
    (R, 'clause_satisfied'): {
        'assumed': 'clause_satisfied(cls, assignments) is a pure test: psat(cls) - whether every planted assignment of this call satisfies the clause',
        'params': {'cls': 'iseq', 'assignments': 'any'}, 'returns_expr': 'psat(cls)'},
    # the dense enumeration: for every k-subset of 1..n (itertools order) and every sign pattern, the clause if it is
    # compatible with the planted assignments; hence (Lean all_clauses_spec) every compatible clause exactly once
    (R, 'all_clauses'): {
        'property': ['C13'],
        'params': {'k': 'int', 'n': 'int', 'planted_assignments': 'any'},
        'requires': ['k >= 0', 'n >= 0'],
        'yield_acc': True, 'returns': 'cseq', 'raises': {},
        'loops': {0: {'counter': '_ito', 'inv': ['_ys == ydom(k, n, _ito)']},
                  1: {'inv': ['_ys == capp(ydom(k, n, _ito), ysign(k, domain, _it))']}},
        'ensures': ['result == ydom(k, n, clen(combs(apseq(1, n), k)))',
                    'cdistinct(result)', 'cvalid(k, n, result)', 'clen(result) == navail_p(k, n)'],
    },
    # the sampler itself: m pairwise distinct clauses, each over k distinct variables of 1..n (increasing) and compatible with the
    # planted assignments, for EVERY outcome of the random generator (sparse rejection sampling, then the dense fallback);
    # ValueError exactly when fewer than m such clauses exist
    (R, 'sample_clauses'): {
        'property': ['C13'],
        'params': {'k': 'int', 'n': 'int', 'm': 'int', 'planted_assignments': 'any'},
        'requires': ['0 <= k', 'k <= n', 'm >= 0'],
        'locals': {'clauses': 'mclist', 'sampled': 'seqset'},
        'raises': {'ValueError': 'm > navail_p(k, n)'},
        'returns': 'cseq',
        'loops': {0: {'inv': ['cdistinct(clauses)', 'cvalid(k, n, clauses)', 'sampled == setof(clauses)', 'clen(clauses) <= m', 't >= 0']}},
        'ensures': ['clen(result) == m', 'cdistinct(result)', 'cvalid(k, n, result)', 'cmaxabs(result) <= n', 'not chaszero(result)'],
    },
    (R, 'RandomKCNF'): {
        'property': ['C13', 'C10'],
        'params': {'k': 'int', 'n': 'int', 'm': 'int', 'seed': 'none', 'planted_assignments': 'any', 'formula_class': 'class:CNF'},
        # C13: "fails with a ValueError exactly when k exceeds n or m exceeds the number of clauses compatible with the
        # planted assignments, and never otherwise" (negative arguments are refused as documented)
        'raises': {'ValueError': 'n < 0 or m < 0 or k < 0 or k > n or m > navail_p(k, n)'},
        'tags': {},
        'loops': {0: {'ghost_at_entry': {'S': '_iter'},
                      'inv': ['F._clauses == ctake(S, _it)', 'F._numvar == n', 'n >= 0', 'cmaxabs(S) <= n', 'not chaszero(S)', 'clen(S) == m',
                              'cdistinct(S)', 'cvalid(k, n, S)'],
                      'modifies_objects': ['F'], 'modifies_fields': {'F': ['_clauses', '_numvar']}}},
        'ensures': ['result._numvar == n', 'clen(result._clauses) == m', 'cmaxabs(result._clauses) <= n', 'not chaszero(result._clauses)',
                    # C13: m pairwise distinct clauses, each over k distinct variables of 1..n, each satisfied by every planted assignment
                    'cdistinct(result._clauses)', 'cvalid(k, n, result._clauses)',
                    'k <= n', 'k >= 0', 'n >= 0', 'm >= 0'],
    },
    # ---- random k-XOR: the same shape over the parity sampler
    ('cnfgen/families/randomkxor.py', 'sample_parities'): {
        'assumed': 'sampler contract: exactly m parities (variables 1..n, no zero, right-hand side 0/1), or ValueError iff fewer than m are '
                   'compatible with the planted assignments; decided by the bounded tier of C13',
        'params': {'k': 'int', 'n': 'int', 'm': 'int', 'planted_assignments': 'any'},
        'requires': ['0 <= k', 'k <= n', 'm >= 0'],
        'raises': {'ValueError': 'm > navail_x(k, n)'},
        'returns': 'paritylist',
        'ensures': ['clen(pxs(result)) == m', 'cmaxabs(pxs(result)) <= n', 'not chaszero(pxs(result))',
                    'forall(lambda j: implies(0 <= j and j < m, pbs(result)[j] == 0 or pbs(result)[j] == 1))'],
    },
    ('cnfgen/families/randomkxor.py', 'RandomKXOR'): {
        'property': ['C13', 'C10'],
        'params': {'k': 'int', 'n': 'int', 'm': 'int', 'seed': 'none', 'planted_assignments': 'any', 'formula_class': 'class:CNF'},
        'ghost_params': {'a': 'asg'},
        'raises': {'ValueError': 'n < 0 or m < 0 or k < 0 or k > n or m > navail_x(k, n)'},
        'loops': {0: {'ghost_at_entry': {'S': 'pxs(_iter)', 'B': 'pbs(_iter)'},
                      'inv': ['F._numvar == n', 'n >= 0', 'cmaxabs(F._clauses) <= n', 'not chaszero(F._clauses)',
                              'cmaxabs(S) <= n', 'not chaszero(S)', 'clen(S) == m',
                              'forall(lambda j: implies(0 <= j and j < m, B[j] == 0 or B[j] == 1))',
                              # the satisfying assignments are the solutions of the linear system sampled so far
                              'sat(a, F._clauses) == forall(lambda j: implies(0 <= j and j < _it, (count(a, cget(S, j)) % 2 == 1) == (B[j] == 1)))'],
                      'modifies_objects': ['F'], 'modifies_fields': {'F': ['_clauses', '_numvar']}}},
        'ensures': ['result._numvar == n', 'cmaxabs(result._clauses) <= n', 'not chaszero(result._clauses)',
                    'sat(a, result._clauses) == forall(lambda j: implies(0 <= j and j < m, '
                    '(count(a, cget(final("S"), j)) % 2 == 1) == (final("B")[j] == 1)))',
                    'clen(final("S")) == m', 'k <= n', 'k >= 0', 'n >= 0', 'm >= 0'],
    },
}
