"""Sidecar contract: CountingPrinciple (C01, C08, C10).

PROVED for all M >= 0, p >= 1, both formula classes, for an arbitrary assignment a: with one variable per p-subset of 1..M (listed in
itertools order: variable number off+1+j for the j-th subset), a satisfies the formula iff for EVERY element i of 1..M exactly one of the
variables of the subsets containing i is true - i.e. the chosen subsets partition 1..M.  Stated through
    cntstar(a, off, C, i, t) = number of j < t with i in C[j] and variable off+1+j true      (defined by recursion on t, Lean pass 24)
as  "for all i in 1..M: cntstar(a, off, C, i, |C|) == 1"  with C the list of the p-subsets.  The star of an element is built by appending
to M lists while one loop runs over the subsets and an inner loop over the elements of a subset: the invariants say what the COUNT of
true variables in each list is (after t subsets: cntstar(.., t); inside subset t: plus the variable of subset t if the element was
already met), never what the lists look like.
ASSUMED: the combinations group as the family sees it (indices() lists the subsets in itertools order, X() - for k >= 1 - their identifiers in
the same order: the tables behind both are proved for the real class in variables_words.py (vid2seq, seq2vid); indices() without argument is
proved there too; that X() without argument maps those tuples to their identifiers one by one is read off the code, not proved), the interface meaning of cardinality_eq (C04).
"""
K = 'cnfgen/families/counting.py'
F_ = 'cnfgen/formula/cnf.py'
V_ = 'cnfgen/formula/variables.py'

CLASSMODELS = {
    'CombP': {'file': V_, 'real': 'WordOfIndicesVariables', 'fields': {'off': 'int', 'n': 'int', 'k': 'int'}},
    'FormulaCP': {'file': F_, 'real': 'CNF', 'fields': {'store': 'mclist', '_numvar': 'int', 'cls': 'int'}},
}
X = 'created("CombP", 0)'
GEN = 'combs(apseq(1, M), p)'
CNT = 'cntstar(a, {x}.off, {g}, {{i}}, {{t}})'.format(x=X, g=GEN)
ROWCNT = 'count(a, iofarr(stars[{r}], len(stars[{r}])))'
RNG = 'forall(lambda r, q: implies(0 <= r and r < M and 0 <= q and q < len(stars[r]), 1 <= stars[r][q] and stars[r][q] <= F._numvar))'
KEEP = ['len(stars) == M', 'M >= 0', 'p >= 1', 'F._numvar == clen({})'.format(GEN), '{}.off == 0'.format(X), RNG]

CONTRACTS = {
    (F_, 'FormulaCP.__init__'): {'assumed': 'formula_class(description=...) builds an empty formula of that class', 'params': {'description': 'any'},
                                 'modifies': ['self.store', 'self._numvar'], 'ensures': ['self.store == cnil', 'self._numvar == 0']},
    (F_, 'FormulaCP.new_combinations'): {
        'assumed': 'group allocation (C11): one fresh variable per k-subset of 1..n, in itertools order',
        'params': {'n': 'int', 'k': 'int', 'label': 'any'}, 'requires': ['n >= 0', 'k >= 0'],
        'modifies': ['self._numvar'], 'returns': 'obj:CombP',
        'ensures': ['result.n == n', 'result.k == k', 'result.off == old(self._numvar)',
                    'self._numvar == old(self._numvar) + clen(combs(apseq(1, n), k))']},
    (V_, 'CombP.indices'): {'assumed': 'index enumeration (C11): the k-subsets in itertools order', 'params': {}, 'supports': ['len(pattern) == 0'],
                            'returns_expr': 'combs(apseq(1, self.n), self.k)'},
    (V_, 'CombP.__call__'): {'assumed': 'group call without index (C11): the identifiers of all the variables, in enumeration order', 'params': {},
                             'supports': ['len(pattern) == 0'], 'requires': ['self.k >= 1'],      # with k == 0 the empty tuple IS an index: X() is then one identifier
                             'returns_expr': 'apseq(self.off + 1, clen(combs(apseq(1, self.n), self.k)))'},
    (F_, 'FormulaCP.cardinality_eq'): {
        'assumed': 'interface meaning of cardinality_eq (C04)',
        'params': {'lits': 'iseq', 'value': 'int', 'check': 'bool'}, 'ghost_params': {'a': 'asg'},
        'raises': {'ValueError': 'check and haszero(lits)'}, 'modifies': ['self.store', 'self._numvar'],
        'ensures': ['sat(a, self.store) == (sat(a, old(self.store)) and count(a, lits) == value)',
                    'self._numvar == ite(check, zmax(old(self._numvar), maxabs(lits)), old(self._numvar))']},
    (K, 'CountingPrinciple'): {
        'property': ['C01', 'C08', 'C10'],
        'params': {'M': 'int', 'p': 'int', 'formula_class': 'class:FormulaCP'},
        'ghost_params': {'a': 'asg'},
        'raises': {'ValueError': 'M < 0 or p < 1'},
        'loops': {
            # after t subsets: the list of every element r+1 holds count = cntstar(.., t)
            0: {'inv': KEEP + ['forall(lambda r: implies(0 <= r and r < M, {} == {}), lambda r: len(stars[r]))'.format(ROWCNT.format(r='r'), CNT.format(i='r + 1', t='_it'))],
                'counter': '_it'},
            # inside subset t (variable var = off+1+t): the elements met so far got one more variable
            1: {'counter': '_k',
                'inv': KEEP + ['var == {}.off + 1 + _it'.format(X), '0 <= _it', '_it < clen({})'.format(GEN), 'pattern == cget({}, _it)'.format(GEN),
                               'forall(lambda r: implies(0 <= r and r < M, {} == {} + ite(imemp(pattern, _k, r + 1) and lit_true(a, var), 1, 0)), lambda r: len(stars[r]))'.format(
                                   ROWCNT.format(r='r'), CNT.format(i='r + 1', t='_it'))]},
            2: {'modifies_objects': ['F'], 'modifies_fields': {'F': ['store', '_numvar']}, 'ghost_at_entry': {'S2': 'F.store'},
                'inv': KEEP + ['forall(lambda r: implies(0 <= r and r < M, {} == {}), lambda r: len(stars[r]))'.format(ROWCNT.format(r='r'), CNT.format(i='r + 1', t='clen({})'.format(GEN))),
                               'sat(a, F.store) == (sat(a, S2) and forall(lambda r: implies(0 <= r and r < _it, {} == 1)))'.format(CNT.format(i='r + 1', t='clen({})'.format(GEN)))]},
        },
        'ensures': ['sat(a, result.store) == forall(lambda i: implies(1 <= i and i <= M, {} == 1))'.format(CNT.format(i='i', t='clen({})'.format(GEN))),
                    'result._numvar == clen({})'.format(GEN), 'result.cls == formula_class'],
    },
}
