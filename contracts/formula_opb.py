"""Sidecar contracts for cnfgen/formula/baseopb.py (C04 pseudo-Boolean half, C08 interface, C10, C19).

A constraint is the heterogeneous list [(c,l), ..., op, value] (declared record type `con`:
terms + operator + value; DESIGN 2.1 "is_valid precondition, not a model of the code").
holds(a, con) := cmp_op(op, wsum(a, terms), value);  wsum = sum of the coefficients of the true literals.
Zero coefficients are outside the quantification of C04 ("positive" is checked as non-negative).
"""
O = 'cnfgen/formula/baseopb.py'

WF = ['self._numvar >= 0', 'omaxabs(self._constraints) <= self._numvar', 'not ohaszero(self._constraints)',
      'onormal(self._constraints)']

CLASSMODELS = {
    'BaseOPB': {'file': O, 'fields': {'_constraints': 'molist', '_numvar': 'int'}},
}

OPS5 = "(con_op(constraint) == '>=' or con_op(constraint) == '==' or con_op(constraint) == '<=' or con_op(constraint) == '<' or con_op(constraint) == '>')"


def builder(meaning):
    return {
        'property': ['C04', 'C08', 'C10', 'C19'],
        'native': 'checks.C04:native_opb',
        'tags': {'osat(a,': ['C04', 'C08'], 'otake(': ['C19'], 'olen(self._constraints) ==': ['C19'], '_numvar': ['C10'],
                 'omaxabs': ['C10'], 'ohaszero': ['C10'], 'onormal': ['C04']},
        'ghost_params': {'a': 'asg'},
        'requires': WF + ['implies(not check, maxabs(lits) <= self._numvar and not haszero(lits))'],
        'raises': {'ValueError': 'check and haszero(lits)'},
        'modifies': ['self._constraints', 'self._numvar'],
        'ensures': [
            'osat(a, self._constraints) == (osat(a, old(self._constraints)) and ({}))'.format(meaning),
            'olen(self._constraints) == olen(old(self._constraints)) + 1',
            'otake(self._constraints, olen(old(self._constraints))) == old(self._constraints)',
            'self._numvar == ite(check, zmax(old(self._numvar), maxabs(lits)), old(self._numvar))',
        ] + WF,
    }


CONTRACTS = {
    (O, 'normalize_opb'): {
        'property': ['C04', 'C19'],
        'native': 'checks.C04:native_normalize',
        'params': {'constraint': 'con'},
        'ghost_params': {'a': 'asg'},
        'requires': [OPS5],
        'returns': 'con',
        'loops': {0: {'ghost_at_entry': {'T0': 'combinations'},
                      'ghost_at_entry_vals': {'V0': 'value', 'W0': 'wsum(a, combinations)'},
                      'inv': ['tlen(combinations) == tlen(T0)',
                              'implies(not thaszero(T0), wsum(a, combinations) - value == W0 - V0)',
                              'forall(lambda j: implies(0 <= j and j < _it, tcoef(combinations, j) >= 0))',
                              'thaszero(combinations) == thaszero(T0)', 'tmaxabs(combinations) == tmaxabs(T0)',
                              'i == _it']}},
        'ensures': [
            # the property: same satisfying assignments (literals are non-zero) ...
            'implies(not thaszero(con_terms(constraint)), holds(a, result) == holds(a, constraint))',
            # ... only non-negative coefficients with >= or ==
            'tnonneg(con_terms(result))',
            "con_op(result) == '>=' or con_op(result) == '=='",
            'tlen(con_terms(result)) == tlen(con_terms(constraint))',
            'thaszero(con_terms(result)) == thaszero(con_terms(constraint))',
            'tmaxabs(con_terms(result)) == tmaxabs(con_terms(constraint))',
            # C19: the caller's list is untouched (the code works on a slice copy)
            'con_terms(constraint) == old(con_terms(constraint))',
        ],
    },
    (O, 'BaseOPB._check_and_update'): {
        'property': ['C10', 'C04'],
        'params': {'data': 'con'},
        'requires': ['self._numvar >= 0'],
        # refused iff some literal is 0, some coefficient negative, or the operator is not >= / ==
        'raises': {'ValueError': "thaszero(con_terms(data)) or not tnonneg(con_terms(data)) or not (con_op(data) == '>=' or con_op(data) == '==')"},
        'modifies': ['self._numvar'],
        'loops': {0: {'inv': ['old(self._numvar) <= maxv', 'maxv <= zmax(old(self._numvar), tmaxabs(con_terms(data)))',
                              'self._numvar == old(self._numvar)',
                              'forall(lambda j: implies(0 <= j and j < _it, abs(tlit(con_terms(data), j)) <= maxv and tlit(con_terms(data), j) != 0 '
                              'and tcoef(con_terms(data), j) >= 0))']}},
        # the declared count becomes the largest variable mentioned (C10)
        'ensures': ['self._numvar == zmax(old(self._numvar), tmaxabs(con_terms(data)))'],
        'ensures_on_raise': [],
    },
    (O, 'BaseOPB.add_constraint'): {
        'property': ['C04', 'C08', 'C10', 'C19'],
        'native': 'checks.C04:native_opb',
        'tags': {'osat(a,': ['C04', 'C08'], 'otake(': ['C19'], 'olen(self._constraints) ==': ['C19'], '_numvar': ['C10'],
                 'omaxabs': ['C10'], 'ohaszero': ['C10'], 'onormal': ['C04']},
        'params': {'constraint': 'con', 'check': 'bool'},
        'ghost_params': {'a': 'asg'},
        'requires': WF + [OPS5, 'implies(not check, tmaxabs(con_terms(constraint)) <= self._numvar and not thaszero(con_terms(constraint)))'],
        'raises': {'ValueError': 'check and thaszero(con_terms(constraint))'},
        'modifies': ['self._constraints', 'self._numvar'],
        'ensures': ['osat(a, self._constraints) == (osat(a, old(self._constraints)) and holds(a, constraint))',
                    'olen(self._constraints) == olen(old(self._constraints)) + 1',
                    'otake(self._constraints, olen(old(self._constraints))) == old(self._constraints)',
                    'self._numvar == ite(check, zmax(old(self._numvar), tmaxabs(con_terms(constraint))), old(self._numvar))'] + WF,
    },
    (O, 'BaseOPB.add_clause'): dict(builder('ctrue(a, lits)'), params={'clause': 'iseq', 'check': 'bool'}),
    (O, 'BaseOPB.cardinality_neq'): dict(
        builder('count(a, lits) != value'), params={'lits': 'iseq', 'value': 'int', 'check': 'bool'},
        loops={0: {'ghost_at_entry': {'O0': 'self._constraints', 'L0': 'lits'}, 'ghost_at_entry_vals': {'NV': 'self._numvar'},
                   'inv': ['self._constraints == oappc(O0, neqprefix(L0, value, _it))', 'lits == L0', 'self._numvar == NV',
                           '0 <= value', 'value <= n', 'n == ilen(L0)'],
                   'modifies_objects': ['self'], 'modifies_fields': {'self': ['_constraints', '_numvar']}},
               1: {'ghost_at_entry': {'L1': 'lits'}, 'inv': ['lits == iflips(L1, flips, _it)']},
               2: {'ghost_at_entry': {'L2': 'lits'}, 'inv': ['lits == iflips(L2, flips, _it)']}}),
    (O, 'BaseOPB.add_parity'): dict(
        builder('(count(a, lits) % 2 == 1) == (constant == 1)'), params={'lits': 'iseq', 'constant': 'int', 'check': 'bool'},
        loops={0: {'ghost_at_entry': {'O0': 'self._constraints'}, 'ghost_at_entry_vals': {'NV': 'self._numvar'},
                   'inv': ['self._constraints == oappc(O0, pfilter(lits, desired_sign, _it))', 'self._numvar == NV'],
                   'modifies_objects': ['self'], 'modifies_fields': {'self': ['_constraints', '_numvar']}}}),
    (O, 'BaseOPB.cardinality_geq'): dict(builder('count(a, lits) >= value'), params={'lits': 'iseq', 'value': 'int', 'check': 'bool'}),
    (O, 'BaseOPB.cardinality_leq'): dict(builder('count(a, lits) <= value'), params={'lits': 'iseq', 'value': 'int', 'check': 'bool'}),
    (O, 'BaseOPB.cardinality_eq'): dict(builder('count(a, lits) == value'), params={'lits': 'iseq', 'value': 'int', 'check': 'bool'}),
    (O, 'BaseOPB.add_loose_majority'): dict(builder('2 * count(a, lits) >= ilen(lits)'), params={'lits': 'iseq', 'check': 'bool'}),
    (O, 'BaseOPB.add_loose_minority'): dict(builder('2 * count(a, lits) <= ilen(lits)'), params={'lits': 'iseq', 'check': 'bool'}),
    (O, 'BaseOPB.add_strict_majority'): dict(builder('2 * count(a, lits) > ilen(lits)'), params={'lits': 'iseq', 'check': 'bool'}),
    (O, 'BaseOPB.add_strict_minority'): dict(builder('2 * count(a, lits) < ilen(lits)'), params={'lits': 'iseq', 'check': 'bool'}),
}
# add_clause's parameter is called `clause`: rename in its contract texts
_c = CONTRACTS[(O, 'BaseOPB.add_clause')]
for _k in ('requires', 'ensures'):
    _c[_k] = [t.replace('lits', 'clause') for t in _c[_k]]
_c['raises'] = {'ValueError': 'check and haszero(clause)'}

for _k in ((O, 'BaseOPB.cardinality_neq'), (O, 'BaseOPB.add_parity')):
    CONTRACTS[_k]['ensures'] = [e for e in CONTRACTS[_k]['ensures'] if not e.startswith('olen(self._constraints) ==')] + \
        ['olen(self._constraints) >= olen(old(self._constraints))']
# add_clause appends exactly the constraint  sum(clause) >= 1
CONTRACTS[(O, 'BaseOPB.add_clause')]['ensures'] = CONTRACTS[(O, 'BaseOPB.add_clause')]['ensures'] + \
    ["self._constraints == oappc(old(self._constraints), csnoc(cnil, clause))"]
