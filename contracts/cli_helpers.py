"""Contracts of the command line helper layer (property C17), for pyvc/ufmode.py.

Each contract is written from the CLI DOCUMENTATION of the sub-command (parser.usage / parser.description /
help strings of the helper, quoted in 'doc' - the quotes are checked against the REAL help text on every
run, a contract whose quotes disappeared is reported stale) and from the docstring/signature of the public
library generator, NOT from the body of build_formula / transform_cnf.

'spec' is a small Python text over the *command line surface*, evaluated symbolically by ufmode:
    val(k)    the value typed for an argument: k = option string ('--sparse', '-e'), the name of a positional as
              shown in the usage line / registered with the parser, or the index of a positional
    given(k)  True iff the option / optional positional was given on the command line
    has(n)    True iff the current usage variant defines <n>   (sub-commands with several usage variants)
    formula_class / F   the class handed in by cnfgen (CNF) or pbgen (OPB) / the formula to transform
    ANY, RANDOM (any value involving a random draw), ANYOF(a, b, ..), STDIN
Library names are resolved through 'prelude' (the public API re-exported by the cnfgen package) and calls are
normalised through the real signatures, so `f(G, k)` and `f(k=k, G=G)` are the same term.
'refusals': True when the helper may refuse some inputs with ValueError/CLIError (cli() shields them).

CONTRACTS (the pyvc engine's table) stays empty: these contracts are not VC contracts.
"""

CONTRACTS = {}

PRELUDE = """
from cnfgen import *
from cnfgen import CountingPrinciple, PerfectMatchingPrinciple, TseitinFormula, SubsetCardinalityFormula
from cnfgen import CPLSFormula, GraphColoringFormula, EvenColoringFormula, DominatingSet, Tiling
from cnfgen import GraphIsomorphism, GraphAutomorphism, CliqueFormula, BinaryCliqueFormula, RamseyWitnessFormula
from cnfgen import SubgraphFormula, OrderingPrinciple, GraphOrderingPrinciple, PebblingFormula, StoneFormula
from cnfgen import SparseStoneFormula, PigeonholePrinciple, GraphPigeonholePrinciple, BinaryPigeonholePrinciple
from cnfgen import RelativizedPigeonholePrinciple, CliqueColoring, RamseyNumber, VanDerWaerden, PythagoreanTriples
from cnfgen import PitfallFormula, RandomKCNF, RandomKXOR
from cnfgen import Shuffle, OrSubstitution, XorSubstitution, AllEqualSubstitution, NotAllEqualSubstitution
from cnfgen import MajoritySubstitution, IfThenElseSubstitution, ExactlyOneSubstitution, AtLeastKSubstitution
from cnfgen import AtMostKSubstitution, ExactlyKSubstitution, AnythingButKSubstitution, FormulaLifting
from cnfgen import FlipPolarity, VariableCompression
from cnfgen.graphs import bipartite_random_left_regular
from cnfgen.clitools.graph_args import make_graph_from_spec
from cnfgen.utils.parsedimacs import from_dimacs_file
"""


def C(spec, doc, refusals=False, **kw):
    d = {'spec': spec, 'doc': doc, 'refusals': refusals, 'prelude': PRELUDE}
    d.update(kw)
    return d


UF_CONTRACTS = {
    # ------------------------------------------------------------------ counting_helpers
    'ParityCmdHelper': C(
        "return CountingPrinciple(val('N'), 2, formula_class=formula_class)",
        ['a set of N elements can be grouped in pairs', 'N number of elements']),
    'PMatchingCmdHelper': C(
        "return PerfectMatchingPrinciple(val('G'), formula_class=formula_class)",
        ['a graph G has a perfect matching', 'G a simple undirected graph']),
    'CountingCmdHelper': C(
        "return CountingPrinciple(val('M'), val('p'), formula_class=formula_class)",
        ['a set of M elements can be partitioned in sets of size p each', 'M domain size', 'p size of each part']),
    'TseitinCmdHelper': C("""
if has('N'):
    N = val('N')
    d = val('d') if given('d') else 4
    G = make_graph_from_spec('simple', ['gnd', N, d])
    charges = ANY if G.order() < 1 else RANDOM
    return TseitinFormula(G, charges, formula_class=formula_class)
G = val('G')
c = val('charge')
if G.order() < 1:
    charges = ANY
elif c == 'first':
    charges = [1] + [0] * (G.order() - 1)
elif c == 'zero':
    charges = [0] * G.order()
elif c == 'one':
    charges = [1] * G.order()
else:
    charges = RANDOM
return TseitinFormula(G, charges, formula_class=formula_class)
""", ['N --- random 4-regular graph with N vertices.', 'N d --- random d-regular graph with N vertices.',
      'Random odd charge', '<charge> <graph> --- specific <charge> on specific <graph>',
      "`first' puts odd charge on first vertex;", "`zero' puts charge 0 on every vertex;",
      "`one' puts charge 1 on every vertex.", "`random' puts a random charge on vertices;"],
        refusals=True),
    'SCCmdHelper': C("""
if has('N'):
    N = val('N')
    d = val('d') if given('d') else 4
    B = make_graph_from_spec('bipartite', ['regular', N, N, d, 'addedges', 1])
else:
    B = val('B')
return SubsetCardinalityFormula(B, equalities=given('--equal'), formula_class=formula_class)
""", ['N --- unsat instance of width 3', 'N d --- unsat instance of width d//2 + 1',
      '<bipartite> --- formula over a bipartite graph', '(100,100)-bipartite 4-regular + 1 edge',
      '--equal, -e encode cardinality constraints as equations']),
    # ------------------------------------------------------------------ cpls / dimacs
    'CPLSCmdHelper': C(
        "return CPLSFormula(val('a'), val('b'), val('c'), formula_class=formula_class)",
        ['<a> number of levels', '<b> number of nodes per level', '<c> number of colours']),
    'DimacsCmdHelper': C(
        "return from_dimacs_file(formula_class, val('input') if given('input') else STDIN)",
        ['read dimacs CNF from standard input', 'file.cnf --- read dimacs CNF from file.cnf']),
    # ------------------------------------------------------------------ graph_helpers
    'KColorCmdHelper': C(
        "return GraphColoringFormula(val('G'), val('k'), formula_class=formula_class)",
        ['the graph G has a k-coloring', 'k number of available colors']),
    'ECCmdHelper': C(
        "return EvenColoringFormula(val('G'), formula_class=formula_class)",
        ['split the edges of the graph in two parts, so that each vertex has an equal number of incident edges in each part']),
    'DominatingSetCmdHelper': C(
        "return DominatingSet(val('G'), val('d'), alternative=given('--alternative'), formula_class=formula_class)",
        ['the graph G has a dominating set of size d', 'd size of the dominating set',
         '--alternative, -a produces a provably hard version (default: false)']),
    'TilingCmdHelper': C(
        "return Tiling(val('G'), formula_class=formula_class)",
        ['the graph G has a tiling']),
    'GIsoCmdHelper': C("""
if given('-e'):
    return GraphIsomorphism(val('G'), val('-e'), formula_class=formula_class)
return GraphAutomorphism(val('G'), formula_class=formula_class)
""", ['G1 --- test if G1 has nontrivial automorphisms', 'G1 -e G2 --- test if G1 and G2 are isomorphic']),
    'KCliqueCmdHelper': C(
        "return CliqueFormula(val('G'), val('k'), symbreak=not given('--no-symmetry-breaking'), formula_class=formula_class)",
        ['graph G contains a clique of size at least k', 'k size of the clique to be found',
         '--no-symmetry-breaking do not break symmetries by enforcing the solution to be in increasing order (default: on)']),
    'BinaryKCliqueCmdHelper': C(
        "return BinaryCliqueFormula(val('G'), val('k'), formula_class=formula_class)",
        ['graph G contains a clique of size at least k', 'indexed by a binary string']),
    'RWCmdHelper': C(
        "return RamseyWitnessFormula(val('G'), val('k'), val('s'), formula_class=formula_class)",
        ['k size of the clique to be found', 's size of the independent set to be found']),
    'SubGraphCmdHelper': C(
        "return SubgraphFormula(val('-G'), val('-H'), formula_class=formula_class)",
        ['-G <graph> main graph', '-H <subgraph> candidate subgraph',
         'claims that the latter is indeed a subgraph of the former']),
    # ------------------------------------------------------------------ ordering_helpers
    'OPCmdHelper': C("""
total = given('--total')
smart = given('--smart')
plant = given('--plant')
knuth = 2 if given('--knuth2') else 3 if given('--knuth3') else ANYOF(0, None)
if has('G'):
    return GraphOrderingPrinciple(val('G'), total, smart, plant, knuth, formula_class=formula_class)
N = val('N')
if given('d'):
    G = make_graph_from_spec('simple', ['gnd', N, val('d')])
    return GraphOrderingPrinciple(G, total, smart, plant, knuth, formula_class=formula_class)
return OrderingPrinciple(N, total, smart, plant, knuth, formula_class=formula_class)
""", ['N --- ordering principle on domain of size N',
      'N d --- graph ordering principle on random d-regular graph with N vertices.',
      '<graph> --- graph ordering principle on <graph>',
      '--total, -t the order must be total (default: off)',
      "--smart, -s encode 'x<y' and 'x>y' using a single variable.",
      '--knuth2 Donald E. Knuth variant', '--knuth3 Donald E. Knuth variant',
      '--plant, -p allow one minimum element (default: off)'],
        refusals=True),
    # ------------------------------------------------------------------ pebbling_helpers
    'PebblingCmdHelper': C(
        "return PebblingFormula(val('D'), formula_class=formula_class)",
        ['The Pebbling Formula is defined on a directed acyclic graph <dag>']),
    'StoneCmdHelper': C("""
D = val('D')
if given('--sparse'):
    B = bipartite_random_left_regular(D.order(), val('s'), val('--sparse'))
    return SparseStoneFormula(D, B, formula_class=formula_class)
return StoneFormula(D, val('s'), formula_class=formula_class)
""", ['<stones> number of stones', '<stones> <dag> [--sparse <degree>]',
      '--sparse <degree> each vertex can only choose among <degree> many stones'],
        refusals=True),
    # ------------------------------------------------------------------ php_helpers
    'PHPCmdHelper': C("""
functional = given('--functional')
onto = given('--onto')
if has('B'):
    return GraphPigeonholePrinciple(val('B'), functional=functional, onto=onto, formula_class=formula_class)
P = val('pigeons')
H = val('holes')
D = val('degree')
if D == H:
    return PigeonholePrinciple(P, H, functional=functional, onto=onto, formula_class=formula_class)
G = bipartite_random_left_regular(P, H, D)
return GraphPigeonholePrinciple(G, functional=functional, onto=onto, formula_class=formula_class)
""", ['M N --- M pigeons fly to N holes', 'M N D --- M pigeons fly to N holes, pigeon left degree D',
      '<bipartite> --- pigeons can fly to certain holes with <bipartite>',
      '--functional each pigeon sits in at most one hole', '--onto every hole has a sitting pigeon',
      'pigeon can go to 3 random holes'],
        note='token level (PHPArgs: N -> N+1 pigeons, N holes) is decided by the bounded tier'),
    'BPHPCmdHelper': C(
        "return BinaryPigeonholePrinciple(val('M'), val('N'), formula_class=formula_class)",
        ['M number of pigeons', 'N number of holes']),
    'CliqueColoringCmdHelper': C(
        "return CliqueColoring(val('n'), val('k'), val('c'), formula_class=formula_class)",
        ['n number of vertices', 'k number of clique size', 'c coloring size']),
    'RamseyCmdHelper': C(
        "return RamseyNumber(val('s'), val('k'), val('N'), formula_class=formula_class)",
        ['s forbidden independent set size', 'k forbidden clique size', 'N number of vertices']),
    'VDWCmdHelper': C(
        "return VanDerWaerden(val('N'), val('k1'), val('k2'), *val('ks'), formula_class=formula_class)",
        ['N k1 k2 k3 ... kt --- claims vdw(k1,k2,...,kt) > N', 'N interval 1...N to be colored']),
    'PTNCmdHelper': C(
        "return PythagoreanTriples(val('N'), formula_class=formula_class)",
        ['N consider the domain [1,...,N]']),
    'RPHPCmdHelper': C(
        "return RelativizedPigeonholePrinciple(val(0), val(1), val(2), formula_class=formula_class)",
        ['P R H', 'P number of pigeons', 'R number of resting places', 'H number of holes']),
    # ------------------------------------------------------------------ pitfall
    'PitfallCmdHelper': C(
        "return PitfallFormula(val('v'), val('d'), val('ny'), val('nz'), val('k'), formula_class=formula_class)",
        ['<v> <d> <ny> <nz> <k>', '<v> number of vertices of the Tseitin graph', '<ny> number of pitfall variables']),
    # ------------------------------------------------------------------ simple_helpers
    'TRUE': C(
        "return formula_class(description=ANY)",
        ['A CNF with no clauses, hence always true.']),
    'RandCmdHelper': C("""
if given('--plant'):
    return RandomKCNF(val('k'), val('n'), val('m'), planted_assignments=[RANDOM], formula_class=formula_class)
return RandomKCNF(val('k'), val('n'), val('m'), formula_class=formula_class)
""", ['<k> width of the clauses', '<n> number of variables in the formula', '<m> number of sampled clauses',
      '--plant, -p plant a random satisfying assignment (default: no)']),
    'RandXorHelper': C("""
if given('--plant'):
    return RandomKXOR(val('k'), val('n'), val('m'), planted_assignments=[RANDOM], formula_class=formula_class)
return RandomKXOR(val('k'), val('n'), val('m'), formula_class=formula_class)
""", ['<k> width of the parities', '<n> number of variables in the formula', '<m> number of sampled xors',
      '--plant, -p plant a random satisfying assignment (default: no)']),
    # ------------------------------------------------------------------ transformation_helpers
    'ShuffleCmd': C("""
return Shuffle(F,
               polarity_flips='fixed' if given('--no-polarity-flips') else 'shuffle',
               variables_permutation='fixed' if given('--no-variables-permutation') else 'shuffle',
               clauses_permutation='fixed' if given('--no-clauses-permutation') else 'shuffle')
""", ['--no-polarity-flips, -p Suppress polarity flips (default: active)',
      '--no-variables-permutation, -v Suppress variable permutations (default: active)',
      '--no-clauses-permutation, -c Suppress clauses permutations (default: active)']),
    'NoSubstitutionCmd': C("return F", ['No transformation is applied.']),
    'OrSubstitutionCmd': C("return OrSubstitution(F, val('N'))", ["``X(1) or ... or X(N)''", 'N the arity of the or operator']),
    'XorSubstitutionCmd': C("return XorSubstitution(F, val('N'))", ["``X(1)+...+X(N) == 1 (mod 2)''"]),
    'AllEqualsSubstitutionCmd': C("return AllEqualSubstitution(F, val('N'))",
                                  ['all the new variables X(1),...,X(N) have the same value']),
    'NeqSubstitutionCmd': C("return NotAllEqualSubstitution(F, val('N'))",
                            ['the new variables X(1),...,X(N) do not have all the same value']),
    'MajSubstitution': C("return MajoritySubstitution(F, val('N'))", ["``X(1)+...+X(N) >= N/2''"]),
    'IfThenElseSubstitutionCmd': C("return IfThenElseSubstitution(F)", ['if C then Y else Z']),
    'ExactlyOneSubstitutionCmd': C("return ExactlyOneSubstitution(F, val('N'))", ['X(1)+...+X(N) == 1 where']),
    'AtLeastKSubstitutionCmd': C("return AtLeastKSubstitution(F, val(0), val(1))",
                                 ['X(1)+...+X(N) >= k', 'N the arity of the sum', 'k the lower threshold']),
    'AtMostKSubstitutionCmd': C("return AtMostKSubstitution(F, val(0), val(1))",
                                ['X(1)+...+X(N) <= k', 'k the upper threshold']),
    'ExactlyKSubstitutionCmd': C("return ExactlyKSubstitution(F, val(0), val(1))",
                                 ['X(1)+...+X(N) == k', 'k the desired value']),
    'AnythingButKSubstitutionCmd': C("return AnythingButKSubstitution(F, val(0), val(1))",
                                     ['X(1)+...+X(N) !=k', 'k the forbidded value']),
    'FormulaLiftingCmd': C("return FormulaLifting(F, val('k'))", ['k the rank of the lifting']),
    'FlipCmd': C("return FlipPolarity(F)", ['Inverts the polarity of all literals in the formula.']),
    'XorCompressionCmd': C("""
if has('N'):
    d = val('d') if given('d') else 3
    V = ANYOF(len(list(F.variables())), F.number_of_variables())
    B = make_graph_from_spec('bipartite', ['glrd', V, val('N'), d])
else:
    B = val('B')
return VariableCompression(F, B, function='xor')
""", ['substituted with the XOR of d members of a set of N new variables', 'N number of new variables',
      'd arity of majority (default: 3)', '<mapping> a bipartite graph']),
    'MajCompressionCmd': C("""
if has('N'):
    d = val('d') if given('d') else 3
    V = ANYOF(len(list(F.variables())), F.number_of_variables())
    B = make_graph_from_spec('bipartite', ['glrd', V, val('N'), d])
else:
    B = val('B')
return VariableCompression(F, B, function='maj')
""", ['substituted with the majority of d members of a set of N new variables', 'N number of new variables',
      'd arity of majority (default: 3)', '<mapping> a bipartite graph']),
}

# helpers that build the formula by hand (no library generator to stand for): no term contract possible;
# they are decided by the bounded tier.  Listed so that "no contract" is a decision, not an omission.
NO_LIBRARY_CALL = {
    'OR': 'builds a single clause by hand: formula_class(); new_block; add_clause',
    'AND': 'builds unit clauses by hand',
    'FALSE': 'builds the empty clause by hand',
}
