"""Sidecar contract for cnfgen/utils/opb.py:to_opb_file  (C12 OPB half), under the event abstraction of the writers
(one event per write() call; a formatted piece is identified by its template and its integer arguments; comment events
- lines starting with '*' that cannot be left, multi-line values being re-prefixed - are not looked into).

PROVED for every CNF and every pseudo-Boolean formula, with and without header / variable names: the non-comment output is
exactly
    "* #variable= <n> #constraint= <m>\\n"     with n = number of variables and m = number of clauses / constraints (the TRUE counts)
followed, constraint by constraint in order, by one piece per literal / term in order
    CNF:  "+1 x<l> " for a positive literal, "+1 ~x<-l> " for a negative one, then ">= 1\\n"
    OPB:  "<+c> x<l> " resp. "<+c> ~x<-l> " (coefficient with explicit sign), then ">= <d>\\n" or "= <d>\\n" according to the relation
and nothing else.  Left to the bounded tier (independent OPB reader): that these pieces read back as those numbers.
"""
O = 'cnfgen/utils/opb.py'

CLASSMODELS = {
    'CNFw': {'file': 'cnfgen/formula/cnf.py', 'real': 'CNF', 'fields': {'_clauses': 'mclist', '_numvar': 'int', 'header': 'opaque'}},
    'OPBw': {'file': 'cnfgen/formula/opb.py', 'real': 'OPB', 'fields': {'_constraints': 'molist', '_numvar': 'int', 'header': 'opaque'}},
}

HEADER = 'ev("* #variable= {n} #constraint= {m}\\n", {N}, {M})'
COMMENT_LOOPS = {
    0: {'ghost_at_entry': {'D0': 'dropc(trace(output))'}, 'inv': ['dropc(trace(output)) == D0']},
    1: {'ghost_at_entry': {'D0': 'dropc(trace(output))'}, 'inv': ['dropc(trace(output)) == D0']},
}



def merged(a, b):
    d = dict(a)
    d.update(b)
    return d


CONTRACTS = {
    ('cnfgen/formula/basecnf.py', 'BaseCNF.number_of_variables'): {'inline_always': True},
    ('cnfgen/formula/basecnf.py', 'BaseCNF.__len__'): {'inline_always': True},
    ('cnfgen/formula/basecnf.py', 'BaseCNF.__iter__'): {'inline_always': True},
    ('cnfgen/formula/baseopb.py', 'BaseOPB.number_of_variables'): {'inline_always': True},
    ('cnfgen/formula/baseopb.py', 'BaseOPB.__len__'): {'inline_always': True},
    ('cnfgen/formula/baseopb.py', 'BaseOPB.__iter__'): {'inline_always': True},
    # VariablesManager.all_variable_labels: the assumed contract of contracts/transformations_subst.py (keys are global)
    (O, 'to_opb_file'): {
        'property': ['C12'],
        'trace': {'comment': '*'},
        'params': {'formula': 'obj:CNFw', 'fileorname': 'sink', 'export_header': 'bool', 'export_varnames': 'bool'},
        'variants': {
            'cnf': {
                'defines': ['forall(lambda l: levent(2, l) == ite(l >= 0, ev("+1 x{} ", l), ev("+1 ~x{} ", -l)), lambda l: levent(2, l))'],
                'loops': merged(COMMENT_LOOPS, {
                    2: {'counter': '_itc', 'ghost_at_entry': {'D1': 'dropc(trace(output))', 'C0': '_iter'},
                        'inv': ['dropc(trace(output)) == capp(D1, dclauses(2, tid(">= 1\\n"), C0, _itc))']},
                    3: {'inv': ['dropc(trace(output)) == capp(capp(D1, dclauses(2, tid(">= 1\\n"), C0, _itc)), dlits(2, cls, _it))']},
                }),
                'ensures': [
                    'dropc(trace(fileorname)) == capp(csnoc(dropc(old(trace(fileorname))), '
                    + HEADER.format(n='{n}', m='{m}', N='formula._numvar', M='clen(formula._clauses)') +
                    '), dclauses(2, tid(">= 1\\n"), formula._clauses, clen(formula._clauses)))',
                    'formula._clauses == old(formula._clauses)', 'formula._numvar == old(formula._numvar)'],
            },
            'opb': {
                'params': {'formula': 'obj:OPBw'},
                'defines': ['forall(lambda c, l: tevent(3, c, l) == ite(l >= 0, ev("{:+} x{} ", c, l), ev("{:+} ~x{} ", c, -l)), lambda c, l: tevent(3, c, l))',
                            'forall(lambda g, v: cevent(3, g, v) == ite(g == 1, ev("{} {}\\n", ">=", v), ev("{} {}\\n", "=", v)), lambda g, v: cevent(3, g, v))'],
                'loops': merged(COMMENT_LOOPS, {
                    4: {'counter': '_itc', 'ghost_at_entry': {'D1': 'dropc(trace(output))', 'C0': '_iter'},
                        'inv': ['dropc(trace(output)) == capp(D1, dcons(3, C0, _itc))']},
                    5: {'inv': ['dropc(trace(output)) == capp(capp(D1, dcons(3, C0, _itc)), dterms(3, con_terms(oget(C0, _itc)), _it))']},
                }),
                'ensures': [
                    'dropc(trace(fileorname)) == capp(csnoc(dropc(old(trace(fileorname))), '
                    + HEADER.format(n='{n}', m='{m}', N='formula._numvar', M='olen(formula._constraints)') +
                    '), dcons(3, formula._constraints, olen(formula._constraints)))',
                    'formula._constraints == old(formula._constraints)', 'formula._numvar == old(formula._numvar)'],
            },
        },
    },
}
