"""Sidecar contracts: edge listing and named constructors of the simple-graph ADT (C16 "edge listing (sorted, each edge once)", C15).

PROVED over the representation invariant of contracts/graphs_adt.py:
  * GraphEdgeList.__iter__ (what Graph.edges() iterates): every value yielded is an edge (u, v) with u < v; for each vertex u in
    increasing order the search position splits the sorted adjacency list into the neighbours below u (skipped) and above u, and
    the inner loop yields ALL entries above u, in list order - so every edge is listed exactly once, sorted;
  * Graph.complete_graph(n): the invariant holds and (u, v) is an edge iff u != v are vertices; n(n-1)/2 edges;
  * Graph.star_graph(n): n+1 vertices, (u, v) is an edge iff exactly one of them is the centre n+1; n edges.
"""
G = 'cnfgen/graphs.py'

CLASSMODELS = {
    'EdgeListG': {'file': G, 'real': 'GraphEdgeList', 'fields': {'G': 'obj:Graph'}},
}
_INV = [c.replace('self.', 'G.') for c in __import__('contracts.graphs_adt', fromlist=['INV']).INV]

CONTRACTS = {
    (G, 'EdgeListG.__iter__'): {
        'property': ['C16'],
        'source': (G, 'GraphEdgeList.__iter__'),
        'params': {},
        'raises': {},
        'loops': {
            # u = 1 + _it : every vertex but the last is visited (the last has no neighbour above it)
            0: {'inv': ['n == self.G.n', 'G == self.G'], 'exit_ensures': ['_it == zmax(self.G.n - 1, 0)']},
            # the search position: everything before it is below u, everything from it on above u; the loop visits ALL later entries
            1: {'inv': ['bs <= pos', 'pos <= len(G.adjlist[u])', 'n == self.G.n', 'G == self.G', '1 <= u', 'u < n',
                        'forall(lambda k: implies(0 <= k and k < bs, G.adjlist[u][k] < u))',
                        'forall(lambda k: implies(bs <= k and k < len(G.adjlist[u]), G.adjlist[u][k] > u))'],
                'ghost_at_entry_vals': {'bs': 'pos'}, 'decreases': 'len(G.adjlist[u]) - pos',
                'iter_ensures': ['_yielded_now == 1'], 'exit_ensures': ['pos == len(G.adjlist[u])']},
        },
        'yields_at': {0: ['len(yielded) == 2', 'yielded[0] < yielded[1]', '1 <= yielded[0]', 'yielded[1] <= self.G.n',
                          '(yielded[0], yielded[1]) in self.G.edgeset', 'yielded[1] == self.G.adjlist[yielded[0]][pos]']},
    },
    (G, 'Graph.__init__'): {
        'property': ['C16'],
        'params': {'self': 'newobj:Graph', 'n': 'int', 'name': 'optstr'}, 'raises': {'ValueError': 'n < 0'},
        'ghost_code': [('self.edgeset = set()', 'self.idx = lam2(lambda x, w: 0)')],
        'modifies': ['self.n', 'self.m', 'self.adjlist', 'self.edgeset', 'self.idx'],
        'ensures': ['self.n == n', 'self.m == 0', 'len(self.adjlist) == n + 1',
                    'forall(lambda u: implies(0 <= u and u <= n, len(self.adjlist[u]) == 0))',
                    'forall(lambda x, y: not ((x, y) in self.edgeset))', 'card2(self.edgeset) == 0'] + __import__('contracts.graphs_adt', fromlist=['INV']).INV,
    },
}


# ---- named constructors (C15) ------------------------------------------------------------------------------------------------------
FRG = {'modifies_objects': ['G'], 'modifies_fields': {'G': ['adjlist', 'edgeset', 'm', 'idx']}}
VERT = '1 <= x and x <= G.n and 1 <= y and y <= G.n and x != y'
CONTRACTS.update({
    (G, 'GraphNamed.complete_graph'): {
        'property': ['C15', 'C16'], 'source': (G, 'Graph.complete_graph'),
        'params': {'cls': 'class:Graph', 'n': 'int'},
        'raises': {'ValueError': 'n < 0'},
        'returns': 'obj:Graph',
        'loops': {
            # after the vertices 1.._a: exactly the pairs whose smaller endpoint is among them
            0: dict(FRG, counter='_a', inv=_INV + ['G.n == n', '2 * G.m == _a * (2 * n - _a - 1)',
                                                    'forall(lambda x, y: ((x, y) in G.edgeset) == ({} and zmin(x, y) <= _a))'.format(VERT)]),
            1: dict(FRG, ghost_at_entry_vals={'M0': 'G.m'},
                    inv=_INV + ['G.n == n', 'G.m == M0 + _it', '2 * M0 == _a * (2 * n - _a - 1)', '0 <= _a', '_a + 1 < n + 1',
                                'forall(lambda x, y: ((x, y) in G.edgeset) == ({} and (zmin(x, y) <= _a or (zmin(x, y) == _a + 1 and zmax(x, y) <= _a + 1 + _it))))'.format(VERT)]),
        },
        'ensures': [c.replace('G.', 'result.') for c in _INV] + [
            'result.n == n', '2 * result.m == n * (n - 1)',
            'forall(lambda x, y: ((x, y) in result.edgeset) == (1 <= x and x <= n and 1 <= y and y <= n and x != y))'],
    },
    (G, 'GraphNamed.star_graph'): {
        'property': ['C15', 'C16'], 'source': (G, 'Graph.star_graph'),
        'params': {'cls': 'class:Graph', 'n': 'int'},
        'raises': {'ValueError': 'n < -1'},
        'returns': 'obj:Graph',
        'loops': {0: dict(FRG, inv=_INV + ['G.n == n + 1', 'G.m == _it',
                                          'forall(lambda x, y: ((x, y) in G.edgeset) == ((1 <= x and x <= _it and y == n + 1) or (1 <= y and y <= _it and x == n + 1)))'])},
        'ensures': [c.replace('G.', 'result.') for c in _INV] + [
            'result.n == n + 1', 'result.m == zmax(n, 0)',
            'forall(lambda x, y: ((x, y) in result.edgeset) == ((1 <= x and x <= n and y == n + 1) or (1 <= y and y <= n and x == n + 1)))'],
    },
})


# ---- edge listing of a directed graph (both orders) and the remaining views --------------------------------------------------------
CLASSMODELS['EdgeListD'] = {'file': G, 'real': 'DirectedEdgeList', 'fields': {'D': 'obj:DirectedGraphRep', 'sort_by_pred': 'bool'}}
CONTRACTS.update({
    (G, 'DirectedGraphRep.number_of_vertices'): {'property': ['C16'], 'source': (G, 'DirectedGraph.number_of_vertices'),
                                                 'params': {'self': 'obj:DirectedGraphRep'}, 'returns': 'int', 'ensures': ['result == self.n']},
    (G, 'DirectedGraphRep.number_of_edges'): {'property': ['C16'], 'source': (G, 'DirectedGraph.number_of_edges'),
                                              'params': {'self': 'obj:DirectedGraphRep'}, 'returns': 'int', 'ensures': ['result == card2(self.edgeset)']},
    (G, 'EdgeListD.__iter__'): {
        'property': ['C16'],
        'source': (G, 'DirectedEdgeList.__iter__'),
        'params': {},
        'raises': {},
        # by successors: for every source in order, ALL its successors in list order; by predecessors: for every destination in order,
        # ALL its predecessors in list order.  Every value yielded is an edge (source, destination); the lists hold each edge once
        # (class invariant), so every edge is listed exactly once.
        'loops': {0: {'inv': ['n == self.D.n'], 'exit_ensures': ['_it == self.D.n']},
                  1: {'inv': ['n == self.D.n'], 'counter': '_j', 'iter_ensures': ['_yielded_now == 1'], 'exit_ensures': ['_j == len(self.D.succ[src])']},
                  2: {'inv': ['n == self.D.n'], 'exit_ensures': ['_it == self.D.n']},
                  3: {'inv': ['n == self.D.n'], 'counter': '_j', 'iter_ensures': ['_yielded_now == 1'], 'exit_ensures': ['_j == len(self.D.pred[dest])']}},
        'yields_at': {0: ['len(yielded) == 2', '(yielded[0], yielded[1]) in self.D.edgeset', 'yielded[0] == 1 + _it', 'yielded[1] == self.D.succ[1 + _it][_j]'],
                      1: ['len(yielded) == 2', '(yielded[0], yielded[1]) in self.D.edgeset', 'yielded[1] == 1 + _it', 'yielded[0] == self.D.pred[1 + _it][_j]']},
    },
})


# ---- edge listing of a bipartite graph ----------------------------------------------------------------------------------------------
CLASSMODELS['EdgeListB'] = {'file': G, 'real': 'BipartiteEdgeList', 'fields': {'B': 'obj:BipartiteGraphRep'}}
CONTRACTS.update({
    (G, 'BipartiteGraphRep.left_order'): {'property': ['C16'], 'source': (G, 'BaseBipartiteGraph.left_order'),
                                          'params': {'self': 'obj:BipartiteGraphRep'}, 'returns': 'int', 'ensures': ['result == self.lorder']},
    (G, 'BipartiteGraphRep.right_order'): {'property': ['C16'], 'source': (G, 'BaseBipartiteGraph.right_order'),
                                           'params': {'self': 'obj:BipartiteGraphRep'}, 'returns': 'int', 'ensures': ['result == self.rorder']},
    (G, 'EdgeListB.__iter__'): {
        'property': ['C16'],
        'source': (G, 'BipartiteEdgeList.__iter__'),
        'params': {},
        'raises': {},
        # for every left vertex in order, `yield from` ALL its right neighbours in list order, each paired with the vertex: every value
        # is an edge; the neighbour lists hold each edge once (class invariant)
        'loops': {0: {'inv': [], 'exit_ensures': ['_it == zmax(self.B.lorder, 0)']}},
        'yields_at': {0: ['(yielded[0], yielded[1]) in self.B.edgeset', 'yielded[0] == 1 + _it', '(1 + _it) in self.B.ladj',
                          '_ylen == len(self.B.ladj[1 + _it])', 'yielded[1] == self.B.ladj[1 + _it][_yt]']},
    },
})


# ---- the remaining views and constructors ---------------------------------------------------------------------------------------------
_DINV = __import__('contracts.graphs_adt', fromlist=['D_INV']).D_INV
CONTRACTS.update({
    # neighbour generators: refused (at the first value requested) iff the vertex is not in the graph; otherwise exactly the stored
    # list, in order - sorted and duplicate-free by the class invariant
    (G, 'Graph.neighbors'): {
        'property': ['C16'], 'params': {'u': 'int'}, 'raises': {'ValueError': 'not (1 <= u and u <= self.n)'},
        'yields_at': {0: ['_ylen == len(self.adjlist[u])', 'yielded == self.adjlist[u][_yt]', '(u, yielded) in self.edgeset']},
        'ensures': ['final("_ytotal") == len(self.adjlist[u])'],
    },
    (G, 'DirectedGraphRep.predecessors'): {
        'property': ['C16'], 'source': (G, 'DirectedGraph.predecessors'), 'params': {'self': 'obj:DirectedGraphRep', 'u': 'int'},
        'raises': {'ValueError': 'not (1 <= u and u <= self.n)'},
        'yields_at': {0: ['_ylen == len(self.pred[u])', 'yielded == self.pred[u][_yt]', '(yielded, u) in self.edgeset']},
        'ensures': ['final("_ytotal") == len(self.pred[u])'],
    },
    (G, 'DirectedGraphRep.successors'): {
        'property': ['C16'], 'source': (G, 'DirectedGraph.successors'), 'params': {'self': 'obj:DirectedGraphRep', 'u': 'int'},
        'raises': {'ValueError': 'not (1 <= u and u <= self.n)'},
        'yields_at': {0: ['_ylen == len(self.succ[u])', 'yielded == self.succ[u][_yt]', '(u, yielded) in self.edgeset']},
        'ensures': ['final("_ytotal") == len(self.succ[u])'],
    },
    (G, 'DirectedGraphRep.__init__'): {
        'property': ['C16'], 'source': (G, 'DirectedGraph.__init__'),
        'params': {'self': 'newobj:DirectedGraphRep', 'n': 'int', 'name': 'optstr'}, 'raises': {'ValueError': 'n < 0'},
        'ghost_code': [('self.edgeset = set()', 'self.idxs = lam2(lambda x, w: 0)\nself.idxp = lam2(lambda x, w: 0)')],
        'ensures': ['self.n == n', 'self.m == 0', 'self.still_a_dag', 'forall(lambda x, y: not ((x, y) in self.edgeset))'] + _DINV,
    },
    (G, 'GraphNamed.empty_graph'): {
        'property': ['C15', 'C16'], 'source': (G, 'Graph.empty_graph'), 'params': {'cls': 'class:Graph', 'n': 'int'},
        'raises': {'ValueError': 'n < 0'}, 'returns': 'obj:Graph',
        'ensures': [c.replace('G.', 'result.') for c in _INV] + ['result.n == n', 'result.m == 0', 'forall(lambda x, y: not ((x, y) in result.edgeset))'],
    },
    (G, 'GraphNamed.null_graph'): {
        'property': ['C15', 'C16'], 'source': (G, 'Graph.null_graph'), 'params': {'cls': 'class:Graph'},
        'raises': {}, 'returns': 'obj:Graph',
        'ensures': [c.replace('G.', 'result.') for c in _INV] + ['result.n == 0', 'result.m == 0', 'forall(lambda x, y: not ((x, y) in result.edgeset))'],
    },
})
