"""Sidecar contract: PebblingFormula over the directed-graph views and the block interface (C03, C08, C10).

PROVED for every directed graph accepted by the function (topologically sorted DAG: is_dag()), both formula classes:
  * the clauses added are, vertex by vertex, exactly the documented axioms: an assignment satisfies the formula iff for
    every vertex v  (all predecessors of v pebbled -> v pebbled)  and  (v is a sink -> v not pebbled), with the variable of
    vertex v being v; none missing - the quantifier ranges over all vertices 1..n;
  * exactly n variables, no zero literal, every literal within 1..n (WF, C10); the graph argument is only read;
  * ValueError exactly when the graph is not a DAG in topological order;
  * UNSATISFIABLE whenever the graph has at least one vertex (Lean L12 pebbling_unsat, instantiated in the VC with a
    Skolem vertex) - for every assignment a: not sat(a, result).
ASSUMED: the views of DirectedGraph (predecessors / out_degree / is_dag / vertices agree with one abstract graph; C16
proves the representation invariant of DirectedGraph.add_edge, the generator views are bounded there) and the block call
contract x(i) = offset + i (C11 proves BlockOfVariables).
"""
K = 'cnfgen/families/pebbling.py'
F_ = 'cnfgen/formula/cnf.py'
G_ = 'cnfgen/graphs.py'
V_ = 'cnfgen/formula/variables.py'

CLASSMODELS = {
    'DagAbs': {'file': G_, 'real': 'DirectedGraph', 'fields': {'gid': 'int', 'n': 'int', 'name': 'opaquestr'},
               'invariant': ['self.n >= 0', 'self.n == gorder(self.gid)', 'gsinkok(self.gid)']},
    'Block1': {'file': V_, 'real': 'BlockOfVariables', 'fields': {'off': 'int', 'n': 'int'}},
    'FormulaP': {'file': F_, 'real': 'CNF', 'fields': {'store': 'mclist', '_numvar': 'int', 'cls': 'int'}},
}

# the pebbling axioms of vertex v under assignment a (variable of vertex v is v)
AX = ('(implies(count(a, preds(digraph.gid, v)) == ilen(preds(digraph.gid, v)), lit_true(a, v)) and '
      'implies(outdeg(digraph.gid, v) == 0, not lit_true(a, v)))')

CONTRACTS = {
    (G_, 'DirectedGraph.normalize'): {
        'assumed': 'DirectedGraph.normalize returns a cnfgen DirectedGraph unchanged', 'classmethod': True,
        'params': {'cls': 'any', 'G': 'obj:DagAbs', 'varname': 'any'}, 'returns_expr': 'G'},
    (G_, 'DagAbs.is_dag'): {'assumed': 'is_dag() is the topological-order flag of the graph (C16 proves how add_edge maintains it)',
                            'params': {}, 'returns_expr': 'gtopo(self.gid)'},
    (G_, 'DagAbs.number_of_vertices'): {'assumed': 'vertex count view', 'params': {}, 'returns_expr': 'self.n'},
    (G_, 'DagAbs.vertices'): {'assumed': 'vertices() = 1..n', 'params': {}, 'returns_expr': 'range(1, self.n + 1)'},
    (G_, 'DagAbs.predecessors'): {
        'assumed': 'predecessor view: the list pred[u] of the abstract graph (vertices of the graph, no repetition; C16)',
        'params': {'u': 'int'}, 'raises': {'ValueError': 'not (1 <= u and u <= self.n)'}, 'returns': 'iseq',
        'ensures': ['result == preds(self.gid, u)', 'not haszero(result)', 'maxabs(result) <= self.n',
                    'implies(ilen(result) > 0, minof(result) >= 1)']},
    (G_, 'DagAbs.out_degree'): {
        'assumed': 'out-degree view: len(succ[v]) of the abstract graph (C16)',
        'params': {'v': 'int'}, 'raises': {'ValueError': 'not (1 <= v and v <= self.n)'}, 'returns': 'int',
        'ensures': ['result == outdeg(self.gid, v)', 'result >= 0']},
    (F_, 'FormulaP.__init__'): {
        'assumed': 'formula_class(description=...) builds an empty formula of that class (CNF constructor proved in transformations_subst.py)',
        'params': {'description': 'any'}, 'modifies': ['self.store', 'self._numvar'],
        'ensures': ['self.store == cnil', 'self._numvar == 0']},
    (F_, 'FormulaP.new_block'): {
        'assumed': 'group allocation (C11): a one-dimensional block of n fresh variables starting after the current ones',
        'params': {'label': 'any'}, 'supports': ['len(ranges) == 1'], 'requires': ['ranges[0] >= 0'],
        'modifies': ['self._numvar'], 'returns': 'obj:Block1',
        'ensures': ['result.off == old(self._numvar)', 'result.n == ranges[0]', 'self._numvar == old(self._numvar) + ranges[0]']},
    (V_, 'Block1.__call__'): {
        'assumed': 'block call contract (C11, proved for BlockOfVariables._unsafe_index_to_lit): x(i) = offset + i',
        'params': {}, 'returns_expr': 'self.off + index[0]',
        'supports': ['len(index) == 1'], 'requires': ['1 <= index[0]', 'index[0] <= self.n']},
    (F_, 'FormulaP.add_clause'): {
        'assumed': 'interface meaning of add_clause (proved for both classes in formula_cnf.py / formula_opb.py)',
        'params': {'clause': 'iseq', 'check': 'bool'}, 'ghost_params': {'a': 'asg'},
        'raises': {'ValueError': 'check and haszero(clause)'},
        'modifies': ['self.store', 'self._numvar'],
        'ensures': ['sat(a, self.store) == (sat(a, old(self.store)) and ctrue(a, clause))',
                    'self._numvar == ite(check, zmax(old(self._numvar), maxabs(clause)), old(self._numvar))',
                    'cmaxabs(self.store) == zmax(cmaxabs(old(self.store)), maxabs(clause))',
                    'chaszero(self.store) == (chaszero(old(self.store)) or haszero(clause))',
                    'clen(self.store) == clen(old(self.store)) + 1']},
    (K, 'PebblingFormula'): {
        'property': ['C03', 'C08', 'C10'],
        'params': {'digraph': 'obj:DagAbs', 'formula_class': 'class:FormulaP'},
        'ghost_params': {'a': 'asg'},
        'raises': {'ValueError': 'not gtopo(digraph.gid)'},
        'loops': {0: {'inv': ['sat(a, peb.store) == forall(lambda v: implies(1 <= v and v <= _it, {}))'.format(AX),
                              'peb._numvar == digraph.n', 'cmaxabs(peb.store) <= digraph.n', 'not chaszero(peb.store)',
                              'clen(peb.store) >= _it', 'clen(peb.store) <= 2 * _it'],
                      'modifies_objects': ['peb'], 'modifies_fields': {'peb': ['store', '_numvar']}}},
        'ensures': [
            # exactly the documented axioms, for all vertices
            'sat(a, result.store) == forall(lambda v: implies(1 <= v and v <= digraph.n, {}))'.format(AX),
            # a contradiction as soon as there is a vertex
            'implies(digraph.n >= 1, not sat(a, result.store))',
            'result._numvar == digraph.n', 'cmaxabs(result.store) <= result._numvar', 'not chaszero(result.store)',
            'clen(result.store) >= digraph.n', 'clen(result.store) <= 2 * digraph.n',
            'result.cls == formula_class',
        ],
    },
}
