"""Sidecar contract: TseitinFormula over the graph views, the edge-variable group and add_parity (C02, C08, C10, C19).

PROVED for every simple graph, every charge vector (default charge, explicit list of any length: padded with False /
truncated), both formula classes, for an arbitrary assignment a:
    a satisfies the formula  iff  for EVERY vertex v the number of true variables among the edges at v is odd exactly
    when v is charged
- none of the vertices missing, the charges read in vertex order, shorter lists padded with even charges, longer ones
truncated; one variable per edge; the formula class is honoured; the caller's list of charges is not modified (the function
works on copies - this is the defect class of seeded change C19-m2).
ASSUMED: the views of Graph (neighbors / vertices / order of one abstract graph; C16), the edge group call contract
e(u, v) = evar(group, u, v), a variable of the formula for every edge (C11), the interface meaning of add_parity (proved
for both classes in C04).
"""
T = 'cnfgen/families/tseitin.py'
F_ = 'cnfgen/formula/cnf.py'
G_ = 'cnfgen/graphs.py'
V_ = 'cnfgen/formula/variables.py'

CLASSMODELS = {
    'EdgeGroup': {'file': V_, 'real': 'GraphEdgesVariables', 'fields': {'gid': 'int', 'graph': 'int', 'n': 'int'}},
    'FormulaT': {'file': F_, 'real': 'CNF', 'fields': {'store': 'mclist', '_numvar': 'int', 'cls': 'int'}},
}

# the list of edge variables at vertex v, as the code builds it
INC = 'iofarr(lam1(lambda j: evar(created("EdgeGroup", 0).gid, iget(nbrs(G.gid, {v}), j), {v})), ilen(nbrs(G.gid, {v})))'


def parity_at(v, charge):
    return '((count(a, {}) % 2 == 1) == ({}))'.format(INC.format(v=v), charge)


CONTRACTS = {
    (G_, 'GraphAbs.neighbors'): {
        'assumed': 'neighbour view of the abstract graph (sorted adjacency list; C16 proves the representation)',
        'params': {'u': 'int'}, 'raises': {'ValueError': 'not (1 <= u and u <= self.n)'}, 'returns_expr': 'nbrs(self.gid, u)'},
    (F_, 'FormulaT.__init__'): {
        'assumed': 'formula_class(description=...) builds an empty formula of that class',
        'params': {'description': 'any'}, 'modifies': ['self.store', 'self._numvar'],
        'ensures': ['self.store == cnil', 'self._numvar == 0']},
    (F_, 'FormulaT.new_graph_edges'): {
        'assumed': 'group allocation (C11): one fresh variable per edge; every edge {u,v} of the graph has a variable of the formula',
        'params': {'G': 'obj:GraphAbs', 'label': 'any'}, 'modifies': ['self._numvar'], 'returns': 'obj:EdgeGroup',
        'ensures': ['result.graph == G.gid', 'result.n == G.n', 'self._numvar == old(self._numvar) + G.m',
                    'forall(lambda v, j: implies(1 <= v and v <= G.n and 0 <= j and j < ilen(nbrs(G.gid, v)), '
                    '1 <= evar(result.gid, iget(nbrs(G.gid, v), j), v) and evar(result.gid, iget(nbrs(G.gid, v), j), v) <= self._numvar), '
                    'lambda v, j: evar(result.gid, iget(nbrs(G.gid, v), j), v))',
                    # an undirected edge has ONE variable, whichever endpoint is named first
                    'forall(lambda u, v: evar(result.gid, u, v) == evar(result.gid, v, u), lambda u, v: evar(result.gid, u, v))']},
    (V_, 'EdgeGroup.__call__'): {
        'assumed': 'group call contract (C11): e(u, v) is the variable of the edge {u, v}',
        'params': {}, 'supports': ['len(index) == 2'], 'returns_expr': 'evar(self.gid, index[0], index[1])'},
    (F_, 'FormulaT.add_parity'): {
        'assumed': 'interface meaning of add_parity (proved for both classes: C04)',
        'params': {'lits': 'iseq', 'constant': 'int', 'check': 'bool'}, 'ghost_params': {'a': 'asg'},
        'raises': {'ValueError': 'check and haszero(lits)'},
        'modifies': ['self.store', 'self._numvar'],
        'ensures': ['sat(a, self.store) == (sat(a, old(self.store)) and ((count(a, lits) % 2 == 1) == (constant == 1)))',
                    'self._numvar == ite(check, zmax(old(self._numvar), maxabs(lits)), old(self._numvar))']},
    (T, 'TseitinFormula'): {
        'property': ['C02', 'C08', 'C10', 'C19'],
        'params': {'G': 'obj:GraphAbs', 'charges': 'none', 'formula_class': 'class:FormulaT'},
        'ghost_params': {'a': 'asg'},
        'raises': {},
        'variants': {
            # default: one odd charge, on the first vertex
            'default': {
                'loops': {0: {'ghost_at_entry': {'S0': 'tse.store'},
                              'inv': ['tse._numvar == G.m', 'sat(a, tse.store) == (sat(a, S0) and forall(lambda w: implies(1 <= w and w <= _it, {})))'.format(parity_at('w', 'w == 1'))],
                              'modifies_objects': ['tse'], 'modifies_fields': {'tse': ['store', '_numvar']}}},
                'ensures': ['sat(a, result.store) == forall(lambda w: implies(1 <= w and w <= G.n, {}))'.format(parity_at('w', 'w == 1'))],
            },
            # explicit charges: any length; entry i-1 is the charge of vertex i, missing entries are even, extra ones ignored
            'explicit': {
                'params': {'charges': 'intlist'},
                'loops': {0: {'ghost_at_entry': {'S0': 'tse.store'},
                              'inv': ['tse._numvar == G.m', 'sat(a, tse.store) == (sat(a, S0) and forall(lambda w: implies(1 <= w and w <= _it, {})))'.format(
                                  parity_at('w', 'w <= len(old(charges)) and old(charges)[w - 1] != 0'))],
                              'modifies_objects': ['tse'], 'modifies_fields': {'tse': ['store', '_numvar']}}},
                'ensures': ['sat(a, result.store) == forall(lambda w: implies(1 <= w and w <= G.n, {}))'.format(
                    parity_at('w', 'w <= len(charges) and charges[w - 1] != 0')),
                    # the caller's list is only read (C19)
                    'len(charges) == len(old(charges))', 'forall(lambda j: implies(0 <= j and j < len(charges), charges[j] == old(charges)[j]))'],
            },
        },
        'ensures': ['result._numvar == G.m', 'result.cls == formula_class'],
    },
    # ---- Markstrom's even colouring formula: every vertex has exactly half of its edges true; refused on an odd degree
    (G_, 'GraphAbs.degree'): {
        'assumed': 'degree view of the abstract graph = length of the neighbour list (C16 proves Graph.degree against the representation)',
        'params': {'u': 'int'}, 'raises': {'ValueError': 'not (1 <= u and u <= self.n)'}, 'returns_expr': 'ilen(nbrs(self.gid, u))'},
    (V_, 'EdgeGroup.indices'): {
        'assumed': 'index enumeration of the edge group (C11): indices(v, None) and indices(None, v) list the edges at v as sorted pairs, in neighbour order',
        'params': {}, 'supports': ['len(pattern) == 2', '(pattern[0] is None) != (pattern[1] is None)'], 'requires': ['1 <= nonnone(pattern)', 'nonnone(pattern) <= self.n'],
        'returns_expr': 'pairsof(lam1(lambda j: zmin(nonnone(pattern), iget(nbrs(self.graph, nonnone(pattern)), j))), '
                        'lam1(lambda j: zmax(nonnone(pattern), iget(nbrs(self.graph, nonnone(pattern)), j))), ilen(nbrs(self.graph, nonnone(pattern))))'},
    (F_, 'FormulaT.cardinality_eq'): {
        'assumed': 'interface meaning of cardinality_eq (proved for both classes: C04)',
        'params': {'lits': 'iseq', 'value': 'int', 'check': 'bool'}, 'ghost_params': {'a': 'asg'},
        'raises': {'ValueError': 'check and haszero(lits)'},
        'modifies': ['self.store', 'self._numvar'],
        'ensures': ['sat(a, self.store) == (sat(a, old(self.store)) and count(a, lits) == value)',
                    'self._numvar == ite(check, zmax(old(self._numvar), maxabs(lits)), old(self._numvar))']},
    ('cnfgen/families/coloring.py', 'EvenColoringFormula'): {
        'property': ['C02', 'C08', 'C10'],
        'params': {'G': 'obj:GraphAbs', 'formula_class': 'class:FormulaT'},
        'ghost_params': {'a': 'asg'},
        # refused exactly when some vertex has odd degree
        'raises': {'ValueError': 'not forall(lambda w: implies(1 <= w and w <= G.n, ilen(nbrs(G.gid, w)) % 2 == 0))'},
        'loops': {0: {'ghost_at_entry': {'S0': 'F.store'},
                      'inv': ['F._numvar == G.m',
                              'forall(lambda w: implies(1 <= w and w <= _it, ilen(nbrs(G.gid, w)) % 2 == 0))',
                              'sat(a, F.store) == (sat(a, S0) and forall(lambda w: implies(1 <= w and w <= _it, EVEN)))'],
                      'modifies_objects': ['F'], 'modifies_fields': {'F': ['store', '_numvar']}}},
        'ensures': ['sat(a, result.store) == forall(lambda w: implies(1 <= w and w <= G.n, EVEN))',
                    'result._numvar == G.m', 'result.cls == formula_class'],
    },
}
EVEN = ('2 * count(a, iofarr(lam1(lambda j: evar(created("EdgeGroup", 0).gid, zmin(w, iget(nbrs(G.gid, w), j)), zmax(w, iget(nbrs(G.gid, w), j)))), '
        'ilen(nbrs(G.gid, w)))) == ilen(nbrs(G.gid, w))')
_c = CONTRACTS[('cnfgen/families/coloring.py', 'EvenColoringFormula')]
_c['loops'][0]['inv'] = [t.replace('EVEN', EVEN) for t in _c['loops'][0]['inv']]
_c['ensures'] = [t.replace('EVEN', EVEN) for t in _c['ensures']]
