"""Sidecar contracts: the relational requirements of unary / sparse mappings (C04 mapping builders, C01, C10).

A mapping group g over a bipartite graph: gdom(g) domain elements 1..n, grng(g) range elements 1..m,
rowlits(g,u) = the variables f(u,v) for the allowed images v of u, collits(g,v) = the variables f(u,v) for the
allowed preimages u of v.  The property statement per requirement:
  complete   : every domain element has an image among its allowed ones   -> each rowlits(g,u) has a true variable
  functional : at most one image                                           -> at most one true variable in rowlits(g,u)
  surjective : every range element is hit                                  -> each collits(g,v) has a true variable
  injective  : no two domain elements share an image                       -> at most one true variable in collits(g,v)
ASSUMED (group call contract, C11 bounded tier): f(u, None) yields rowlits, f(None, v) yields collits, all inside 1..numvar.
"""
V = 'cnfgen/formula/variables.py'

CLASSMODELS = {
    'UnaryMappingAbs': {'file': V, 'real': 'UnaryMappingVariables',
                        'fields': {'gid': 'int', 'n': 'int', 'm': 'int', 'formula': 'obj:CNFLinear'},
                        'invariant': ['self.n >= 0', 'self.m >= 0', 'self.n == gdom(self.gid)', 'self.m == grng(self.gid)']},
    'ManagerAbs': {'file': V, 'real': 'VariablesManager', 'fields': {'_groups': 'opaque', '_formula': 'obj:CNFLinear'}},
}

WF = ['self._formula._numvar >= 0', 'cmaxabs(self._formula._clauses) <= self._formula._numvar', 'not chaszero(self._formula._clauses)']


def force(method, per_element, dom, lits):
    """per_element: meaning of one added constraint over `lits(g,x)`;  dom: 'n' or 'm'"""
    return {
        'property': ['C04', 'C01', 'C10'],
        'source': (V, 'VariablesManager.' + method),
        'params': {'self': 'obj:ManagerAbs', 'f': 'obj:UnaryMappingAbs'},
        'aliases': [('f.formula', 'self._formula')],
        'ghost_params': {'a': 'asg'},
        'requires': WF,
        'raises': {},
        'modifies': ['self._formula._clauses', 'self._formula._numvar'],
        'loops': {k: {'ghost_at_entry': {'C0': 'self._formula._clauses'}, 'ghost_at_entry_vals': {'NV': 'self._formula._numvar'},
                      'inv': ['sat(a, self._formula._clauses) == (sat(a, C0) and forall(lambda u: implies(1 <= u and u <= _it, {})))'.format(per_element.format(lits='{}(f.gid, u)'.format(lits))),
                              'self._formula._numvar == NV', 'ctake(self._formula._clauses, clen(C0)) == C0', 'clen(self._formula._clauses) >= clen(C0)'] + WF,
                      'modifies_objects': ['self._formula'], 'modifies_fields': {'self._formula': ['_clauses', '_numvar']}}
                  for k in range(0, 4)},
        # a mapping created from ANOTHER formula is refused (ValueError), nothing is added: second variant, without the alias
        'variants': {'own': {}, 'foreign': {'aliases': [], 'raises': {'ValueError': 'True'}, 'never_returns': True}},
        'ensures_on_raise': ['self._formula._clauses == old(self._formula._clauses)', 'self._formula._numvar == old(self._formula._numvar)'],
        'ensures': [
            'sat(a, self._formula._clauses) == (sat(a, old(self._formula._clauses)) and forall(lambda u: implies(1 <= u and u <= f.{}, {})))'.format(dom, per_element.format(lits='{}(f.gid, u)'.format(lits))),
            'self._formula._numvar == old(self._formula._numvar)',
            'ctake(self._formula._clauses, clen(old(self._formula._clauses))) == old(self._formula._clauses)',
        ] + WF,
    }


CONTRACTS = {
    (V, 'BaseVariableGroup.parent_formula'): {'inline_always': True},
    (V, 'UnaryMappingAbs.domain'): {
        'assumed': 'UnaryMappingVariables.domain() = 1..n (left part of the graph)', 'params': {'v': 'none'},
        'returns_expr': 'range(1, self.n + 1)'},
    (V, 'UnaryMappingAbs.range'): {
        'assumed': 'UnaryMappingVariables.range() = 1..m (right part of the graph)', 'params': {'u': 'none'},
        'returns_expr': 'range(1, self.m + 1)'},
    (V, 'UnaryMappingAbs.__call__'): {
        'assumed': 'group call contract (C11): f(u, None) / f(None, v) yield the identifiers of row u / column v, inside the formula',
        'params': {},
        'returns': 'iseq',
        'supports': ['len(index) == 2', '(index[0] is None) != (index[1] is None)'],
        'requires': [
                     'implies(index[1] is None, 1 <= index[0] and index[0] <= self.n)',
                     'implies(index[0] is None, 1 <= index[1] and index[1] <= self.m)'],
        'ensures': ['implies(index[1] is None, result == rowlits(self.gid, index[0]))',
                    'implies(index[0] is None, result == collits(self.gid, index[1]))',
                    'not haszero(result)', 'maxabs(result) <= self.formula._numvar'],
    },
    (V, 'ManagerAbs.force_complete_mapping'): force('force_complete_mapping', 'ctrue(a, {lits})', 'n', 'rowlits'),
    (V, 'ManagerAbs.force_functional_mapping'): force('force_functional_mapping', 'count(a, {lits}) <= 1', 'n', 'rowlits'),
    (V, 'ManagerAbs.force_surjective_mapping'): force('force_surjective_mapping', 'ctrue(a, {lits})', 'm', 'collits'),
    (V, 'ManagerAbs.force_injective_mapping'): force('force_injective_mapping', 'count(a, {lits}) <= 1', 'm', 'collits'),
}
