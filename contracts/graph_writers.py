r"""Sidecar contracts for the graph writers of cnfgen/graphs.py (C14 writer half), under the event abstraction of the writers
(one event per write()/print(); a formatted piece = its constant template + integer arguments; a name line is an opaque
event: its content is not looked into).

PROVED for every graph (abstract views of C16):
  * DIMACS graph format: after the name line exactly "p edge <n> <m>" with the TRUE vertex and edge counts, then one
    "e <v> <w>" line per edge of the edge view, in order - nothing else;
  * KTH adjacency lists (simple and directed graphs): name line, the vertex count, then ONE block holding, for every vertex
    1..n in order, "<v> :" followed by its neighbours (predecessors for a directed graph) in list order and " 0";
  * KTH lists of a bipartite graph: the same over the left vertices, every right neighbour shifted by the number of left
    vertices, and the TOTAL number of vertices on the count line.
Left to the bounded tier: that these pieces of text read back as those numbers (independent readers), the matrix format,
gml / dot (networkx, pydot).
"""
G = 'cnfgen/graphs.py'

CLASSMODELS = {
    'BipW': {'file': G, 'real': 'BipartiteGraph', 'fields': {'gid': 'int', 'lorder': 'int', 'rorder': 'int', 'name': 'opaquestr'},
             'invariant': ['self.lorder >= 0', 'self.rorder >= 0']},
}

# events of vertex v of the adjacency-list formats: "<v> :", the joined neighbours, " 0\n"
VROW = 'csnoc(csnoc(csnoc(S_L, ev("{} :", VV)), evrow("", "| {}", "", NB)), ev(" 0\\n"))'

CONTRACTS = {
    (G, 'GraphAbs.is_directed'): {'assumed': 'class constant: a simple graph is not directed', 'params': {}, 'returns_expr': 'False'},
    (G, 'DagAbs.is_directed'): {'assumed': 'class constant: a DirectedGraph is directed', 'params': {}, 'returns_expr': 'True'},
    (G, 'GraphAbs.number_of_vertices'): {'assumed': 'vertex count view', 'params': {}, 'returns_expr': 'self.n'},
    (G, 'GraphAbs.number_of_edges'): {'assumed': 'edge count view (C16)', 'params': {}, 'returns_expr': 'self.m'},
    (G, 'DagAbs.order'): {'assumed': 'vertex count view', 'params': {}, 'returns_expr': 'self.n'},
    (G, 'BipW.order'): {'assumed': 'order() of a bipartite graph = left + right vertices', 'params': {}, 'returns_expr': 'self.lorder + self.rorder'},
    (G, 'BipW.parts'): {'assumed': 'parts() = (1..L, 1..R)', 'params': {},
                        'returns_expr': '(range(1, self.lorder + 1), range(1, self.rorder + 1))'},
    (G, 'BipW.right_neighbors'): {
        'assumed': 'neighbour view of the bipartite graph (C16 proves it against the representation)',
        'params': {'u': 'int'}, 'raises': {'ValueError': 'not (1 <= u and u <= self.lorder)'}, 'returns_expr': 'rnbrs(self.gid, u)'},
    (G, '_write_graph_dimacs_format'): {
        'property': ['C14'],
        'trace': {'comment': None, 'opaque': True},
        'params': {'G': 'obj:GraphAbs', 'output_file': 'sink'},
        'raises': {},
        'loops': {0: {'ghost_at_entry': {'T1': 'trace(output_file)'},
                      'inv': ['trace(output_file) == capp(T1, dedges(tid("e {} {}\\n"), G.gid, _it))']}},
        'ensures': ['trace(output_file) == capp(csnoc(csnoc(old(trace(output_file)), evopaque()), ev("p edge {} {}\\n", G.n, G.m)), '
                    'dedges(tid("e {} {}\\n"), G.gid, G.m))'],
    },
    (G, '_write_graph_kthlist_nonbipartite'): {
        'property': ['C14'],
        'trace': {'comment': None, 'opaque': True},
        'params': {'G': 'obj:GraphAbs', 'output_file': 'sink'},
        'raises': {},
        'variants': {
            'simple': {
                'defines': ['forall(lambda S_L, i: rowapp(21, S_L, i) == {}, lambda S_L, i: rowapp(21, S_L, i))'.format(
                    VROW.replace('VV', '(i + 1)').replace('NB', 'nbrs(G.gid, i + 1)'))],
                'loops': {0: {'inv': ['trace(output) == rowsfrom(21, cnil, _it)']}},
                'ensures': ['trace(output_file) == csnoc(csnoc(csnoc(old(trace(output_file)), evopaque()), ev("{}\\n", G.n)), '
                            'evnest(tid("nest:\\n"), rowsfrom(21, cnil, G.n)))'],
            },
            'directed': {
                'params': {'G': 'obj:DagAbs'},
                'defines': ['forall(lambda S_L, i: rowapp(22, S_L, i) == {}, lambda S_L, i: rowapp(22, S_L, i))'.format(
                    VROW.replace('VV', '(i + 1)').replace('NB', 'preds(G.gid, i + 1)'))],
                'loops': {0: {'inv': ['trace(output) == rowsfrom(22, cnil, _it)']}},
                'ensures': ['trace(output_file) == csnoc(csnoc(csnoc(old(trace(output_file)), evopaque()), ev("{}\\n", G.n)), '
                            'evnest(tid("nest:\\n"), rowsfrom(22, cnil, G.n)))'],
            },
        },
    },
    (G, '_write_graph_kthlist_bipartite'): {
        'property': ['C14'],
        'trace': {'comment': None, 'opaque': True},
        'params': {'G': 'obj:BipW', 'output_file': 'sink'},
        'raises': {},
        'defines': ['forall(lambda S_L, i: rowapp(23, S_L, i) == {}, lambda S_L, i: rowapp(23, S_L, i))'.format(
            VROW.replace('VV', '(i + 1)').replace('NB', 'ishift(rnbrs(G.gid, i + 1), G.lorder)'))],
        'loops': {0: {'inv': ['trace(output) == rowsfrom(23, cnil, _it)']}},
        'ensures': ['trace(output_file) == csnoc(csnoc(csnoc(old(trace(output_file)), evopaque()), ev("{}\\n", G.lorder + G.rorder)), '
                    'evnest(tid("nest:\\n"), rowsfrom(23, cnil, G.lorder)))'],
    },
}
