"""Sidecar contracts: name alignment - VariablesManager.all_variable_labels over the list of groups (C11 second sentence, C10).

The manager's list of groups is modelled by what its own code looks at: the number of groups and, per group, its identifier range
[lo, hi) and whether it is a single-variable group.  MANAGER INVARIANT (MI): the ranges are well-formed, pairwise disjoint, in
increasing order, and inside 1..number_of_variables.
PROVED:
  * `_add_variable_group` (second proof, over this model) PRESERVES MI: a non-empty group is accepted only above every existing
    variable, is appended last, and the variable count becomes its last identifier; an empty group changes nothing else;
  * `all_variable_labels`, for every manager satisfying MI and every number of groups: exactly number_of_variables() labels are
    yielded, and at every yield the number of labels yielded before is (identifier of the variable being named) - 1: default labels
    fill exactly the gaps before / between / after the groups, a group's labels start exactly at the group's first identifier and
    there are exactly as many as the group has variables; the function's own final `assert` never fails.
ASSUMED: `group.label()` with no pattern yields one label per variable of the group, in identifier order (C11 bounded tier: the
text of the labels); a single-variable group has exactly one variable (proved for SingletonVariableGroup in variables_groups.py).
"""
V = 'cnfgen/formula/variables.py'

CLASSMODELS = {
    'ManagerL': {'file': V, 'real': 'VariablesManager', 'fields': {'_groups': 'grouplist', '_formula': 'obj:BaseCNF'}},
    'GroupView': {'file': V, 'real': 'BaseVariableGroup', 'fields': {'ids': 'range:ids_lo:ids_hi', 'single': 'bool', 'name': 'opaque', 'gpos': 'int'}},
}


def mi(g, nv):
    ne = 'glo({g}, {i}) < ghi({g}, {i})'
    return [
        # every NON-EMPTY group lies inside 1..number_of_variables; a single-variable group has one variable
        'forall(lambda i: implies(0 <= i and i < len({g}) and {ne}, 1 <= glo({g}, i) and ghi({g}, i) <= {nv} + 1), lambda i: glo({g}, i))'.format(
            g=g, nv=nv, ne=ne.format(g=g, i='i')),
        'forall(lambda i: implies(0 <= i and i < len({g}) and gsingle({g}, i), ghi({g}, i) == glo({g}, i) + 1), lambda i: gsingle({g}, i))'.format(g=g),
        # non-empty groups are pairwise disjoint and listed in increasing order
        'forall(lambda i, j: implies(0 <= i and i < j and j < len({g}) and {ni} and {nj}, ghi({g}, i) <= glo({g}, j)))'.format(
            g=g, ni=ne.format(g=g, i='i'), nj=ne.format(g=g, i='j')),
        '{nv} >= 0'.format(nv=nv),
    ]


MI = mi('self._groups', 'self._formula._numvar')

CONTRACTS = {
    (V, 'ManagerL._add_variable_group'): {
        'property': ['C10', 'C11'], 'source': (V, 'VariablesManager._add_variable_group'),
        'params': {'self': 'obj:ManagerL', 'vg': 'obj:GroupView'},
        'modifies': ['self._groups', 'self._formula._numvar'],
        'requires': MI + ['implies(vg.single, vg.ids_hi == vg.ids_lo + 1)'],
        'raises': {'ValueError': 'vg.ids_lo < vg.ids_hi and vg.ids_lo <= self._formula._numvar'},
        'ensures': MI + ['len(self._groups) == len(old(self._groups)) + 1',
                         'glo(self._groups, len(self._groups) - 1) == vg.ids_lo', 'ghi(self._groups, len(self._groups) - 1) == vg.ids_hi',
                         'forall(lambda i: implies(0 <= i and i < len(old(self._groups)), glo(self._groups, i) == glo(old(self._groups), i) and '
                         'ghi(self._groups, i) == ghi(old(self._groups), i)))'],
    },
    (V, 'GroupView.label'): {
        'assumed': 'label() with no pattern yields one label per variable of the group, in identifier order (the texts: C11 bounded tier)',
        'params': {}, 'supports': ['len(pattern) == 0'], 'returns': 'lines', 'ensures': ['len(result) == zmax(self.ids_hi - self.ids_lo, 0)']},
    (V, 'ManagerL.all_variable_labels'): {
        'property': ['C11', 'C10'], 'source': (V, 'VariablesManager.all_variable_labels'),
        'params': {'self': 'obj:ManagerL', 'default_label_format': 'const:"x{}"'},
        'requires': MI,
        'raises': {},
        'loops': {
            # after _it groups: every identifier below varid has its label, and varid is just past the groups seen so far
            0: {'inv': ['_ytotal == varid - 1', 'varid >= 1', 'end == self._formula._numvar', 'varid <= end + 1',
                        'forall(lambda j: implies(_it <= j and j < len(self._groups) and glo(self._groups, j) < ghi(self._groups, j), varid <= glo(self._groups, j)), '
                        'lambda j: glo(self._groups, j))']},
            1: {'inv': ['_ytotal == varid - 1', 'varid >= 1', 'varid <= begin', 'begin == vg.ids_lo', 'end == self._formula._numvar'],
                'decreases': 'begin - varid'},
            2: {'inv': ['_ytotal == varid - 1', 'varid >= 1', 'varid <= end + 1', 'end == self._formula._numvar'], 'decreases': 'end + 1 - varid'},
        },
        'yields_at': {
            0: ['_ytotal == varid - 1', 'varid < vg.ids_lo', 'varid >= 1'],                               # a default label: the label of variable `varid`, in a gap
            1: ['_ytotal == vg.ids_lo - 1', 'vg.ids_hi == vg.ids_lo + 1'],                   # the name of a single-variable group, at its identifier
            2: ['_ytotal == vg.ids_lo - 1', '_ylen == vg.ids_hi - vg.ids_lo'],               # the labels of a group, starting at its first identifier
            3: ['_ytotal == varid - 1', 'varid <= self._formula._numvar'],                   # default labels after the last group
        },
        'ensures': ['final("_ytotal") == self._formula._numvar'],
    },
}
