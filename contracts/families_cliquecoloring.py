"""Sidecar contract: CliqueColoring over the mapping / combination-group call interface (C01, C08, C10).

PROVED for all n, k, c, both formula classes, for an arbitrary assignment a: a satisfies the formula iff
  * q is a complete, functional, injective mapping [k] -> [n]        (the clique members),
  * whenever two clique positions i < j sit on vertices u, v (in either order), the edge {u, v} is present,
  * r is a complete, functional mapping [n] -> [c]                   (the colouring),
  * no present edge {u, v} has both endpoints of the same colour
- i.e. exactly "a graph with a k-clique and a c-colouring", all pairs / positions / colours quantified, none missing.
Variable count: n(n-1)/2 + k*n + n*c.  The loops over the pairs of the edge group and over combinations(.., 2) are
verified as the nested range loops they are equivalent to.
ASSUMED: group allocation and call contracts (C11: e.indices() enumerates the pairs u < v in combination order, e(u, v),
q(i, u), r(u, l) are variables of the formula), the meaning of force_* (proved for unary mappings: C04) and of add_clause.
"""
K = 'cnfgen/families/cliquecoloring.py'
F_ = 'cnfgen/formula/cnf.py'
V_ = 'cnfgen/formula/variables.py'

CLASSMODELS = {
    'MapC': {'file': V_, 'real': 'UnaryMappingVariables', 'fields': {'gid': 'int', 'n': 'int', 'm': 'int'}},
    'CombC': {'file': V_, 'real': 'WordOfIndicesVariables', 'fields': {'gid': 'int', 'n': 'int'}},
    'FormulaC': {'file': F_, 'real': 'CNF', 'fields': {'store': 'mclist', '_numvar': 'int', 'cls': 'int'}},
}
E, Q, R = 'created("CombC", 0)', 'created("MapC", 0)', 'created("MapC", 1)'


def lt(v):
    return 'lit_true(a, {})'.format(v)


def clq(u, v, i, j):
    """positions i < j of the clique on the vertices u < v, in either order, need the edge {u, v}"""
    e = lt('cvar({}.gid, {}, {})'.format(E, u, v))
    return ('(implies({qiu} and {qjv}, {e}) and implies({qiv} and {qju}, {e}))').format(
        e=e, qiu=lt('mvar({}.gid, {}, {})'.format(Q, i, u)), qjv=lt('mvar({}.gid, {}, {})'.format(Q, j, v)),
        qiv=lt('mvar({}.gid, {}, {})'.format(Q, i, v)), qju=lt('mvar({}.gid, {}, {})'.format(Q, j, u)))


def col(u, v, l):
    return 'implies({e}, not ({ru} and {rv}))'.format(e=lt('cvar({}.gid, {}, {})'.format(E, u, v)),
                                                       ru=lt('mvar({}.gid, {}, {})'.format(R, u, l)), rv=lt('mvar({}.gid, {}, {})'.format(R, v, l)))


def acc(prev, text):
    return 'sat(a, F.store) == (sat(a, {}) and {})'.format(prev, text)


FR = {'modifies_objects': ['F'], 'modifies_fields': {'F': ['store', '_numvar']}}
KEEP = ['2 * F._numvar == n * (n - 1) + 2 * k * n + 2 * n * c', 'n >= 0', 'k >= 0', 'c >= 0']
A_DONE_U = 'forall(lambda u, v, i, j: implies(1 <= u and u <= _iu and u < v and v <= n and 1 <= i and i < j and j <= k, {}))'.format(clq('u', 'v', 'i', 'j'))
A_DONE_V = 'forall(lambda v, i, j: implies(_iu + 1 < v and v <= _iu + 1 + _iv and 1 <= i and i < j and j <= k, {}))'.format(clq('_iu + 1', 'v', 'i', 'j'))
A_DONE_I = 'forall(lambda i, j: implies(1 <= i and i <= _ii and i < j and j <= k, {}))'.format(clq('_iu + 1', '_iu + 2 + _iv', 'i', 'j'))
A_DONE_J = 'forall(lambda j: implies(_ii + 1 < j and j <= _ii + 1 + _ij, {}))'.format(clq('_iu + 1', '_iu + 2 + _iv', '_ii + 1', 'j'))
B_DONE_U = 'forall(lambda u, v, l: implies(1 <= u and u <= _ju and u < v and v <= n and 1 <= l and l <= c, {}))'.format(col('u', 'v', 'l'))
B_DONE_V = 'forall(lambda v, l: implies(_ju + 1 < v and v <= _ju + 1 + _jv and 1 <= l and l <= c, {}))'.format(col('_ju + 1', 'v', 'l'))
B_DONE_L = 'forall(lambda l: implies(1 <= l and l <= _it, {}))'.format(col('_ju + 1', '_ju + 2 + _jv', 'l'))


def force(pred):
    return {'assumed': 'meaning of force_{0}_mapping = the relational predicate m_{0} (proved for unary mappings: C04)'.format(pred),
            'params': {'f': 'obj:MapC'}, 'ghost_params': {'a': 'asg'}, 'modifies': ['self.store'],
            'ensures': ['sat(a, self.store) == (sat(a, old(self.store)) and m_{}(a, f.gid))'.format(pred)]}


CONTRACTS = {
    (F_, 'FormulaC.__init__'): {
        'assumed': 'formula_class(description=...) builds an empty formula of that class', 'params': {'description': 'any'},
        'modifies': ['self.store', 'self._numvar'], 'ensures': ['self.store == cnil', 'self._numvar == 0']},
    (F_, 'FormulaC.new_combinations'): {
        'assumed': 'group allocation (C11): one fresh variable per pair u < v of 1..n; each is a variable of the formula',
        'params': {'n': 'int', 'k': 'int', 'label': 'any'}, 'supports': ['k == 2'], 'requires': ['n >= 0'],
        'modifies': ['self._numvar'], 'returns': 'obj:CombC',
        'ensures': ['result.n == n', '2 * self._numvar == 2 * old(self._numvar) + n * (n - 1)',
                    'forall(lambda u, v: implies(1 <= u and u < v and v <= n, 1 <= cvar(result.gid, u, v) and cvar(result.gid, u, v) <= self._numvar), '
                    'lambda u, v: cvar(result.gid, u, v))']},
    (F_, 'FormulaC.new_mapping'): {
        'assumed': 'group allocation (C11): n*m fresh variables; every p[u,v] is a variable of the formula',
        'params': {'n': 'int', 'm': 'int', 'label': 'any'}, 'requires': ['n >= 0', 'm >= 0'],
        'modifies': ['self._numvar'], 'returns': 'obj:MapC',
        'ensures': ['result.n == n', 'result.m == m', 'self._numvar == old(self._numvar) + n * m',
                    'forall(lambda u, v: implies(1 <= u and u <= n and 1 <= v and v <= m, '
                    '1 <= mvar(result.gid, u, v) and mvar(result.gid, u, v) <= self._numvar), lambda u, v: mvar(result.gid, u, v))']},
    (F_, 'FormulaC.force_complete_mapping'): force('complete'),
    (F_, 'FormulaC.force_functional_mapping'): force('functional'),
    (F_, 'FormulaC.force_injective_mapping'): force('injective'),
    (V_, 'CombC.indices'): {'assumed': 'index enumeration (C11): all pairs u < v of 1..n in combination order', 'params': {},
                            'supports': ['len(pattern) == 0'], 'returns_expr': 'combs2(1, self.n + 1)'},
    (V_, 'CombC.__call__'): {'assumed': 'group call contract (C11): e(u, v) is the variable of the pair', 'params': {},
                             'supports': ['len(pattern) == 2'], 'requires': ['1 <= pattern[0]', 'pattern[0] < pattern[1]', 'pattern[1] <= self.n'],
                             'returns_expr': 'cvar(self.gid, pattern[0], pattern[1])'},
    (V_, 'MapC.domain'): {'assumed': 'domain() = 1..n', 'params': {'v': 'none'}, 'returns_expr': 'range(1, self.n + 1)'},
    (V_, 'MapC.range'): {'assumed': 'range() = 1..m', 'params': {'u': 'none'}, 'returns_expr': 'range(1, self.m + 1)'},
    (V_, 'MapC.__call__'): {'assumed': 'mapping call contract (C11): q(i, u) is the variable q[i,u]', 'params': {},
                            'supports': ['len(index) == 2', 'index[0] is not None and index[1] is not None'],
                            'requires': ['1 <= index[0] and index[0] <= self.n', '1 <= index[1] and index[1] <= self.m'],
                            'returns_expr': 'mvar(self.gid, index[0], index[1])'},
    (F_, 'FormulaC.add_clause'): {
        'assumed': 'interface meaning of add_clause (C04)',
        'params': {'clause': 'iseq', 'check': 'bool'}, 'ghost_params': {'a': 'asg'},
        'raises': {'ValueError': 'check and haszero(clause)'}, 'modifies': ['self.store', 'self._numvar'],
        'ensures': ['sat(a, self.store) == (sat(a, old(self.store)) and count(a, clause) >= 1)',
                    'self._numvar == ite(check, zmax(old(self._numvar), maxabs(clause)), old(self._numvar))']},
    (K, 'CliqueColoring'): {
        'property': ['C01', 'C08', 'C10'],
        'params': {'n': 'int', 'k': 'int', 'c': 'int', 'formula_class': 'class:FormulaC'},
        'ghost_params': {'a': 'asg'},
        'raises': {'ValueError': 'n < 0 or k < 0 or c < 0'},
        'loops': {
            0: {'nest': [dict(FR, counter='_iu', ghost_at_entry={'S0': 'F.store'}, inv=KEEP + [acc('S0', A_DONE_U)]),
                         dict(FR, counter='_iv', inv=KEEP + [acc('S0', '({} and {})'.format(A_DONE_U, A_DONE_V))])]},
            1: {'nest': [dict(FR, counter='_ii', inv=KEEP + [acc('S0', '({} and {} and {})'.format(A_DONE_U, A_DONE_V, A_DONE_I))]),
                         dict(FR, counter='_ij', inv=KEEP + [acc('S0', '({} and {} and {} and {})'.format(A_DONE_U, A_DONE_V, A_DONE_I, A_DONE_J))])]},
            2: {'nest': [dict(FR, counter='_ju', ghost_at_entry={'S2': 'F.store'}, inv=KEEP + [acc('S2', B_DONE_U)]),
                         dict(FR, counter='_jv', inv=KEEP + [acc('S2', '({} and {})'.format(B_DONE_U, B_DONE_V))])]},
            3: dict(FR, inv=KEEP + [acc('S2', '({} and {} and {})'.format(B_DONE_U, B_DONE_V, B_DONE_L))]),
        },
        'ensures': [
            'sat(a, result.store) == (m_complete(a, {q}.gid) and m_functional(a, {q}.gid) and m_injective(a, {q}.gid) and '
            'forall(lambda u, v, i, j: implies(1 <= u and u < v and v <= n and 1 <= i and i < j and j <= k, {A})) and '
            'm_complete(a, {r}.gid) and m_functional(a, {r}.gid) and '
            'forall(lambda u, v, l: implies(1 <= u and u < v and v <= n and 1 <= l and l <= c, {B})))'.format(
                q=Q, r=R, A=clq('u', 'v', 'i', 'j'), B=col('u', 'v', 'l')),
            '2 * result._numvar == n * (n - 1) + 2 * k * n + 2 * n * c',
            'result.cls == formula_class',
        ],
    },
}
