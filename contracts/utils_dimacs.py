"""Sidecar contract for cnfgen/utils/parsedimacs.py:parse_dimacs  (C06 reader half, C18).

Token abstraction (DESIGN 2.1): the text is a sequence of opaque lines; `strip`, `split`, `isascii`, `isdigit` and
`int()` are demonic library functions (int() raises ValueError or returns some integer; the string predicates answer
either way).  What is PROVED, for every input text under that abstraction:
  * the only exception that can leave the reader is ValueError (no IndexError on `line[0]`, no TypeError on the
    comparison with the not-yet-declared variable count, no unpacking error, ...);
  * the first two values yielded are the declared counts n >= 0 and m; every clause yielded contains only literals
    with 1 <= |l| <= n;
  * on normal termination the number of clauses yielded equals the declared m and no literal is left over.
What the abstraction leaves to the bounded tier: that the integers are the ones written in the text.
"""
P = 'cnfgen/utils/parsedimacs.py'

OUTER = [
    '(n is None) == (m is None)', 'implies(n is not None, n >= 0)',
    'clauses_count >= 0', 'clauses_count == _y2',
    'implies(n is None, len(literal_buffer) == 0 and clauses_count == 0)',
    'forall(lambda j: implies(0 <= j and j < len(literal_buffer), n is not None and 1 <= abs(literal_buffer[j]) and abs(literal_buffer[j]) <= n))',
    'implies(n is None, _y0 == 0 and _y1 == 0)', 'implies(n is not None, _y0 == 1 and _y1 == 1)',
]

CLASSMODELS = {}

CONTRACTS = {
    (P, 'parse_dimacs'): {
        'property': ['C06', 'C18'],
        'params': {'infile': 'textfile'},
        'raises': {'ValueError': None},          # ... and nothing else (raises-only)
        'loops': {0: {'inv': OUTER},
                  1: {'inv': OUTER + ['n is not None']}},
        'yields_at': {
            0: ['yielded == n', 'yielded >= 0'],
            1: ['yielded == m'],
            2: ['n is not None', 'forall(lambda j: implies(0 <= j and j < len(yielded), 1 <= abs(yielded[j]) and abs(yielded[j]) <= n))'],
        },
        'ensures': ['final("n") is not None', 'final("_y0") == 1', 'final("_y1") == 1', 'final("m") == final("_y2")', 'len(final("literal_buffer")) == 0'],
    },
}
