"""Sidecar contract for cnfgen/utils/parsedimacs.py:parse_dimacs  (C06 reader half, C18).

Token abstraction (DESIGN 2.1): the text is a sequence of opaque lines; `strip`, `split`, `isascii`, `isdigit` and
`int()` are demonic library functions (int() raises ValueError or returns some integer; the string predicates answer
either way).  What is PROVED, for every input text under that abstraction:
  * the only exception that can leave the reader is ValueError (no IndexError on `line[0]`, no TypeError on the
    comparison with the not-yet-declared variable count, no unpacking error, ...);
  * the first two values yielded are the declared counts n >= 0 and m; every clause yielded contains only literals
    with 1 <= |l| <= n;
  * on normal termination the number of clauses yielded equals the declared m and no literal is left over.
What the abstraction leaves to the bounded tier: that the integers are the ones written in the text.
"""
P = 'cnfgen/utils/parsedimacs.py'

OUTER = [
    '(n is None) == (m is None)', 'implies(n is not None, n >= 0)',
    'clauses_count >= 0', 'clauses_count == _y2',
    'implies(n is None, len(literal_buffer) == 0 and clauses_count == 0)',
    'forall(lambda j: implies(0 <= j and j < len(literal_buffer), n is not None and 1 <= abs(literal_buffer[j]) and abs(literal_buffer[j]) <= n))',
    'implies(n is None, _y0 == 0 and _y1 == 0)', 'implies(n is not None, _y0 == 1 and _y1 == 1)',
]

CLASSMODELS = {
    'CNFw': {'file': 'cnfgen/formula/cnf.py', 'real': 'CNF', 'fields': {'_clauses': 'mclist', '_numvar': 'int', 'header': 'opaque'}},
}

CONTRACTS = {
    (P, 'parse_dimacs'): {
        'property': ['C06', 'C18'],
        'params': {'infile': 'textfile'},
        'raises': {'ValueError': None},          # ... and nothing else (raises-only)
        'loops': {0: {'inv': OUTER},
                  1: {'inv': OUTER + ['n is not None']}},
        'yields_at': {
            0: ['yielded == n', 'yielded >= 0'],
            1: ['yielded == m'],
            2: ['n is not None', 'forall(lambda j: implies(0 <= j and j < len(yielded), 1 <= abs(yielded[j]) and abs(yielded[j]) <= n))'],
        },
        'ensures': ['final("n") is not None', 'final("_y0") == 1', 'final("_y1") == 1', 'final("m") == final("_y2")', 'len(final("literal_buffer")) == 0'],
    },
    ('cnfgen/formula/basecnf.py', 'BaseCNF.number_of_variables'): {'inline_always': True},
    ('cnfgen/formula/basecnf.py', 'BaseCNF.number_of_clauses'): {'inline_always': True},
    ('cnfgen/formula/basecnf.py', 'BaseCNF.__len__'): {'inline_always': True},
    ('cnfgen/formula/basecnf.py', 'BaseCNF.__iter__'): {'inline_always': True},
    # VariablesManager.all_variable_labels: the assumed contract of contracts/transformations_subst.py (keys are global)
    # C06 writer half, for EVERY formula and both switches, under the event abstraction (one event per write() call; the text
    # of a formatted piece is identified by its template and its integer arguments; comment events are not looked into except
    # that they cannot leave the comment: each is a line starting with 'c', multi-line values are re-prefixed):
    #   the non-comment output is exactly  "p cnf <n> <m>\n"  with n = number of variables, m = number of clauses - the TRUE
    #   counts -, followed by, for every clause in order, "<lit> " for each literal in order and then "0\n".  Nothing else.
    # What the abstraction leaves to the bounded tier: that these pieces of text read back as the integers they were made from.
    (P, 'to_dimacs_file'): {
        'property': ['C06'],
        'trace': {'comment': 'c'},
        'params': {'formula': 'obj:CNFw', 'fileorname': 'sink', 'export_header': 'bool', 'export_varnames': 'bool'},
        'defines': ['forall(lambda l: levent(1, l) == ev("{} ", l), lambda l: levent(1, l))'],
        'loops': {
            0: {'ghost_at_entry': {'D0': 'dropc(trace(output))'}, 'inv': ['dropc(trace(output)) == D0']},
            1: {'ghost_at_entry': {'D0': 'dropc(trace(output))'}, 'inv': ['dropc(trace(output)) == D0']},
            2: {'counter': '_itc', 'ghost_at_entry': {'D1': 'dropc(trace(output))', 'C0': '_iter'},
                'inv': ['dropc(trace(output)) == capp(D1, dclauses(1, tid("0\\n"), C0, _itc))']},
            3: {'inv': ['dropc(trace(output)) == capp(capp(D1, dclauses(1, tid("0\\n"), C0, _itc)), dlits(1, cls, _it))']},
        },
        'ensures': [
            'dropc(trace(fileorname)) == capp(csnoc(dropc(old(trace(fileorname))), '
            'ev("p cnf {0} {1}\\n", formula._numvar, clen(formula._clauses))), '
            'dclauses(1, tid("0\\n"), formula._clauses, clen(formula._clauses)))',
            'formula._clauses == old(formula._clauses)', 'formula._numvar == old(formula._numvar)',
        ],
    },
}
