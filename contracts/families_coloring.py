"""Sidecar contract: GraphColoringFormula over the mapping interface and the graph ADT view (C02, C08, C10).

PROVED for every graph, number of colours and flag: an assignment satisfies the formula iff the colour mapping is
complete (every vertex has a colour) [and functional (at most one) when requested] and no edge {u,w} has a colour c
with both x(u,c) and x(w,c) true - i.e. exactly the documented "proper colouring" clauses, for all edges and all
colours 1..colors, none missing.  ASSUMED: the mapping group contracts (force_* meanings, proved for unary mappings in
variables_mappings.py; col(v,c) is the variable mvar(g,v,c) of the group) and the edge view of the graph
(G.edges() enumerates the edge list gedge1/gedge2 of the abstract graph; C16 proves the ADT, the generator view is bounded).
"""
K = 'cnfgen/families/coloring.py'
F_ = 'cnfgen/formula/cnf.py'
G_ = 'cnfgen/graphs.py'

CLASSMODELS = {
    'GraphAbs': {'file': G_, 'real': 'Graph', 'fields': {'gid': 'int', 'n': 'int', 'm': 'int', 'name': 'opaquestr'},
                 'invariant': ['self.n >= 0', 'self.m >= 0', 'self.m == gnedges(self.gid)', 'self.n == gorder(self.gid)']},
    'ColorMap': {'file': 'cnfgen/formula/variables.py', 'real': 'UnaryMappingVariables', 'fields': {'gid': 'int', 'owner': 'int', 'n': 'int', 'm': 'int'}},
    'FormulaK': {'file': F_, 'real': 'CNF', 'fields': {'store': 'mclist', '_numvar': 'int', 'fid': 'int', 'cls': 'int'}},
}

NOCLASH = ('forall(lambda e, c: implies(0 <= e and e < {E} and 1 <= c and c <= {C}, '
           'not (lit_true(a, mvar(created("ColorMap", 0).gid, gedge1(G.gid, e), c)) and lit_true(a, mvar(created("ColorMap", 0).gid, gedge2(G.gid, e), c)))))')

CONTRACTS = {
    ('cnfgen/localtypes.py', 'non_negative_int'): {'inline_always': True},
    (G_, 'GraphAbs.order'): {'assumed': 'Graph.order() is the number of vertices', 'params': {}, 'returns_expr': 'self.n'},
    (G_, 'GraphAbs.edges'): {
        'assumed': 'edge view: G.edges() enumerates the edges of the abstract graph once each (C16 bounded tier)',
        'params': {}, 'returns_expr': 'edgepairs(self.gid)',
        'ensures': ['forall(lambda e: implies(0 <= e and e < self.m, 1 <= gedge1(self.gid, e) and gedge1(self.gid, e) <= self.n and '
                    '1 <= gedge2(self.gid, e) and gedge2(self.gid, e) <= self.n))']},
    (G_, 'Graph.normalize'): {
        'assumed': 'Graph.normalize returns a cnfgen Graph unchanged', 'params': {'cls': 'any', 'G': 'obj:GraphAbs', 'varname': 'any'},
        'classmethod': True, 'returns_expr': 'G'},
    (F_, 'FormulaK.__init__'): {
        'assumed': 'formula_class(description=...) builds an empty formula of that class',
        'params': {'description': 'any'},
        'modifies': ['self.store', 'self._numvar'],
        'ensures': ['self.store == cnil', 'self._numvar == 0'],
    },
    (F_, 'FormulaK.force_complete_mapping'): {
        'assumed': 'meaning of force_complete_mapping (proved for unary mappings in variables_mappings.py)',
        'params': {'f': 'obj:ColorMap'}, 'ghost_params': {'a': 'asg'}, 'modifies': ['self.store'],
        'ensures': ['sat(a, self.store) == (sat(a, old(self.store)) and m_complete(a, f.gid))']},
    (F_, 'FormulaK.force_functional_mapping'): {
        'assumed': 'meaning of force_functional_mapping (proved for unary mappings in variables_mappings.py)',
        'params': {'f': 'obj:ColorMap'}, 'ghost_params': {'a': 'asg'}, 'modifies': ['self.store'],
        'ensures': ['sat(a, self.store) == (sat(a, old(self.store)) and m_functional(a, f.gid))']},
    (F_, 'FormulaK.new_mapping'): {
        'assumed': 'group allocation contract (C11)',
        'params': {'n': 'int', 'm': 'int', 'label': 'any'},
        'modifies': ['self._numvar'],
        'returns': 'obj:ColorMap',
        'ensures': ['result.owner == self.fid', 'result.n == n', 'result.m == m', 'self._numvar == old(self._numvar) + n * m'],
    },
    ('cnfgen/formula/variables.py', 'ColorMap.__call__'): {
        'assumed': 'group call contract (C11): col(v, c) is the identifier of the pair (v, c), a variable of the formula',
        'params': {}, 'returns': 'int',
        'supports': ['len(index) == 2'], 'requires': ['1 <= index[0] and index[0] <= self.n', '1 <= index[1] and index[1] <= self.m'],
        'ensures': ['result == mvar(self.gid, index[0], index[1])', 'result >= 1'],
    },
    (F_, 'FormulaK.add_clause'): {
        'assumed': 'interface meaning of add_clause (proved for both classes in formula_cnf.py / formula_opb.py)',
        'params': {'clause': 'iseq', 'check': 'bool'},
        'ghost_params': {'a': 'asg'},
        'raises': {'ValueError': 'check and haszero(clause)'},
        'modifies': ['self.store'],
        'ensures': ['sat(a, self.store) == (sat(a, old(self.store)) and ctrue(a, clause))'],
    },
    (K, 'GraphColoringFormula'): {
        'property': ['C02', 'C08'],
        'params': {'G': 'obj:GraphAbs', 'colors': 'int', 'functional': 'bool', 'formula_class': 'class:FormulaK'},
        'ghost_params': {'a': 'asg'},
        'raises': {'ValueError': 'colors < 0'},
        'loops': {
            0: {'ghost_at_entry': {'S0': 'F.store'},
                'inv': ['sat(a, F.store) == (sat(a, S0) and ' + NOCLASH.format(E='_it', C='colors') + ')'],
                'modifies_objects': ['F'], 'modifies_fields': {'F': ['store']}},
            1: {'ghost_at_entry': {'S1': 'F.store'},
                'inv': ['c == 1 + _it',
                        'sat(a, F.store) == (sat(a, S1) and forall(lambda cc: implies(1 <= cc and cc < c, '
                        'not (lit_true(a, mvar(created("ColorMap", 0).gid, v1, cc)) and lit_true(a, mvar(created("ColorMap", 0).gid, v2, cc))))))'],
                'modifies_objects': ['F'], 'modifies_fields': {'F': ['store']}},
        },
        'ensures': [
            'sat(a, result.store) == (m_complete(a, created("ColorMap", 0).gid) and implies(functional, m_functional(a, created("ColorMap", 0).gid)) and '
            + NOCLASH.format(E='G.m', C='colors') + ')',
            'result._numvar == G.n * colors',
            'result.cls == formula_class',
        ],
    },
}
