"""Sidecar contract: DominatingSet, both encodings (C02, C08, C10).

PROVED for every simple graph and every d >= 1, for an arbitrary assignment a (D = the chosen set, M = the slots of its members):
default encoding - a satisfies the formula iff
  * M is an injective, non-decreasing partial mapping V -> [d]            (force_injective / force_nondecreasing),
  * a vertex that holds a slot is chosen:          M[v,i] -> D[v]      for all slots i and vertices v,
  * a chosen vertex holds some slot:               D[v] -> some M[v,.] for every vertex,
  * every closed neighbourhood contains a chosen vertex (domination);
alternative encoding - the first two groups are replaced by
  * two chosen vertices never share a slot:        not (D[u] and D[v] and M[u,i] and M[v,i])   for u < v, all i,
  * a chosen vertex holds at most one slot:        not (D[v] and M[v,i] and M[v,j])            for i < j
- so at most d vertices are chosen and they dominate the graph; V + V*d variables; the empty graph gives the empty formula.
unique_neighborhoods is proved in families_tiling.py.  ASSUMED: group allocation / call contracts (C11), force_* meanings, add_clause (C04).
"""
D_ = 'cnfgen/families/dominatingset.py'
F_ = 'cnfgen/formula/cnf.py'
V_ = 'cnfgen/formula/variables.py'
G_ = 'cnfgen/graphs.py'

CLASSMODELS = {
    'MapD': {'file': V_, 'real': 'UnaryMappingVariables', 'fields': {'gid': 'int', 'n': 'int', 'm': 'int'}},
}
DB, MG = 'created("Block1", 0)', 'created("MapD", 0)'


def dv(v):
    return 'lit_true(a, {}.off + ({}))'.format(DB, v)


def mv(v, i):
    return 'lit_true(a, mvar({}.gid, {}, {}))'.format(MG, v, i)


def share(u, v, i):
    return 'not ({} and {} and {} and {})'.format(dv(u), dv(v), mv(u, i), mv(v, i))


def once(v, i, j):
    return 'not ({} and {} and {})'.format(dv(v), mv(v, i), mv(v, j))


def holds(i, v):
    return 'implies({}, {})'.format(mv(v, i), dv(v))


def slot(v):
    return 'implies({}, count(a, mrow({}.gid, {}, d)) >= 1)'.format(dv(v), MG, v)


def dom(j):
    return 'count(a, ishift(cget(U, {}), {}.off)) >= 1'.format(j, DB)


def acc(prev, text):
    return 'sat(a, F.store) == (sat(a, {}) and {})'.format(prev, text)


FR = {'modifies_objects': ['F'], 'modifies_fields': {'F': ['store', '_numvar']}}
KEEP = ['F._numvar == V + V * d', 'V >= 1', 'd >= 1', 'V == G.n']
SH1 = 'forall(lambda u, v, i: implies(1 <= u and u <= _a and u < v and v <= V and 1 <= i and i <= d, {}))'.format(share('u', 'v', 'i'))
SH2 = 'forall(lambda v, i: implies(_a + 1 < v and v <= _a + 1 + _b and 1 <= i and i <= d, {}))'.format(share('(_a + 1)', 'v', 'i'))
SH3 = 'forall(lambda i: implies(1 <= i and i <= _it, {}))'.format(share('(_a + 1)', '(_a + 2 + _b)', 'i'))
ON1 = 'forall(lambda v, i, j: implies(1 <= v and v <= _c and 1 <= i and i < j and j <= d, {}))'.format(once('v', 'i', 'j'))
ON2 = 'forall(lambda i, j: implies(1 <= i and i <= _e and i < j and j <= d, {}))'.format(once('(_c + 1)', 'i', 'j'))
ON3 = 'forall(lambda j: implies(_e + 1 < j and j <= _e + 1 + _it, {}))'.format(once('(_c + 1)', '(_e + 1)', 'j'))
HO1 = 'forall(lambda i, v: implies(1 <= i and i <= _f and 1 <= v and v <= V, {}))'.format(holds('i', 'v'))
HO2 = 'forall(lambda v: implies(1 <= v and v <= _it, {}))'.format(holds('(_f + 1)', 'v'))


def force(pred):
    return {'assumed': 'meaning of force_{0}_mapping = the relational predicate m_{0} (C04)'.format(pred),
            'params': {'f': 'obj:MapD'}, 'ghost_params': {'a': 'asg'}, 'modifies': ['self.store'],
            'ensures': ['sat(a, self.store) == (sat(a, old(self.store)) and m_{}(a, f.gid))'.format(pred)]}


CONTRACTS = {
    (G_, 'GraphD.vertices'): {'assumed': 'vertices() = 1..n', 'params': {}, 'returns_expr': 'range(1, self.n + 1)'},
    ('cnfgen/localtypes.py', 'positive_int'): {'inline_always': True},
    (F_, 'FormulaD.new_mapping'): {
        'assumed': 'group allocation (C11): n*m fresh variables, each a variable of the formula',
        'params': {'n': 'int', 'm': 'int', 'label': 'any'}, 'requires': ['n >= 0', 'm >= 0'],
        'modifies': ['self._numvar'], 'returns': 'obj:MapD',
        'ensures': ['result.n == n', 'result.m == m', 'self._numvar == old(self._numvar) + n * m',
                    'forall(lambda u, v: implies(1 <= u and u <= n and 1 <= v and v <= m, '
                    '1 <= mvar(result.gid, u, v) and mvar(result.gid, u, v) <= self._numvar), lambda u, v: mvar(result.gid, u, v))']},
    (F_, 'FormulaD.force_injective_mapping'): force('injective'),
    (F_, 'FormulaD.force_nondecreasing_mapping'): force('nondecreasing'),
    (V_, 'MapD.__call__'): {
        'assumed': 'mapping call contract (C11): M(v, None) = the variables of row v in order, M(v, i) = the variable M[v,i]',
        'params': {}, 'supports': ['len(index) == 2', 'index[0] is not None'],
        'requires': ['1 <= index[0] and index[0] <= self.n', 'implies(index[1] is not None, 1 <= index[1] and index[1] <= self.m)'],
        'returns_expr': 'mapcall(self.gid, self.n, self.m, index)'},
    (F_, 'FormulaD.add_clause'): {
        'assumed': 'interface meaning of add_clause (C04)',
        'params': {'clause': 'iseq', 'check': 'bool'}, 'ghost_params': {'a': 'asg'},
        'raises': {'ValueError': 'check and haszero(clause)'}, 'modifies': ['self.store', 'self._numvar'],
        'ensures': ['sat(a, self.store) == (sat(a, old(self.store)) and count(a, clause) >= 1)',
                    'self._numvar == ite(check, zmax(old(self._numvar), maxabs(clause)), old(self._numvar))']},
    (D_, 'DominatingSet'): {
        'property': ['C02', 'C08', 'C10'],
        'params': {'G': 'obj:GraphD', 'd': 'int', 'alternative': 'bool', 'formula_class': 'class:FormulaD'},
        'ghost_params': {'a': 'asg'},
        'raises': {'ValueError': 'd < 1'},
        'loops': {
            0: {'nest': [dict(FR, counter='_a', ghost_at_entry={'S0': 'F.store'}, inv=KEEP + [acc('S0', SH1)]),
                         dict(FR, counter='_b', inv=KEEP + [acc('S0', '({} and {})'.format(SH1, SH2))])]},
            1: dict(FR, inv=KEEP + [acc('S0', '({} and {} and {})'.format(SH1, SH2, SH3))]),
            2: dict(FR, counter='_c', ghost_at_entry={'S2': 'F.store'}, inv=KEEP + [acc('S2', ON1)]),
            3: {'nest': [dict(FR, counter='_e', inv=KEEP + [acc('S2', '({} and {})'.format(ON1, ON2))]),
                         dict(FR, inv=KEEP + [acc('S2', '({} and {} and {})'.format(ON1, ON2, ON3))])]},
            4: dict(FR, counter='_f', ghost_at_entry={'S4': 'F.store'}, inv=KEEP + [acc('S4', HO1)]),
            5: dict(FR, inv=KEEP + [acc('S4', '({} and {})'.format(HO1, HO2))]),
            6: dict(FR, ghost_at_entry={'S6': 'F.store'},
                    inv=KEEP + [acc('S6', 'forall(lambda v: implies(1 <= v and v <= _it, {}))'.format(slot('v')))]),
            7: dict(FR, ghost_at_entry={'S7': 'F.store', 'U': '_iter'},
                    inv=KEEP + [acc('S7', 'forall(lambda j: implies(0 <= j and j < _it, {}))'.format(dom('j')))]),
        },
        'ensures': [
            'implies(G.n == 0, result.store == cnil)',
            'implies(G.n >= 1, sat(a, result.store) == ('
            'ite(alternative, '
            'forall(lambda u, v, i: implies(1 <= u and u < v and v <= G.n and 1 <= i and i <= d, {SH})) and '
            'forall(lambda v, i, j: implies(1 <= v and v <= G.n and 1 <= i and i < j and j <= d, {ON})), '
            'm_injective(a, {m}.gid) and m_nondecreasing(a, {m}.gid) and '
            'forall(lambda i, v: implies(1 <= i and i <= d and 1 <= v and v <= G.n, {HO}))) and '
            'forall(lambda v: implies(1 <= v and v <= G.n, {SL})) and '
            'forall(lambda v: implies(1 <= v and v <= G.n, count(a, ishift(isorted(iapp(isnoc(inil, v), nbrs(G.gid, v))), {db}.off)) >= 1))))'.format(
                SH=share('u', 'v', 'i'), ON=once('v', 'i', 'j'), HO=holds('i', 'v'), SL=slot('v'), m=MG, db=DB),
            'result._numvar == G.n + G.n * d',
            'result.cls == formula_class',
        ],
    },
}
