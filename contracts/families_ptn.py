"""Sidecar contract: PythagoreanTriples (C03, C08, C10).

PROVED for every N, both formula classes, for an arbitrary assignment a (a 2-colouring of 1..N), RELATIVE to isqf(w) = int(math.sqrt(w))
as the float library computes it (floats are not modelled: isqf is an uninterpreted function):
  a satisfies the formula  iff  for all x < y <= N, with z = isqf(x^2 + y^2): if z <= N and z^2 = x^2 + y^2 (squares kept symbolic as sqr(.)) then x, y, z are not all true
  and not all false
- so every clause the formula contains forbids a genuine monochromatic Pythagorean triple (none extra), and every triple whose
hypotenuse the float square root finds is covered; N variables.
NOT PROVED (bounded tier): that int(sqrt(w)) IS the root of every perfect square w in range (true for w < 2^52).
ASSUMED: block allocation / call contract (C11), the interface meaning of add_clause (C04).
"""
R = 'cnfgen/families/ramsey.py'
F_ = 'cnfgen/formula/cnf.py'

CLASSMODELS = {
    'FormulaPT': {'file': F_, 'real': 'CNF', 'fields': {'store': 'mclist', '_numvar': 'int', 'cls': 'int'}},
}
VB = 'created("Block1", 0)'


def lt(x):
    return 'lit_true(a, {}.off + ({}))'.format(VB, x)


def trip(x, y):
    z = 'isqf(sqr({x}) + sqr({y}))'.format(x=x, y=y)
    return ('implies({z} <= N and sqr({z}) == sqr({x}) + sqr({y}), ({a} or {b} or {c}) and not ({a} and {b} and {c}))').format(
        z=z, x=x, y=y, a=lt(x), b=lt(y), c=lt(z))


FR = {'modifies_objects': ['F'], 'modifies_fields': {'F': ['store', '_numvar']}}
KEEP = ['F._numvar == N', 'N >= 0']
T1 = 'forall(lambda x, y: implies(1 <= x and x <= _a and x < y and y <= N, {}))'.format(trip('x', 'y'))
T2 = 'forall(lambda y: implies(_a + 1 < y and y <= _a + 1 + _it, {}))'.format(trip('(_a + 1)', 'y'))

CONTRACTS = {
    (F_, 'FormulaPT.__init__'): {'assumed': 'formula_class(description=...) builds an empty formula of that class', 'params': {'description': 'any'},
                                 'modifies': ['self.store', 'self._numvar'], 'ensures': ['self.store == cnil', 'self._numvar == 0']},
    (F_, 'FormulaPT.new_block'): {
        'assumed': 'group allocation (C11): a one-dimensional block of fresh variables',
        'params': {'label': 'any'}, 'supports': ['len(ranges) == 1'], 'requires': ['ranges[0] >= 0'],
        'modifies': ['self._numvar'], 'returns': 'obj:Block1',
        'ensures': ['result.off == old(self._numvar)', 'result.n == ranges[0]', 'self._numvar == old(self._numvar) + ranges[0]']},
    (F_, 'FormulaPT.add_clause'): {
        'assumed': 'interface meaning of add_clause (C04)',
        'params': {'clause': 'iseq', 'check': 'bool'}, 'ghost_params': {'a': 'asg'},
        'raises': {'ValueError': 'check and haszero(clause)'}, 'modifies': ['self.store', 'self._numvar'],
        'ensures': ['sat(a, self.store) == (sat(a, old(self.store)) and count(a, clause) >= 1)',
                    'self._numvar == ite(check, zmax(old(self._numvar), maxabs(clause)), old(self._numvar))']},
    (R, 'PythagoreanTriples'): {
        'property': ['C03', 'C08', 'C10'],
        'params': {'N': 'int', 'formula_class': 'class:FormulaPT'},
        'ghost_params': {'a': 'asg'},
        'raises': {'ValueError': 'N < 0'},
        'loops': {0: {'nest': [dict(FR, counter='_a', ghost_at_entry={'S0': 'F.store'}, inv=KEEP + ['sat(a, F.store) == (sat(a, S0) and {})'.format(T1)]),
                               dict(FR, inv=KEEP + ['sat(a, F.store) == (sat(a, S0) and {} and {})'.format(T1, T2)])]}},
        'ensures': ['sat(a, result.store) == forall(lambda x, y: implies(1 <= x and x < y and y <= N, {}))'.format(trip('x', 'y')),
                    'result._numvar == N', 'result.cls == formula_class'],
    },
}
