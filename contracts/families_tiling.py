"""Sidecar contract: Tiling over the block call interface and the duplicate-free list of closed neighbourhoods (C02, C08, C10).

PROVED for every simple graph, both formula classes, for an arbitrary assignment a: a satisfies the formula iff for EVERY vertex v
exactly one vertex of its closed neighbourhood N[v] is chosen - an exact cover of the vertices by closed neighbourhoods (a perfect
code); one variable per vertex.
unique_neighborhoods(G) is PROVED to list closed neighbourhoods of vertices only and to miss none (ghost witness functions; `sort()` is
modelled as SOME permutation and `sorted(X)` as a function of X - that the result is duplicate-free, which needs the lexicographic
order, is left to the bounded tier; it does not affect satisfiability).
ASSUMED: the neighbour view of the graph (C16), the block call contract x(v) (C11), the interface meaning of cardinality_eq (C04).
"""
D_ = 'cnfgen/families/dominatingset.py'
F_ = 'cnfgen/formula/cnf.py'
V_ = 'cnfgen/formula/variables.py'
G_ = 'cnfgen/graphs.py'

CLASSMODELS = {
    'FormulaD': {'file': F_, 'real': 'CNF', 'fields': {'store': 'mclist', '_numvar': 'int', 'cls': 'int', 'header': 'opaque'}},
    'GraphD': {'file': G_, 'real': 'Graph', 'fields': {'gid': 'int', 'n': 'int', 'name': 'opaquestr'}, 'invariant': ['self.n >= 0']},
}
XB = 'created("Block1", 0)'
CNB = 'isorted(iapp(isnoc(inil, {v}), nbrs(G.gid, {v})))'       # the closed neighbourhood of v as the code builds it: sorted([v] + neighbours)
ONE = 'count(a, ishift(' + CNB + ', {x}.off)) == 1'

CONTRACTS = {
    (G_, 'GraphD.number_of_vertices'): {'assumed': 'vertex count view', 'params': {}, 'returns_expr': 'self.n'},
    (G_, 'GraphD.neighbors'): {'assumed': 'neighbour view of the graph (C16): refused iff u is not a vertex; the neighbours are vertices of the graph',
                               'params': {'u': 'int'}, 'raises': {'ValueError': 'not (1 <= u and u <= self.n)'}, 'returns': 'iseq',
                               'ensures': ['result == nbrs(self.gid, u)', 'ilen(result) == 0 or (minof(result) >= 1 and maxof(result) <= self.n)']},
    (D_, 'unique_neighborhoods'): {
        'property': ['C02'],
        'params': {'G': 'obj:GraphD'},
        'locals': {'neighborhoods': 'mclist', 'unique': 'mclist'},
        'raises': {},
        'returns': 'cseq',
        # ghost witnesses (all quantifiers universal): R[i] = a position of unique[i] in the sorted list P, W[k] = a position of P[k] in unique
        'ghost_code': [
            ('unique = [neighborhoods[0]]', 'R = lam1(lambda i: 0)\nW = lam1(lambda k: 0)'),
            ('if n != unique[-1]:\n    unique.append(n)',
             'R = lam1(lambda i: ite(i == clen(unique) - 1, _it, R[i]))\nW = lam1(lambda k: ite(k == _it, clen(unique) - 1, W[k]))'),
        ],
        'loops': {
            0: {'inv': ['clen(neighborhoods) == _it', 'n == G.n', 'n >= 1',
                        'forall(lambda j: implies(0 <= j and j < _it, cget(neighborhoods, j) == {}), lambda j: cget(neighborhoods, j))'.format(CNB.format(v='(j + 1)')),
                        'forall(lambda j: implies(0 <= j and j < _it, ilen(cget(neighborhoods, j)) >= 1 and minof(cget(neighborhoods, j)) >= 1 and maxof(cget(neighborhoods, j)) <= G.n), lambda j: cget(neighborhoods, j))',
                        # the same fact, triggered by the vertex
                        'forall(lambda v: implies(1 <= v and v <= _it, cget(neighborhoods, v - 1) == {}), lambda v: nbrs(G.gid, v))'.format(CNB.format(v='v'))]},
            1: {'ghost_at_entry': {'P': 'neighborhoods'},
                'inv': ['clen(unique) >= 1',
                        'forall(lambda k: implies(0 <= k and k < clen(P), ilen(cget(P, k)) >= 1 and minof(cget(P, k)) >= 1 and maxof(cget(P, k)) <= G.n), lambda k: cget(P, k))',
                        'forall(lambda i: implies(0 <= i and i < clen(unique), 0 <= R[i] and R[i] < clen(P) and cget(unique, i) == cget(P, R[i])), lambda i: cget(unique, i))',
                        'forall(lambda k: implies(0 <= k and k < _it, 0 <= W[k] and W[k] < clen(unique) and cget(unique, W[k]) == cget(P, k)), lambda k: cget(P, k))']},
        },
        'ensures': [
            'implies(G.n == 0, clen(result) == 0)',
            # every listed item is a non-empty list of vertices
            'forall(lambda j: implies(0 <= j and j < clen(result), ilen(cget(result, j)) >= 1 and minof(cget(result, j)) >= 1 and maxof(cget(result, j)) <= G.n), lambda j: cget(result, j))',
            'forall(lambda v: implies(1 <= v and v <= G.n, exists(lambda j: 0 <= j and j < clen(result) and cget(result, j) == {})))'.format(CNB.format(v='v')),
            'forall(lambda j: implies(0 <= j and j < clen(result), exists(lambda v: 1 <= v and v <= G.n and cget(result, j) == {})))'.format(CNB.format(v='v')),
        ],
    },
    (F_, 'FormulaD.__init__'): {'assumed': 'formula_class(description=...) builds an empty formula of that class', 'params': {'description': 'any'},
                                'modifies': ['self.store', 'self._numvar'], 'ensures': ['self.store == cnil', 'self._numvar == 0']},
    (F_, 'FormulaD.new_block'): {
        'assumed': 'group allocation (C11): a one-dimensional block of fresh variables',
        'params': {'label': 'any'}, 'supports': ['len(ranges) == 1'], 'requires': ['ranges[0] >= 0'],
        'modifies': ['self._numvar'], 'returns': 'obj:Block1',
        'ensures': ['result.off == old(self._numvar)', 'result.n == ranges[0]', 'self._numvar == old(self._numvar) + ranges[0]']},
    (F_, 'FormulaD.cardinality_eq'): {
        'assumed': 'interface meaning of cardinality_eq (C04)',
        'params': {'lits': 'iseq', 'value': 'int', 'check': 'bool'}, 'ghost_params': {'a': 'asg'},
        'raises': {'ValueError': 'check and haszero(lits)'}, 'modifies': ['self.store', 'self._numvar'],
        'ensures': ['sat(a, self.store) == (sat(a, old(self.store)) and count(a, lits) == value)',
                    'self._numvar == ite(check, zmax(old(self._numvar), maxabs(lits)), old(self._numvar))']},
    (D_, 'Tiling'): {
        'property': ['C02', 'C08', 'C10'],
        'params': {'G': 'obj:GraphD', 'formula_class': 'class:FormulaD'},
        'ghost_params': {'a': 'asg'},
        'raises': {},
        'loops': {0: {'modifies_objects': ['F'], 'modifies_fields': {'F': ['store', '_numvar']},
                      'ghost_at_entry': {'S0': 'F.store', 'U': '_iter'},
                      'inv': ['F._numvar == G.n',
                              'sat(a, F.store) == (sat(a, S0) and forall(lambda j: implies(0 <= j and j < _it, count(a, ishift(cget(U, j), {x}.off)) == 1)))'.format(x=XB)]}},
        'ensures': ['sat(a, result.store) == forall(lambda v: implies(1 <= v and v <= G.n, {}))'.format(ONE.format(v='v', x=XB)),
                    'result._numvar == G.n', 'result.cls == formula_class'],
    },
}
