"""Sidecar contract: Tiling over the block call interface and the duplicate-free list of closed neighbourhoods (C02, C08, C10).

PROVED for every simple graph, both formula classes, for an arbitrary assignment a: a satisfies the formula iff for EVERY vertex v
exactly one vertex of its closed neighbourhood N[v] is chosen - an exact cover of the vertices by closed neighbourhoods (a perfect
code); one variable per vertex.
ASSUMED: unique_neighborhoods(G) lists closed neighbourhoods of vertices only and misses none (its sort / de-duplication code is
not interpreted: bounded tier), the block call contract x(v) (C11), the interface meaning of cardinality_eq (C04).
"""
D_ = 'cnfgen/families/dominatingset.py'
F_ = 'cnfgen/formula/cnf.py'
V_ = 'cnfgen/formula/variables.py'
G_ = 'cnfgen/graphs.py'

CLASSMODELS = {
    'FormulaD': {'file': F_, 'real': 'CNF', 'fields': {'store': 'mclist', '_numvar': 'int', 'cls': 'int', 'header': 'opaque'}},
    'GraphD': {'file': G_, 'real': 'Graph', 'fields': {'gid': 'int', 'n': 'int', 'name': 'opaquestr'}, 'invariant': ['self.n >= 0']},
}
XB = 'created("Block1", 0)'
ONE = 'count(a, ishift(cnb(G.gid, {v}), {x}.off)) == 1'

CONTRACTS = {
    (G_, 'GraphD.number_of_vertices'): {'assumed': 'vertex count view', 'params': {}, 'returns_expr': 'self.n'},
    (D_, 'unique_neighborhoods'): {
        'assumed': 'the duplicate-free list of closed neighbourhoods: every listed item is the closed neighbourhood of a vertex, every vertex\'s is listed '
                   '(sort and de-duplication not interpreted; bounded tier)',
        'params': {'G': 'obj:GraphD'}, 'returns': 'cseq',
        'ensures': ['forall(lambda v: implies(1 <= v and v <= G.n, 0 <= nbj(G.gid, v) and nbj(G.gid, v) < clen(result) and cget(result, nbj(G.gid, v)) == cnb(G.gid, v)), '
                    'lambda v: cnb(G.gid, v))',
                    'forall(lambda j: implies(0 <= j and j < clen(result), 1 <= nbv(G.gid, j) and nbv(G.gid, j) <= G.n and cget(result, j) == cnb(G.gid, nbv(G.gid, j))), '
                    'lambda j: cget(result, j))',
                    'forall(lambda v: implies(1 <= v and v <= G.n, ilen(cnb(G.gid, v)) >= 1 and minof(cnb(G.gid, v)) >= 1 and maxof(cnb(G.gid, v)) <= G.n), '
                    'lambda v: cnb(G.gid, v))']},
    (F_, 'FormulaD.__init__'): {'assumed': 'formula_class(description=...) builds an empty formula of that class', 'params': {'description': 'any'},
                                'modifies': ['self.store', 'self._numvar'], 'ensures': ['self.store == cnil', 'self._numvar == 0']},
    (F_, 'FormulaD.new_block'): {
        'assumed': 'group allocation (C11): a one-dimensional block of fresh variables',
        'params': {'label': 'any'}, 'supports': ['len(ranges) == 1'], 'requires': ['ranges[0] >= 0'],
        'modifies': ['self._numvar'], 'returns': 'obj:Block1',
        'ensures': ['result.off == old(self._numvar)', 'result.n == ranges[0]', 'self._numvar == old(self._numvar) + ranges[0]']},
    (F_, 'FormulaD.cardinality_eq'): {
        'assumed': 'interface meaning of cardinality_eq (C04)',
        'params': {'lits': 'iseq', 'value': 'int', 'check': 'bool'}, 'ghost_params': {'a': 'asg'},
        'raises': {'ValueError': 'check and haszero(lits)'}, 'modifies': ['self.store', 'self._numvar'],
        'ensures': ['sat(a, self.store) == (sat(a, old(self.store)) and count(a, lits) == value)',
                    'self._numvar == ite(check, zmax(old(self._numvar), maxabs(lits)), old(self._numvar))']},
    (D_, 'Tiling'): {
        'property': ['C02', 'C08', 'C10'],
        'params': {'G': 'obj:GraphD', 'formula_class': 'class:FormulaD'},
        'ghost_params': {'a': 'asg'},
        'raises': {},
        'loops': {0: {'modifies_objects': ['F'], 'modifies_fields': {'F': ['store', '_numvar']},
                      'ghost_at_entry': {'S0': 'F.store', 'U': '_iter'},
                      'inv': ['F._numvar == G.n',
                              'sat(a, F.store) == (sat(a, S0) and forall(lambda j: implies(0 <= j and j < _it, count(a, ishift(cget(U, j), {x}.off)) == 1)))'.format(x=XB)]}},
        'ensures': ['sat(a, result.store) == forall(lambda v: implies(1 <= v and v <= G.n, {}))'.format(ONE.format(v='v', x=XB)),
                    'result._numvar == G.n', 'result.cls == formula_class'],
    },
}
