"""Sidecar contracts: DAG constructions of cnfgen/graphs.py (C15a, C16 acyclicity clause, C18 hazards)
and _vdw_ap_generator (C03a)."""
G = 'cnfgen/graphs.py'

CLASSMODELS = {
    # abstract view used by the constructions: vertex count and the acyclicity flag.
    'DirectedGraph': {'file': G, 'fields': {'n': 'int', 'still_a_dag': 'bool', 'nedges_added': 'int', 'edgeset': 'pairset', 'm': 'int'}},
}

CONTRACTS = {
    (G, 'DirectedGraph.__init__'): {
        'trusted': 'contract of the constructor as read from the code: n vertices, no edge, acyclic flag set',
        'params': {'n': 'int', 'name': 'str'},
        'requires': ['n >= 0'],
        'modifies': ['self.n', 'self.still_a_dag', 'self.nedges_added', 'self.edgeset', 'self.m'],
        'ensures': ['self.n == n', 'self.still_a_dag', 'self.nedges_added == 0', 'self.m == 0',
                    'forall(lambda x, y: not ((x, y) in self.edgeset))'],
    },
    (G, 'DirectedGraph.add_edge'): {
        # add_edge refuses out-of-range vertices with ValueError: constructions must never trigger it,
        # so it is a precondition at their call sites (C15: "not with an internal failure").
        'assumed': 'abstract view of DirectedGraph.add_edge (is_dag flag, number of add_edge calls); checked against the real code in C16',
        'params': {'src': 'int', 'dest': 'int'},
        'requires': ['1 <= src', 'src <= self.n', '1 <= dest', 'dest <= self.n'],
        'modifies': ['self.still_a_dag', 'self.nedges_added', 'self.edgeset', 'self.m'],
        'ensures': ['self.still_a_dag == (old(self.still_a_dag) and src < dest)',
                    'self.nedges_added == old(self.nedges_added) + 1',
                    # the abstract edge set and the number of DISTINCT edges, exactly as proved for the real add_edge (graphs_adt.py)
                    'forall(lambda x, y: ((x, y) in self.edgeset) == (((x, y) in old(self.edgeset)) or (x == src and y == dest)))',
                    'self.m == old(self.m) + ite((src, dest) in old(self.edgeset), 0, 1)'],
    },
    (G, 'dag_path'): {
        'property': ['C15', 'C16'],
        'params': {'length': 'int'},
        'raises': {'ValueError': 'length < 0'},
        'loops': {0: {'inv': ['D.still_a_dag', 'D.nedges_added == _it', 'D.m == _it',    # loop-constant facts (D.n) persist by themselves
                              'forall(lambda x, y: ((x, y) in D.edgeset) == (1 <= x and x <= _it and y == x + 1))'],
                      'modifies_objects': ['D'], 'modifies_fields': {'D': ['still_a_dag', 'nedges_added', 'edgeset', 'm']}}},
        # the documented graph: vertices 1..length+1, exactly the edges (i, i+1) - `length` distinct edges
        'ensures': ['result.n == length + 1', 'result.still_a_dag', 'result.nedges_added == length', 'result.m == length',
                    'forall(lambda x, y: ((x, y) in result.edgeset) == (1 <= x and x <= length and y == x + 1))'],
    },
    (G, 'dag_pyramid'): {
        'property': ['C15', 'C16'],
        'params': {'height': 'int'},
        'raises': {'ValueError': 'height < 0'},
        'loops': {
            0: {'inv': ['D.still_a_dag',
                        '1 <= layer', 'layer <= height + 1',
                        '2 * leftsrc == 2 + 2 * (layer - 1) * (height + 1) - (layer - 1) * (layer - 2)',
                        '2 * dest == 2 + 2 * layer * (height + 1) - layer * (layer - 1)',
                        '2 * D.nedges_added == 2 * (layer - 1) * (2 * height + 2 - layer)',
                        # every insertion so far was a NEW edge: all existing edges end below the next destination
                        'D.m == D.nedges_added', 'forall(lambda x, y: implies((x, y) in D.edgeset, y < dest))'],
                'modifies_objects': ['D'], 'modifies_fields': {'D': ['still_a_dag', 'nedges_added', 'edgeset', 'm']}},
            1: {'inv': ['D.still_a_dag',
                        '1 <= layer', 'layer <= height',
                        '2 * leftsrc == 2 + 2 * (layer - 1) * (height + 1) - (layer - 1) * (layer - 2) + 2 * _it',
                        '2 * dest == 2 + 2 * layer * (height + 1) - layer * (layer - 1) + 2 * _it',
                        '2 * D.nedges_added == 2 * (layer - 1) * (2 * height + 2 - layer) + 4 * _it',
                        'D.m == D.nedges_added', 'forall(lambda x, y: implies((x, y) in D.edgeset, y < dest))'],
                'modifies_objects': ['D'], 'modifies_fields': {'D': ['still_a_dag', 'nedges_added', 'edgeset', 'm']}},
        },
        'ensures': ['2 * result.n == (height + 1) * (height + 2)', 'result.still_a_dag',
                    'result.nedges_added == height * (height + 1)',
                    'result.m == height * (height + 1)'],       # the documented number of (distinct) edges
    },
    (G, 'dag_complete_binary_tree'): {
        'property': ['C15', 'C16'],
        'params': {'height': 'int'},
        'raises': {'ValueError': 'height < 0'},
        'loops': {0: {'inv': ['D.still_a_dag',
                              'leftsrc == 1 + 2 * _it', 'dest == pow2(height) + 1 + _it', 'D.nedges_added == 2 * _it',
                              'D.m == 2 * _it', 'forall(lambda x, y: implies((x, y) in D.edgeset, y < pow2(height) + 1 + _it))'],
                      'modifies_objects': ['D'], 'modifies_fields': {'D': ['still_a_dag', 'nedges_added', 'edgeset', 'm']}}},
        'ensures': ['result.n == 2 * pow2(height) - 1', 'result.still_a_dag', 'result.nedges_added == 2 * pow2(height) - 2',
                    'result.m == 2 * pow2(height) - 2'],        # the documented number of (distinct) edges
    },
    ('cnfgen/localtypes.py', 'non_negative_int'): {'inline_always': True},
    ('cnfgen/families/ramsey.py', '_vdw_ap_generator'): {
        'property': ['C03', 'C18'],
        'params': {'N': 'int', 'k': 'int'},
        'requires': ['N >= 0', 'k >= 1'],
        # C03: "exactly the axioms the documentation lists, none missing and none extra": the progressions of length k inside
        # 1..N are the pairs (start i >= 1, difference d >= 1) with i + d*(k-1) <= N (k >= 2), resp. the numbers 1..N (k == 1).
        # Shape per yield, identity of the yield (start = iteration number, difference = d), and - at each loop exit - that the
        # loop made exactly as many iterations as there are valid starts / differences: none missing.
        # no invariant is needed: loop variables are bound by the loops themselves and everything else is loop-constant; the
        # t-th iteration of each loop is identified through the loop counters (_it / _itd / _iti), not through program variables
        'loops': {0: {'inv': [], 'exit_ensures': ['_it == N']},
                  1: {'inv': [], 'counter': '_itd',
                      # every difference d >= 1 with 1 + d*(k-1) <= N was used, and no other
                      'exit_ensures': ['_itd >= 0', '1 + (_itd + 1) * (k - 1) > N', 'implies(_itd >= 1, 1 + _itd * (k - 1) <= N)']},
                  2: {'inv': [], 'counter': '_iti',
                      # every start i >= 1 with i + d*(k-1) <= N was used, and no other
                      'exit_ensures': ['_iti == N - (1 + _itd) * (k - 1)', '_iti >= 1']}},
        # the same statement as a value, for the callers (VanDerWaerden): the sequence of the yielded progressions
        'value_form': 'the value of _vdw_ap_generator(N, k) at a call site is the sequence aps(N, k) of the lists its proved yield clauses describe (correspondence by reading)',
        'returns_expr': 'aps(N, k)',
        'value_facts': ['forall(lambda j: implies(0 <= j and j < clen(aps(N, k)), ilen(cget(aps(N, k), j)) == k and '
                        'minof(cget(aps(N, k), j)) >= 1 and maxof(cget(aps(N, k), j)) <= N), lambda j: cget(aps(N, k), j))'],
        'yields_at': {
            0: ['len(yielded) == 1', 'yielded[0] == 1 + _it', 'yielded[0] <= N'],
            1: ['len(yielded) == k', 'yielded[k - 1] <= N',
                'forall(lambda t: implies(0 <= t and t < k, yielded[t] == (1 + _iti) + (1 + _itd) * t))'],
        },
    },
}
