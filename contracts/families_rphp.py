"""Sidecar contract: RelativizedPigeonholePrinciple over the mapping / block call interface (C01, C08, C10).

PROVED for all numbers of pigeons U, resting places V and holes W, both formula classes, for an arbitrary assignment a:
a satisfies the formula iff ALL of the documented axioms hold - none missing, none extra -
  (a) every pigeon u has a resting place:                       some p[u,v] is true
  (b) no resting place takes two pigeons:                        at most one p[u,v] per v
  (c) a used resting place is active:                            p[u,v] -> r[v]
  (d) an active resting place sends its pigeon on to a hole:     r[v] -> some q[v,w]
  (e) two active resting places do not use the same hole:        not (r[v1] and r[v2] and q[v1,w] and q[v2,w]) for v1 < v2
with U*V + V*W + V variables.  The loops over product(...) / combinations(..., 2) are verified as the nested range loops
they are equivalent to (conformance cases prod_count / comb_gaps).
ASSUMED: the mapping / block call contracts (p(u, None) lists the variables p[u,1..V], p(None, v) lists p[1..U,v], p(u, v) is
p[u,v]: identifiers of the formula; C11), group allocation, the interface meaning of add_clause / cardinality_leq (C04).
"""
P = 'cnfgen/families/pigeonhole.py'
F_ = 'cnfgen/formula/cnf.py'
V_ = 'cnfgen/formula/variables.py'

CLASSMODELS = {
    'MapR': {'file': V_, 'real': 'UnaryMappingVariables', 'fields': {'gid': 'int', 'n': 'int', 'm': 'int'}},
    'FormulaR': {'file': F_, 'real': 'CNF', 'fields': {'store': 'mclist', '_numvar': 'int', 'cls': 'int', 'header': 'opaque'}},
}

ROW = 'mrow({g}, {u}, {m})'       # the variables of row u, in order
COL = 'mcol({g}, {v}, {n})'       # the variables of column v, in order
PG, QG = 'created("MapR", 0)', 'created("MapR", 1)'
RB = 'created("Block1", 0)'

def ax_a(u, V='V'):
    return 'count(a, {}) >= 1'.format(ROW.format(g=PG + '.gid', u=u, m=V))


def ax_b(v, U='U'):
    return 'count(a, {}) <= 1'.format(COL.format(g=PG + '.gid', v=v, n=U))


def ax_c(v, u):
    return 'implies(lit_true(a, mvar({p}.gid, {u}, {v})), lit_true(a, {r}.off + ({v})))'.format(p=PG, r=RB, u=u, v=v)


def ax_d(v, W='W'):
    return 'implies(lit_true(a, {r}.off + ({v})), count(a, {row}) >= 1)'.format(r=RB, v=v, row=ROW.format(g=QG + '.gid', u=v, m=W))


def ax_e(w, v1, v2):
    return ('not (lit_true(a, {r}.off + ({v1})) and lit_true(a, {r}.off + ({v2})) and lit_true(a, mvar({q}.gid, {v1}, {w})) and '
            'lit_true(a, mvar({q}.gid, {v2}, {w})))').format(r=RB, q=QG, w=w, v1=v1, v2=v2)


def acc(prev, text):
    """invariant shape: the store means (store at loop entry) and (the quantified axiom so far)"""
    return 'sat(a, rphp.store) == (sat(a, {}) and {})'.format(prev, text)


FRAME = {'modifies_objects': ['rphp'], 'modifies_fields': {'rphp': ['store', '_numvar']}}
KEEP = ['rphp._numvar == U * V + V * W + ite(V > 0, V, 0)']

CONTRACTS = {
    (F_, 'FormulaR.__init__'): {
        'assumed': 'formula_class() builds an empty formula of that class', 'params': {},
        'modifies': ['self.store', 'self._numvar'], 'ensures': ['self.store == cnil', 'self._numvar == 0']},
    (F_, 'FormulaR.new_mapping'): {
        'assumed': 'group allocation (C11): n*m fresh variables; every p[u,v] with u in 1..n, v in 1..m is a variable of the formula',
        'params': {'n': 'int', 'm': 'int', 'label': 'any'}, 'requires': ['n >= 0', 'm >= 0'],
        'modifies': ['self._numvar'], 'returns': 'obj:MapR',
        'ensures': ['result.n == n', 'result.m == m', 'self._numvar == old(self._numvar) + n * m',
                    'forall(lambda u, v: implies(1 <= u and u <= n and 1 <= v and v <= m, '
                    '1 <= mvar(result.gid, u, v) and mvar(result.gid, u, v) <= self._numvar), lambda u, v: mvar(result.gid, u, v))']},
    (F_, 'FormulaR.new_block'): {
        'assumed': 'group allocation (C11): a one-dimensional block of fresh variables',
        'params': {'label': 'any'}, 'supports': ['len(ranges) == 1'], 'requires': ['ranges[0] >= 0'],
        'modifies': ['self._numvar'], 'returns': 'obj:Block1',
        'ensures': ['result.off == old(self._numvar)', 'result.n == ranges[0]', 'self._numvar == old(self._numvar) + ranges[0]']},
    (V_, 'MapR.domain'): {'assumed': 'domain() = 1..n', 'params': {'v': 'none'}, 'returns_expr': 'range(1, self.n + 1)'},
    (V_, 'MapR.range'): {'assumed': 'range() = 1..m', 'params': {'u': 'none'}, 'returns_expr': 'range(1, self.m + 1)'},
    (V_, 'MapR.__call__'): {
        'assumed': 'mapping call contract (C11): p(u, None) = row u, p(None, v) = column v, p(u, v) = the variable p[u,v]',
        'params': {}, 'supports': ['len(index) == 2', 'not (index[0] is None and index[1] is None)'],
        'requires': ['implies(index[0] is not None, 1 <= index[0] and index[0] <= self.n)',
                     'implies(index[1] is not None, 1 <= index[1] and index[1] <= self.m)'],
        'returns_expr': 'mapcall(self.gid, self.n, self.m, index)'},
    (F_, 'FormulaR.add_clause'): {
        'assumed': 'interface meaning of add_clause (C04)',
        'params': {'clause': 'iseq', 'check': 'bool'}, 'ghost_params': {'a': 'asg'},
        'raises': {'ValueError': 'check and haszero(clause)'}, 'modifies': ['self.store', 'self._numvar'],
        'ensures': ['sat(a, self.store) == (sat(a, old(self.store)) and count(a, clause) >= 1)',
                    'self._numvar == ite(check, zmax(old(self._numvar), maxabs(clause)), old(self._numvar))']},
    (F_, 'FormulaR.cardinality_leq'): {
        'assumed': 'interface meaning of cardinality_leq (C04)',
        'params': {'lits': 'iseq', 'value': 'int', 'check': 'bool'}, 'ghost_params': {'a': 'asg'},
        'raises': {'ValueError': 'check and haszero(lits)'}, 'modifies': ['self.store', 'self._numvar'],
        'ensures': ['sat(a, self.store) == (sat(a, old(self.store)) and count(a, lits) <= value)',
                    'self._numvar == ite(check, zmax(old(self._numvar), maxabs(lits)), old(self._numvar))']},
    (P, 'RelativizedPigeonholePrinciple'): {
        'property': ['C01', 'C08', 'C10'],
        'params': {'pigeons': 'int', 'resting_places': 'int', 'holes': 'int', 'formula_class': 'class:FormulaR'},
        'ghost_params': {'a': 'asg'},
        'raises': {'ValueError': 'pigeons < 0 or resting_places < 0 or holes < 0'},
        'loops': {
            0: dict(FRAME, ghost_at_entry={'S0': 'rphp.store'},
                    inv=KEEP + [acc('S0', 'forall(lambda u: implies(1 <= u and u <= _it, {}))'.format(ax_a('u')))]),
            1: dict(FRAME, ghost_at_entry={'S1': 'rphp.store'},
                    inv=KEEP + [acc('S1', 'forall(lambda v: implies(1 <= v and v <= _it, {}))'.format(ax_b('v')))]),
            2: {'nest': [
                dict(FRAME, counter='_iv', ghost_at_entry={'S2': 'rphp.store'},
                     inv=KEEP + [acc('S2', 'forall(lambda v, u: implies(1 <= v and v <= _iv and 1 <= u and u <= U, {}))'.format(ax_c('v', 'u')))]),
                dict(FRAME, inv=KEEP + [acc('S2', '(forall(lambda v, u: implies(1 <= v and v <= _iv and 1 <= u and u <= U, {c})) and '
                                                  'forall(lambda u: implies(1 <= u and u <= _it, {cv})))'.format(c=ax_c('v', 'u'), cv=ax_c('_iv + 1', 'u')))]),
            ]},
            3: dict(FRAME, ghost_at_entry={'S3': 'rphp.store'},
                    inv=KEEP + [acc('S3', 'forall(lambda v: implies(1 <= v and v <= _it, {}))'.format(ax_d('v')))]),
            4: {'nest': [
                dict(FRAME, counter='_iw', ghost_at_entry={'S4': 'rphp.store'},
                     inv=KEEP + [acc('S4', 'forall(lambda w, v1, v2: implies(1 <= w and w <= _iw and 1 <= v1 and v1 < v2 and v2 <= V, {}))'.format(ax_e('w', 'v1', 'v2')))]),
                dict(FRAME, counter='_i1',
                     inv=KEEP + [acc('S4', '(forall(lambda w, v1, v2: implies(1 <= w and w <= _iw and 1 <= v1 and v1 < v2 and v2 <= V, {e})) and '
                                           'forall(lambda v1, v2: implies(1 <= v1 and v1 <= _i1 and v1 < v2 and v2 <= V, {ew})))'.format(
                                               e=ax_e('w', 'v1', 'v2'), ew=ax_e('_iw + 1', 'v1', 'v2')))]),
                dict(FRAME,
                     inv=KEEP + [acc('S4', '(forall(lambda w, v1, v2: implies(1 <= w and w <= _iw and 1 <= v1 and v1 < v2 and v2 <= V, {e})) and '
                                           'forall(lambda v1, v2: implies(1 <= v1 and v1 <= _i1 and v1 < v2 and v2 <= V, {ew})) and '
                                           'forall(lambda v2: implies(_i1 + 1 < v2 and v2 <= _i1 + 1 + _it, {ewv})))'.format(
                                               e=ax_e('w', 'v1', 'v2'), ew=ax_e('_iw + 1', 'v1', 'v2'), ewv=ax_e('_iw + 1', '_i1 + 1', 'v2')))]),
            ]},
        },
        'ensures': [
            'sat(a, result.store) == ('
            'forall(lambda u: implies(1 <= u and u <= pigeons, {A})) and forall(lambda v: implies(1 <= v and v <= resting_places, {B})) and '
            'forall(lambda v, u: implies(1 <= v and v <= resting_places and 1 <= u and u <= pigeons, {C})) and '
            'forall(lambda v: implies(1 <= v and v <= resting_places, {D})) and '
            'forall(lambda w, v1, v2: implies(1 <= w and w <= holes and 1 <= v1 and v1 < v2 and v2 <= resting_places, {E})))'.format(
                A=ax_a('u', 'resting_places'), B=ax_b('v', 'pigeons'), C=ax_c('v', 'u'), D=ax_d('v', 'holes'), E=ax_e('w', 'v1', 'v2')),
            'result._numvar == pigeons * resting_places + resting_places * holes + resting_places',
            'result.cls == formula_class',
        ],
    },
}
