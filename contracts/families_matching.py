"""Sidecar contracts: PerfectMatchingPrinciple and SubsetCardinalityFormula over the builder interface (C01, C08, C10).

Both families are loops of cardinality builders over the incidence lists of an edge-variable group.
PROVED, for every graph / bipartite graph, flag and formula class, for an arbitrary assignment a:
  * PerfectMatchingPrinciple: a satisfies the formula iff EVERY vertex 1..n has exactly one true incident edge variable;
  * SubsetCardinalityFormula: a satisfies the formula iff every left vertex has at least half (exactly ceil(deg/2) with
    equalities) and every right vertex at most half (exactly floor(deg/2)) of its incident edge variables true - the threshold
    arithmetic (ceil / floor of the degree) is part of what is proved;
  * one variable per edge, the requested formula class.
ASSUMED: the group call contract of the edge groups (e(u, None) / e(None, v) are the incident edge variables, non-zero
identifiers of the formula; C11 bounded tier), the degree views of the graph (C16), and the interface meaning of the builders
(proved for both classes in formula_cnf.py / formula_opb.py: C04).
"""
M = 'cnfgen/families/counting.py'
S = 'cnfgen/families/subsetcardinality.py'
F_ = 'cnfgen/formula/cnf.py'
G_ = 'cnfgen/graphs.py'
V_ = 'cnfgen/formula/variables.py'

CLASSMODELS = {
    # an edge-variable group: identity, the graph it was built from
    'EdgeVars': {'file': V_, 'real': 'GraphEdgesVariables', 'fields': {'gid': 'int', 'n': 'int', 'm': 'int', 'nv': 'int', 'graph': 'int'}},
    'FormulaM': {'file': F_, 'real': 'CNF', 'fields': {'store': 'mclist', '_numvar': 'int', 'cls': 'int'}},
}


def builder(meaning, params):
    return {
        'assumed': 'interface meaning of the builder (proved for both classes: C04)',
        'params': params, 'ghost_params': {'a': 'asg'},
        'raises': {'ValueError': 'check and haszero(lits)'},
        'modifies': ['self.store'],
        'ensures': ['sat(a, self.store) == (sat(a, old(self.store)) and ({}))'.format(meaning)],
    }


CONTRACTS = {
    (F_, 'FormulaM.__init__'): {
        'assumed': 'formula_class(description=...) builds an empty formula of that class',
        'params': {'description': 'any'}, 'modifies': ['self.store', 'self._numvar'],
        'ensures': ['self.store == cnil', 'self._numvar == 0']},
    (F_, 'FormulaM.cardinality_eq'): builder('count(a, lits) == value', {'lits': 'iseq', 'value': 'int', 'check': 'bool'}),
    (F_, 'FormulaM.add_loose_majority'): builder('2 * count(a, lits) >= ilen(lits)', {'lits': 'iseq', 'check': 'bool'}),
    (F_, 'FormulaM.add_loose_minority'): builder('2 * count(a, lits) <= ilen(lits)', {'lits': 'iseq', 'check': 'bool'}),
    (F_, 'FormulaM.new_graph_edges'): {
        'assumed': 'group allocation (C11): one fresh variable per edge of the graph',
        'params': {'G': 'obj:GraphAbs', 'label': 'any'}, 'modifies': ['self._numvar'], 'returns': 'obj:EdgeVars',
        'ensures': ['result.n == G.n', 'result.m == 0', 'result.nv == G.m', 'result.graph == G.gid', 'self._numvar == old(self._numvar) + G.m']},
    (F_, 'FormulaM.new_bipartite_edges'): {
        'assumed': 'group allocation (C11): one fresh variable per edge of the bipartite graph',
        'params': {'G': 'obj:BipartiteGraph', 'label': 'any'}, 'modifies': ['self._numvar'], 'returns': 'obj:EdgeVars',
        'ensures': ['result.n == G.lorder', 'result.m == G.rorder', 'result.nv == gnedges(G.gid)', 'result.graph == G.gid',
                    'self._numvar == old(self._numvar) + gnedges(G.gid)']},
    (V_, 'EdgeVars.__call__'): {
        'assumed': 'group call contract (C11): e(u, None) / e(None, v) are the variables of the edges at u / at v, non-zero identifiers',
        'params': {}, 'returns': 'iseq',
        'supports': ['len(index) == 2', '(index[0] is None) != (index[1] is None)'],
        'requires': [
                     'implies(index[1] is None, 1 <= index[0] and index[0] <= self.n)',
                     'implies(index[0] is None, 1 <= index[1] and index[1] <= self.m)'],
        'ensures': ['implies(index[1] is None, result == rowlits(self.gid, index[0]))',
                    'implies(index[0] is None, result == collits(self.gid, index[1]))',
                    # as many variables as the vertex has neighbours in the graph the group was built from
                    'implies(index[1] is None, ilen(result) == bdegl(self.graph, index[0]))',
                    'implies(index[0] is None, ilen(result) == bdegr(self.graph, index[1]))',
                    'not haszero(result)']},
    (G_, 'GraphAbs.vertices'): {'assumed': 'vertices() = 1..n', 'params': {}, 'returns_expr': 'range(1, self.n + 1)'},
    (G_, 'BipartiteGraph.parts'): {'assumed': 'parts() = (1..L, 1..R)', 'params': {},
                                   'returns_expr': '(range(1, self.lorder + 1), range(1, self.rorder + 1))'},
    (G_, 'BipartiteGraph.right_degree'): {
        'assumed': 'degree view (C16): the number of neighbours of left vertex u',
        'params': {'u': 'int'}, 'raises': {'ValueError': 'not (1 <= u and u <= self.lorder)'}, 'returns': 'int',
        'ensures': ['result == bdegl(self.gid, u)', 'result >= 0']},
    (G_, 'BipartiteGraph.left_degree'): {
        'assumed': 'degree view (C16): the number of neighbours of right vertex v', 'params': {'v': 'int'},
        'raises': {'ValueError': 'not (1 <= v and v <= self.rorder)'}, 'returns': 'int',
        'ensures': ['result == bdegr(self.gid, v)', 'result >= 0']},
    (M, 'PerfectMatchingPrinciple'): {
        'property': ['C01', 'C08', 'C10'],
        'params': {'G': 'obj:GraphAbs', 'formula_class': 'class:FormulaM'},
        'ghost_params': {'a': 'asg'},
        'raises': {},
        'loops': {0: {'ghost_at_entry': {'S0': 'F.store'},
                      'inv': ['sat(a, F.store) == (sat(a, S0) and forall(lambda w: implies(1 <= w and w <= _it, '
                              'count(a, rowlits(created("EdgeVars", 0).gid, w)) == 1)))'],
                      'modifies_objects': ['F'], 'modifies_fields': {'F': ['store']}}},
        'ensures': [
            'sat(a, result.store) == forall(lambda w: implies(1 <= w and w <= G.n, count(a, rowlits(created("EdgeVars", 0).gid, w)) == 1))',
            'result._numvar == G.m', 'result.cls == formula_class'],
    },
    (S, 'SubsetCardinalityFormula'): {
        'property': ['C01', 'C08', 'C10'],
        'params': {'B': 'obj:BipartiteGraph', 'equalities': 'bool', 'formula_class': 'class:FormulaM'},
        'ghost_params': {'a': 'asg'},
        'raises': {},
        'loops': {0: {'ghost_at_entry': {'S0': 'F.store'},
                      'inv': ['sat(a, F.store) == (sat(a, S0) and forall(lambda w: implies(1 <= w and w <= _it, LEFT)))'],
                      'modifies_objects': ['F'], 'modifies_fields': {'F': ['store']}},
                  1: {'ghost_at_entry': {'S1': 'F.store'},
                      'inv': ['sat(a, F.store) == (sat(a, S1) and forall(lambda w: implies(1 <= w and w <= _it, RIGHT)))'],
                      'modifies_objects': ['F'], 'modifies_fields': {'F': ['store']}}},
        'ensures': [
            'sat(a, result.store) == (forall(lambda w: implies(1 <= w and w <= B.lorder, LEFT)) and '
            'forall(lambda w: implies(1 <= w and w <= B.rorder, RIGHT)))',
            'result._numvar == gnedges(B.gid)', 'result.cls == formula_class'],
    },
}
LEFT = ('ite(equalities, count(a, rowlits(EG, w)) == (ilen(rowlits(EG, w)) + 1) // 2, 2 * count(a, rowlits(EG, w)) >= ilen(rowlits(EG, w)))')
RIGHT = ('ite(equalities, count(a, collits(EG, w)) == ilen(collits(EG, w)) // 2, 2 * count(a, collits(EG, w)) <= ilen(collits(EG, w)))')
_c = CONTRACTS[(S, 'SubsetCardinalityFormula')]
for _k in (0, 1):
    _c['loops'][_k]['inv'] = [t.replace('LEFT', LEFT).replace('RIGHT', RIGHT).replace('EG', 'created("EdgeVars", 0).gid') for t in _c['loops'][_k]['inv']]
_c['ensures'] = [t.replace('LEFT', LEFT).replace('RIGHT', RIGHT).replace('EG', 'created("EdgeVars", 0).gid') for t in _c['ensures']]
