"""Sidecar contracts for the gadget closures of cnfgen/transformations/substitutions.py  (C05 layer 1, C10).

For a literal `lit` of the original formula and arity k, block(v) = [(v-1)k+1 .. vk] = apseq((v-1)*k+1, k).
Each closure must return a CNF whose models are exactly the assignments a for which the gadget applied
to block(|lit|) makes `lit` true, using only variables of that block (<= |lit|*k, no zero literal).
Composition into the whole transformation: Lean L8 (Dist.lean) + L9 (Subst.lean); the structure of
apply_substitution itself (table + cartesian product) is decided by the bounded tier.
"""
S = 'cnfgen/transformations/substitutions.py'
C = 'cnfgen/formula/cnf.py'

CLASSMODELS = {
    'CNF': {'file': C, 'fields': {'_clauses': 'mclist', '_numvar': 'int', 'header': 'opaque'}},
    # abstract bipartite graph: identity `gid`, sizes; neighbour lists are the spec function rnbrs(gid, u)
    'BipartiteGraph': {'file': 'cnfgen/graphs.py', 'fields': {'gid': 'int', 'lorder': 'int', 'rorder': 'int'},
                       'invariant': ['self.lorder >= 0', 'self.rorder >= 0']},
}

BLOCK = 'apseq((abs(lit) - 1) * k + 1, k)'


def gadget(meaning_pos, closure_vars=None, extra_requires=()):
    return {
        'property': ['C05', 'C10'],
        'params': {'lit': 'int'},
        'closure_vars': dict({'k': 'int'}, **(closure_vars or {})),
        'ghost_params': {'a': 'asg'},
        'requires': ['lit != 0', 'k >= 1'] + list(extra_requires),
        'raises': {},
        'ensures': [
            'sat(a, asclauses(result)) == (({}) == (lit > 0))'.format(meaning_pos),
            'cmaxabs(asclauses(result)) <= abs(lit) * k', 'not chaszero(asclauses(result))',
        ],
    }


CONTRACTS = {
    (C, 'CNF.__init__'): {
        # proved: the constructor chain CNF -> CNFLinear -> BaseCNF (+ VariablesManager) yields the empty formula over
        # zero variables when no clauses are given (header handling is opaque)
        'property': ['C10', 'C05'],
        'params': {'self': 'newobj:CNF', 'clauses': 'none', 'description': 'optstr'},
        'modifies': ['self._clauses', 'self._numvar'],
        'ensures': ['self._clauses == cnil', 'self._numvar == 0'],
    },
    ('cnfgen/formula/linear.py', 'CNFLinear.__init__'): {'inline_always': True},
    ('cnfgen/formula/basecnf.py', 'BaseCNF.__init__'): {'inline_always': True},
    ('cnfgen/formula/variables.py', 'VariablesManager.__init__'): {'inline_always': True},
    ('cnfgen/formula/basecnf.py', 'BaseCNF.__iter__'): {'inline_always': True},
    # xor of the block is true  <=>  odd number of true variables
    (S, 'XorSubstitution.xorify'): gadget('count(a, {}) % 2 == 1'.format(BLOCK)),
    # majority (at least half) of the block
    (S, 'MajoritySubstitution.majorify'): gadget('2 * count(a, {}) >= k'.format(BLOCK)),
    # threshold gadgets x -> (x1+...+xk op C): positive literals use op, negative ones negop (their complementarity
    # is established in LinearSubstitution's prologue, outside this closure: decided by the bounded tier)
    (S, 'LinearSubstitution.linear'): {
        'property': ['C05', 'C10'],
        'params': {'lit': 'int'},
        'closure_vars': {'k': 'int', 'op': 'str', 'negop': 'str', 'C': 'int'},
        'ghost_params': {'a': 'asg'},
        'requires': ['lit != 0', 'k >= 1',
                     "op == '>=' or op == '<=' or op == '<' or op == '>' or op == '=='",
                     "negop == '>=' or negop == '<=' or negop == '<' or negop == '>' or negop == '=='"],
        'raises': {},
        'ensures': ['sat(a, asclauses(result)) == cmp_op(ite(lit > 0, op, negop), count(a, {}), C)'.format(BLOCK),
                    'cmaxabs(asclauses(result)) <= abs(lit) * k', 'not chaszero(asclauses(result))'],
        'note': "op/negop '!=' (anything-but-k) is outside the proved subset (add_linear '!=' branch); bounded tier covers it",
    },
    # if-then-else: x_v ? x_{N+v} : x_{2N+v}
    (S, 'IfThenElseSubstitution.ite'): {
        'property': ['C05', 'C10'],
        'params': {'lit': 'int'},
        'closure_vars': {'N': 'int'},
        'ghost_params': {'a': 'asg'},
        'requires': ['lit != 0', 'abs(lit) <= N'],
        'raises': {},
        'ensures': ['sat(a, asclauses(result)) == (ite(lit_true(a, abs(lit)), lit_true(a, N + abs(lit)), lit_true(a, 2 * N + abs(lit))) == (lit > 0))',
                    'cmaxabs(asclauses(result)) <= 3 * N', 'not chaszero(asclauses(result))'],
    },
    ('cnfgen/graphs.py', 'BipartiteGraph.right_neighbors'): {
        'assumed': 'view contract of BipartiteGraph.right_neighbors (sorted copy of the adjacency list, vertices in 1..rorder); exercised by C16 bounded tier',
        'params': {'u': 'int'},
        'raises': {'ValueError': 'not (1 <= u and u <= self.lorder)'},
        'returns': 'iseq',
        'ensures': ['result == rnbrs(self.gid, u)', 'not haszero(result)', 'maxabs(result) <= self.rorder'],
    },
    # variable compression: each original variable becomes the xor / majority of its right neighbours in B
    (S, 'VariableCompression.applyxor'): {
        'property': ['C05', 'C10'], 'params': {'lit': 'int'}, 'closure_vars': {'B': 'obj:BipartiteGraph'},
        'ghost_params': {'a': 'asg'}, 'requires': ['lit != 0', 'abs(lit) <= B.lorder'], 'raises': {},
        'ensures': ['sat(a, asclauses(result)) == ((count(a, rnbrs(B.gid, abs(lit))) % 2 == 1) == (lit > 0))',
                    'cmaxabs(asclauses(result)) <= B.rorder', 'not chaszero(asclauses(result))'],
    },
    (S, 'VariableCompression.applymaj'): {
        'property': ['C05', 'C10'], 'params': {'lit': 'int'}, 'closure_vars': {'B': 'obj:BipartiteGraph'},
        'ghost_params': {'a': 'asg'}, 'requires': ['lit != 0', 'abs(lit) <= B.lorder'], 'raises': {},
        'ensures': ['sat(a, asclauses(result)) == ((2 * count(a, rnbrs(B.gid, abs(lit))) >= ilen(rnbrs(B.gid, abs(lit)))) == (lit > 0))',
                    'cmaxabs(asclauses(result)) <= B.rorder', 'not chaszero(asclauses(result))'],
    },
    # or of the block
    (S, 'OrSubstitution.orify'): gadget('count(a, {}) >= 1'.format(BLOCK)),
}
