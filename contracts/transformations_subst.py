"""Sidecar contracts for the gadget closures of cnfgen/transformations/substitutions.py  (C05 layer 1, C10).

For a literal `lit` of the original formula and arity k, block(v) = [(v-1)k+1 .. vk] = apseq((v-1)*k+1, k).
Each closure must return a CNF whose models are exactly the assignments a for which the gadget applied
to block(|lit|) makes `lit` true, using only variables of that block (<= |lit|*k, no zero literal).
Composition into the whole transformation: Lean L8 (Dist.lean) + L9 (Subst.lean); the structure of
apply_substitution itself (table + cartesian product) is decided by the bounded tier.
"""
S = 'cnfgen/transformations/substitutions.py'
C = 'cnfgen/formula/cnf.py'

CLASSMODELS = {
    'CNF': {'file': C, 'fields': {'_clauses': 'mclist', '_numvar': 'int', 'header': 'opaque'}},
    # abstract bipartite graph: identity `gid`, sizes; neighbour lists are the spec function rnbrs(gid, u)
    'BipartiteGraph': {'file': 'cnfgen/graphs.py', 'fields': {'gid': 'int', 'lorder': 'int', 'rorder': 'int', 'name': 'opaquestr'},
                       'invariant': ['self.lorder >= 0', 'self.rorder >= 0']},
}

BLOCK = 'apseq((abs(lit) - 1) * k + 1, k)'


def gadget(meaning_pos, closure_vars=None, extra_requires=()):
    return {
        'property': ['C05', 'C10'],
        'params': {'lit': 'int'},
        'closure_vars': dict({'k': 'int'}, **(closure_vars or {})),
        'ghost_params': {'a': 'asg'},
        'requires': ['lit != 0', 'k >= 1'] + list(extra_requires),
        'raises': {},
        'ensures': [
            'sat(a, asclauses(result)) == (({}) == (lit > 0))'.format(meaning_pos),
            'cmaxabs(asclauses(result)) <= abs(lit) * k', 'not chaszero(asclauses(result))',
        ],
    }


FWF = ['F._numvar >= 0', 'cmaxabs(F._clauses) <= F._numvar', 'not chaszero(F._clauses)']
VBLOCK = 'apseq((v - 1) * k + 1, k)'


def wrapper(closure, meaning, numvar='k * F._numvar', raises=None, loops=None, params=None, extra_requires=()):
    """contract of a substitution transformation built as  newF.add_clauses_from(apply_substitution(F, <closure>))"""
    ind = 'aind(a, gadid("{}"))'.format(closure)
    return {
        'property': ['C05', 'C10', 'C19'],
        'params': params or {'F': 'obj:CNF', 'k': 'int'},
        'ghost_params': {'a': 'asg'},
        'requires': FWF + list(extra_requires),
        'raises': {'ValueError': 'k < 1'} if raises is None else raises,
        'loops': loops if loops is not None else {
            0: {'inv': ['newF._numvar == k * _it', 'newF._clauses == cnil'],
                'modifies_objects': ['newF'], 'modifies_fields': {'newF': ['_numvar']}}},
        'ensures': [
            'sat(a, result._clauses) == sat({}, F._clauses)'.format(ind),
            'forall(lambda v: implies(1 <= v and v <= F._numvar, lit_true({}, v) == ({})))'.format(ind, meaning.format(B=VBLOCK)),
            'result._numvar == ' + numvar,
            'cmaxabs(result._clauses) <= result._numvar', 'not chaszero(result._clauses)',
            'F._clauses == old(F._clauses)', 'F._numvar == old(F._numvar)',
        ],
    }


CONTRACTS = {
    (C, 'CNF.__init__'): {
        # proved: the constructor chain CNF -> CNFLinear -> BaseCNF (+ VariablesManager) yields the empty formula over
        # zero variables when no clauses are given (header handling is opaque)
        'property': ['C10', 'C05'],
        'params': {'self': 'newobj:CNF', 'clauses': 'none', 'description': 'optstr'},
        'modifies': ['self._clauses', 'self._numvar'],
        'ensures': ['self._clauses == cnil', 'self._numvar == 0'],
    },
    ('cnfgen/formula/linear.py', 'CNFLinear.__init__'): {'inline_always': True},
    ('cnfgen/formula/basecnf.py', 'BaseCNF.__init__'): {'inline_always': True},
    ('cnfgen/formula/variables.py', 'VariablesManager.__init__'): {'inline_always': True},
    ('cnfgen/formula/basecnf.py', 'BaseCNF.__iter__'): {'inline_always': True},
    # xor of the block is true  <=>  odd number of true variables
    (S, 'XorSubstitution.xorify'): gadget('count(a, {}) % 2 == 1'.format(BLOCK)),
    # majority (at least half) of the block
    (S, 'MajoritySubstitution.majorify'): gadget('2 * count(a, {}) >= k'.format(BLOCK)),
    # threshold gadgets x -> (x1+...+xk op C): positive literals use op, negative ones negop (their complementarity
    # is established in LinearSubstitution's prologue, outside this closure: decided by the bounded tier)
    (S, 'LinearSubstitution.linear'): {
        'property': ['C05', 'C10'],
        'params': {'lit': 'int'},
        'closure_vars': {'k': 'int', 'op': 'str', 'negop': 'str', 'C': 'int'},
        'ghost_params': {'a': 'asg'},
        'requires': ['lit != 0', 'k >= 1',
                     "op == '>=' or op == '<=' or op == '<' or op == '>' or op == '==' or op == '!='",
                     "negop == '>=' or negop == '<=' or negop == '<' or negop == '>' or negop == '==' or negop == '!='"],
        'raises': {},
        'ensures': ["sat(a, asclauses(result)) == ite(ite(lit > 0, op, negop) == '!=', count(a, {B}) != C, cmp_op(ite(lit > 0, op, negop), count(a, {B}), C))".format(B=BLOCK),
                    'cmaxabs(asclauses(result)) <= abs(lit) * k', 'not chaszero(asclauses(result))'],
    },
    # if-then-else: x_v ? x_{N+v} : x_{2N+v}
    (S, 'IfThenElseSubstitution.ite'): {
        'property': ['C05', 'C10'],
        'params': {'lit': 'int'},
        'closure_vars': {'N': 'int'},
        'ghost_params': {'a': 'asg'},
        'requires': ['lit != 0', 'abs(lit) <= N'],
        'raises': {},
        'ensures': ['sat(a, asclauses(result)) == (ite(lit_true(a, abs(lit)), lit_true(a, N + abs(lit)), lit_true(a, 2 * N + abs(lit))) == (lit > 0))',
                    'cmaxabs(asclauses(result)) <= 3 * N', 'not chaszero(asclauses(result))'],
    },
    ('cnfgen/graphs.py', 'BipartiteGraph.right_neighbors'): {
        'assumed': 'view contract of BipartiteGraph.right_neighbors (sorted copy of the adjacency list, vertices in 1..rorder); exercised by C16 bounded tier',
        'params': {'u': 'int'},
        'raises': {'ValueError': 'not (1 <= u and u <= self.lorder)'},
        'returns': 'iseq',
        'ensures': ['result == rnbrs(self.gid, u)', 'not haszero(result)', 'maxabs(result) <= self.rorder'],
    },
    # variable compression: each original variable becomes the xor / majority of its right neighbours in B
    (S, 'VariableCompression.applyxor'): {
        'property': ['C05', 'C10'], 'params': {'lit': 'int'}, 'closure_vars': {'B': 'obj:BipartiteGraph'},
        'ghost_params': {'a': 'asg'}, 'requires': ['lit != 0', 'abs(lit) <= B.lorder'], 'raises': {},
        'ensures': ['sat(a, asclauses(result)) == ((count(a, rnbrs(B.gid, abs(lit))) % 2 == 1) == (lit > 0))',
                    'cmaxabs(asclauses(result)) <= B.rorder', 'not chaszero(asclauses(result))'],
    },
    (S, 'VariableCompression.applymaj'): {
        'property': ['C05', 'C10'], 'params': {'lit': 'int'}, 'closure_vars': {'B': 'obj:BipartiteGraph'},
        'ghost_params': {'a': 'asg'}, 'requires': ['lit != 0', 'abs(lit) <= B.lorder'], 'raises': {},
        'ensures': ['sat(a, asclauses(result)) == ((2 * count(a, rnbrs(B.gid, abs(lit))) >= ilen(rnbrs(B.gid, abs(lit)))) == (lit > 0))',
                    'cmaxabs(asclauses(result)) <= B.rorder', 'not chaszero(asclauses(result))'],
    },
    # or of the block
    (S, 'OrSubstitution.orify'): gadget('count(a, {}) >= 1'.format(BLOCK)),
    ('cnfgen/formula/basecnf.py', 'BaseCNF.number_of_variables'): {'inline_always': True},
    ('cnfgen/localtypes.py', 'positive_int'): {'inline_always': True},
    (S, 'escape_curly'): {'assumed': 'string helper (text only; strings are opaque)', 'params': {'text': 'any'}, 'returns_expr': '"<str>"'},
    (S, 'add_description'): {'assumed': 'writes only the header dictionary of F (frame checked by the effects tier, C19)',
                             'params': {'F': 'obj:CNF', 'text': 'any'}},
    ('cnfgen/formula/variables.py', 'VariablesManager.all_variable_labels'): {
        'assumed': 'one label per variable: the generator yields exactly number_of_variables() strings (C11 bounded tier: label alignment)',
        'params': {'default_label_format': 'any'}, 'returns': 'lines', 'ensures': ['len(result) == self._numvar']},
    ('cnfgen/formula/variables.py', 'VariablesManager.new_block'): {
        'assumed': 'group allocation (C11: BlockOfVariables constructor and _add_variable_group are proved in variables_groups.py): '
                   'a one-dimensional block of k fresh variables raises the variable count by k and adds no clause',
        'params': {'label': 'any'},
        'supports': ['len(ranges) == 1'], 'requires': ['ranges[0] >= 1'],
        'modifies': ['self._numvar'],
        'ensures': ['self._numvar == old(self._numvar) + ranges[0]'],
    },
    # C05 layer 3: whole transformations.  For every CNF F (well formed), every arity and every assignment a of the new
    # variables: a satisfies the result iff the induced assignment - variable v true iff the gadget applied to block v is
    # true under a - satisfies F; the result has exactly the documented number of variables, is well formed, F is untouched.
    (S, 'XorSubstitution'): wrapper('xorify', 'count(a, {B}) % 2 == 1'),
    (S, 'MajoritySubstitution'): wrapper('majorify', '2 * count(a, {B}) >= k'),
    (S, 'OrSubstitution'): wrapper('orify', 'count(a, {B}) >= 1'),
    # threshold substitutions x -> (x_1 + ... + x_k  op  C); the complementary operator for negative literals is computed by
    # the function itself (table lookup) - part of what is proved here
    (S, 'LinearSubstitution'): wrapper(
        'linear', "ite(op == '!=', count(a, {B}) != C, cmp_op(op, count(a, {B}), C))",
        params={'F': 'obj:CNF', 'k': 'int', 'op': 'str', 'C': 'int'},
        raises={'ValueError': "k < 1 or not (op == '==' or op == '<' or op == '>' or op == '<=' or op == '>=' or op == '!=')"}),
    # the four named threshold substitutions are one-line calls of LinearSubstitution (inlined here, so that the induced
    # assignment of the callee's gadget is the one the postcondition speaks about)
    (S, 'AtLeastKSubstitution'): dict(wrapper('linear', 'count(a, {B}) >= C'.replace('C', 'KK'), params={'F': 'obj:CNF', 'N': 'int', 'k': 'int'},
                                              raises={'ValueError': 'N < 1'}), inline=['LinearSubstitution']),
    (S, 'AtMostKSubstitution'): dict(wrapper('linear', 'count(a, {B}) <= KK', params={'F': 'obj:CNF', 'N': 'int', 'k': 'int'},
                                             raises={'ValueError': 'N < 1'}), inline=['LinearSubstitution']),
    (S, 'ExactlyKSubstitution'): dict(wrapper('linear', 'count(a, {B}) == KK', params={'F': 'obj:CNF', 'N': 'int', 'k': 'int'},
                                              raises={'ValueError': 'N < 1'}), inline=['LinearSubstitution']),
    (S, 'AnythingButKSubstitution'): dict(wrapper('linear', 'count(a, {B}) != KK', params={'F': 'obj:CNF', 'N': 'int', 'k': 'int'},
                                                  raises={'ValueError': 'N < 1'}), inline=['LinearSubstitution']),
    ('cnfgen/localtypes.py', 'one_of_values'): {'inline_always': True},
    ('cnfgen/localtypes.py', 'any_int'): {'inline_always': True},
    # exactly one of the block
    (S, 'ExactlyOneSubstitution.oneify'): dict(
        gadget('count(a, {}) == 1'.format(BLOCK)),
        loops={0: {'ghost_at_entry': {'C0': 'temp._clauses', 'L0': 'nvars'},
                   'inv': ['temp._clauses == capp(C0, neqprefix(L0, 1, _it))', 'nvars == L0', 'temp._numvar >= 0',
                           'cmaxabs(temp._clauses) <= temp._numvar', 'not chaszero(temp._clauses)'],
                   'modifies_objects': ['temp'], 'modifies_fields': {'temp': ['_clauses', '_numvar']}}}),
    (S, 'ExactlyOneSubstitution'): wrapper('oneify', 'count(a, {B}) == 1'),
    # all equal / not all equal (invert): the closure negates the literal first when `invert` is set
    (S, 'AllEqualSubstitution.aesubst'): {
        'property': ['C05', 'C10'],
        'params': {'lit': 'int'},
        'closure_vars': {'k': 'int', 'invert': 'bool'},
        'ghost_params': {'a': 'asg'},
        'requires': ['lit != 0', 'k >= 1'],
        'raises': {},
        'ensures': ['sat(a, asclauses(result)) == (((count(a, {B}) == 0 or count(a, {B}) == k) != invert) == (lit > 0))'.format(B=BLOCK),
                    'cmaxabs(asclauses(result)) <= abs(lit) * k', 'not chaszero(asclauses(result))'],
    },
    (S, 'AllEqualSubstitution'): wrapper(
        'aesubst', '(count(a, {B}) == 0 or count(a, {B}) == k) != invert', params={'F': 'obj:CNF', 'k': 'int', 'invert': 'bool'}),
    (S, 'NotAllEqualSubstitution'): dict(
        wrapper('aesubst', 'not (count(a, {B}) == 0 or count(a, {B}) == k)'), inline=['AllEqualSubstitution']),
    # lifting: original variable v owns 2k new variables: k copies X (first) and k selectors Y; selector i picks copy i
    (S, 'FormulaLifting.lift'): {
        'property': ['C05', 'C10'],
        'params': {'lit': 'int'},
        'closure_vars': {'k': 'int'},
        'ghost_params': {'a': 'asg'},
        'requires': ['lit != 0', 'k >= 1'],
        'raises': {},
        'ensures': ['sat(a, asclauses(result)) == liftsem(a, abs(lit), k, lit > 0)',
                    'cmaxabs(asclauses(result)) <= abs(lit) * 2 * k', 'not chaszero(asclauses(result))'],
    },
    (S, 'FormulaLifting'): {
        'property': ['C05', 'C10', 'C19'],
        'params': {'F': 'obj:CNF', 'k': 'int'},
        'ghost_params': {'a': 'asg'},
        'requires': FWF,
        'raises': {'ValueError': 'k < 1'},
        'loops': {
            0: {'inv': ['newF._numvar == 2 * k * _it', 'newF._clauses == cnil'],
                'modifies_objects': ['newF'], 'modifies_fields': {'newF': ['_numvar']}},
            1: {'niter': 'F._numvar',
                # the list built in iteration t is the selector block of variable t+1 (names the ground term for the lemma instances)
                'hints': ['yblock(_it + 1, k) == apseq(y, k)'],
                'inv': ['newF._numvar == N', 'N == 2 * k * F._numvar', 'cmaxabs(newF._clauses) <= N', 'not chaszero(newF._clauses)',
                        'sat(a, newF._clauses) == forall(lambda v: implies(1 <= v and v <= _it, count(a, yblock(v, k)) == 1), lambda v: yblock(v, k))'],
                'modifies_objects': ['newF'], 'modifies_fields': {'newF': ['_clauses', '_numvar']}},
        },
        'ensures': [
            # a satisfies the lifted formula iff exactly one selector is true for every original variable and the assignment
            # "v := the selected copy of v" satisfies F
            'sat(a, result._clauses) == (forall(lambda v: implies(1 <= v and v <= F._numvar, count(a, yblock(v, k)) == 1), lambda v: yblock(v, k)) '
            'and sat(aind(a, gadid("lift")), F._clauses))',
            'forall(lambda v: implies(1 <= v and v <= F._numvar, lit_true(aind(a, gadid("lift")), v) == liftsem(a, v, k, True)))',
            'result._numvar == 2 * k * F._numvar',
            'cmaxabs(result._clauses) <= result._numvar', 'not chaszero(result._clauses)',
            'F._clauses == old(F._clauses)', 'F._numvar == old(F._numvar)',
        ],
    },
    # polarity flip: same variables, every literal negated
    (S, 'FlipPolarity.subst'): {
        'property': ['C05', 'C10'], 'params': {'lit': 'int'}, 'closure_vars': {}, 'ghost_params': {'a': 'asg'},
        'requires': ['lit != 0'], 'raises': {},
        'ensures': ['sat(a, asclauses(result)) == ((not lit_true(a, abs(lit))) == (lit > 0))',
                    'cmaxabs(asclauses(result)) <= abs(lit)', 'not chaszero(asclauses(result))'],
    },
    (S, 'FlipPolarity'): wrapper('subst', 'not lit_true(a, v)', numvar='F._numvar', raises={}, params={'F': 'obj:CNF'}, loops={}),
    # variable compression: original variable v becomes the xor / majority of the right neighbours of v in B
    (S, 'VariableCompression'): {
        'property': ['C05', 'C10', 'C19'],
        'params': {'F': 'obj:CNF', 'B': 'obj:BipartiteGraph', 'function': 'str'},
        'ghost_params': {'a': 'asg'},
        'requires': FWF,
        'raises': {'ValueError': "not (function == 'xor' or function == 'maj') or B.lorder != F._numvar"},
        'ensures': [
            "implies(function == 'xor', sat(a, result._clauses) == sat(aind(a, gadid('applyxor')), F._clauses))",
            "implies(function == 'xor', forall(lambda v: implies(1 <= v and v <= F._numvar, "
            "lit_true(aind(a, gadid('applyxor')), v) == (count(a, rnbrs(B.gid, v)) % 2 == 1))))",
            "implies(function == 'maj', sat(a, result._clauses) == sat(aind(a, gadid('applymaj')), F._clauses))",
            "implies(function == 'maj', forall(lambda v: implies(1 <= v and v <= F._numvar, "
            "lit_true(aind(a, gadid('applymaj')), v) == (2 * count(a, rnbrs(B.gid, v)) >= ilen(rnbrs(B.gid, v))))))",
            'result._numvar == B.rorder',
            'cmaxabs(result._clauses) <= result._numvar', 'not chaszero(result._clauses)',
            'F._clauses == old(F._clauses)', 'F._numvar == old(F._numvar)',
        ],
    },
    ('cnfgen/graphs.py', 'BipartiteGraph.normalize'): {
        'assumed': 'BipartiteGraph.normalize returns a cnfgen BipartiteGraph unchanged', 'classmethod': True,
        'params': {'cls': 'any', 'G': 'obj:BipartiteGraph', 'varname': 'any'}, 'returns_expr': 'G'},
    ('cnfgen/graphs.py', 'BipartiteGraph.left_order'): {'assumed': 'size view of the bipartite graph (C16)', 'params': {}, 'returns_expr': 'self.lorder'},
    ('cnfgen/graphs.py', 'BipartiteGraph.right_order'): {'assumed': 'size view of the bipartite graph (C16)', 'params': {}, 'returns_expr': 'self.rorder'},
    ('cnfgen/formula/basecnf.py', 'BaseCNF.update_variable_number'): {'inline_always': True},
    # if-then-else: 3 variables per original variable (x_v ? x_{N+v} : x_{2N+v})
    (S, 'IfThenElseSubstitution'): wrapper(
        'ite', 'ite(lit_true(a, v), lit_true(a, F._numvar + v), lit_true(a, 2 * F._numvar + v))',
        numvar='3 * F._numvar', raises={}, params={'F': 'obj:CNF'},
        loops={0: {'inv': ['newF._numvar == _it', 'newF._clauses == cnil', 'N == F._numvar'],
                   'modifies_objects': ['newF'], 'modifies_fields': {'newF': ['_numvar']}},
               1: {'inv': ['newF._numvar == N + _it', 'newF._clauses == cnil', 'N == F._numvar'],
                   'modifies_objects': ['newF'], 'modifies_fields': {'newF': ['_numvar']}},
               2: {'inv': ['newF._numvar == 2 * N + _it', 'newF._clauses == cnil', 'N == F._numvar'],
                   'modifies_objects': ['newF'], 'modifies_fields': {'newF': ['_numvar']}}}),
    ('cnfgen/formula/variables.py', 'VariablesManager.new_variable'): {
        'assumed': 'group allocation (C11): one fresh variable, no clause',
        'params': {'label': 'any'}, 'modifies': ['self._numvar'], 'returns': 'int',
        'ensures': ['self._numvar == old(self._numvar) + 1', 'result == self._numvar'],
    },
    # C05 layer 2: the generator that distributes the gadget CNFs over every clause.  `subst` is an arbitrary pure function
    # literal -> CNF (gad(subst, l)); the clauses yielded are, clause by clause and in order, the distribution
    # (cartesian product, flattened) of [gad(l) for l in clause] - hence (Lean L8/L9, instantiated in the VC) they hold
    # under an assignment iff every clause of the formula has a literal whose gadget CNF holds.
    (S, 'apply_substitution'): {
        'property': ['C05'],
        'params': {'formula': 'obj:CNF', 'subst': 'fn:gad'},
        'ghost_params': {'a': 'asg'},
        'yield_acc': True,
        'locals': {'substitutions': 'ctab'},
        'requires': ['formula._numvar >= 0', 'cmaxabs(formula._clauses) <= formula._numvar', 'not chaszero(formula._clauses)'],
        'raises': {},
        'loops': {
            # stated over the loop counter, not over the loop variable: an edited range bound then fails a decisive obligation
            # ... and over the table's own length (L0), whatever it is: only "long enough that the two halves do not meet" matters
            0: {'ghost_at_entry_vals': {'L0': 'len(substitutions)'},
                'inv': ['len(substitutions) == L0', 'L0 >= 2 * N + 1',
                        'forall(lambda j: implies(1 <= j and j <= _it, substitutions[j] == gad(subst, j)), lambda j: gad(subst, j))',
                        'forall(lambda j: implies(-_it <= j and j <= -1, substitutions[L0 + j] == gad(subst, j)), lambda j: gad(subst, j))']},
            1: {'ghost_at_entry': {'C0': '_iter'},
                'inv': ['_ys == cdistall(subst, C0, _it)']},
        },
        'returns': 'cseq',          # the value of the generator = the sequence of clauses it yields
        'ensures': ['result == cdistall(subst, formula._clauses, clen(formula._clauses))',
                    'sat(a, result) == satind(a, subst, formula._clauses, clen(formula._clauses))'],
    },
}

# AtLeastK & co.: the arity is called N and the threshold k in these four functions
for _q in ('AtLeastKSubstitution', 'AtMostKSubstitution', 'ExactlyKSubstitution', 'AnythingButKSubstitution'):
    _c = CONTRACTS[(S, _q)]
    _c['ensures'] = [t.replace('apseq((v - 1) * k + 1, k)', 'apseq((v - 1) * N + 1, N)').replace('KK', 'k').replace('k * F._numvar', 'N * F._numvar')
                     for t in _c['ensures']]
    _c['loops'] = {}
