"""Sidecar contracts: the three command-line helpers that build their formula by hand instead of calling a library function
(C17; the other 46 helpers are decided by the uf tier: contracts/cli_helpers.py).

PROVED for all argument values and both formula classes:
  * `or P N`:  P + N variables, ONE clause: the first P variables positively, the next N negatively - satisfied exactly by the
    assignments making one of the first P true or one of the next N false;
  * `and P N`: P + N variables, one unit clause per variable (positive for the first P, negative for the rest) - satisfied exactly by
    the assignment making the first P true and the next N false;
  * `false`:   no variable, exactly one clause, the empty one - unsatisfiable.
ASSUMED: block allocation / iteration (C11), the interface meaning of add_clause / add_clauses_from (C04).
"""
H = 'cnfgen/clihelpers/simple_helpers.py'
F_ = 'cnfgen/formula/cnf.py'
V_ = 'cnfgen/formula/variables.py'

CLASSMODELS = {
    'ArgsPN': {'file': H, 'fields': {'P': 'int', 'N': 'int'}, 'invariant': ['self.P >= 0', 'self.N >= 0']},
    'ArgsNone': {'file': H, 'fields': {}},
    'FormulaH': {'file': F_, 'real': 'CNF', 'fields': {'store': 'mclist', '_numvar': 'int', 'cls': 'int'}},
    'BlockH': {'file': V_, 'real': 'BlockOfVariables', 'fields': {'off': 'int', 'n': 'int'}},
}

CONTRACTS = {
    (F_, 'FormulaH.__init__'): {'assumed': 'formula_class(description=...) builds an empty formula of that class', 'params': {'description': 'any'},
                                'modifies': ['self.store', 'self._numvar'], 'ensures': ['self.store == cnil', 'self._numvar == 0']},
    (F_, 'FormulaH.new_block'): {
        'assumed': 'group allocation (C11): a one-dimensional block of fresh variables',
        'params': {'label': 'any'}, 'supports': ['len(ranges) == 1'], 'requires': ['ranges[0] >= 0'],
        'modifies': ['self._numvar'], 'returns': 'obj:BlockH',
        'ensures': ['result.off == old(self._numvar)', 'result.n == ranges[0]', 'self._numvar == old(self._numvar) + ranges[0]']},
    (V_, 'BlockH.__iter__'): {'assumed': 'iterating a block yields its identifiers in order (C11)', 'params': {},
                              'returns_expr': 'range(self.off + 1, self.off + self.n + 1)'},
    (F_, 'FormulaH.add_clause'): {
        'assumed': 'interface meaning of add_clause (C04)',
        'params': {'clause': 'iseq', 'check': 'bool'}, 'ghost_params': {'a': 'asg'},
        'raises': {'ValueError': 'check and haszero(clause)'}, 'modifies': ['self.store', 'self._numvar'],
        'ensures': ['sat(a, self.store) == (sat(a, old(self.store)) and count(a, clause) >= 1)',
                    'clen(self.store) == clen(old(self.store)) + 1',
                    'self._numvar == ite(check, zmax(old(self._numvar), maxabs(clause)), old(self._numvar))']},
    (H, 'FALSE.build_formula'): {
        'property': ['C17', 'C08'],
        'params': {'args': 'obj:ArgsNone', 'formula_class': 'class:FormulaH'},
        'ghost_params': {'a': 'asg'}, 'raises': {},
        'ensures': ['not sat(a, result.store)', 'clen(result.store) == 1', 'result._numvar == 0', 'result.cls == formula_class'],
    },
    (H, 'OR.build_formula'): {
        'property': ['C17', 'C08'],
        'params': {'args': 'obj:ArgsPN', 'formula_class': 'class:FormulaH'},
        'ghost_params': {'a': 'asg'}, 'raises': {},
        'ensures': ['sat(a, result.store) == (count(a, apseq(1, args.P)) + count(a, ineg(apseq(args.P + 1, args.N))) >= 1)',
                    'clen(result.store) == 1', 'result._numvar == args.P + args.N', 'result.cls == formula_class'],
    },
    (F_, 'FormulaH.add_clauses_from'): {
        'assumed': 'interface meaning of add_clauses_from (proved for CNF in formula_cnf.py)',
        'params': {'clauses': 'cseq', 'check': 'bool'}, 'ghost_params': {'a': 'asg'},
        'raises': {'ValueError': 'check and chaszero(clauses)'}, 'modifies': ['self.store', 'self._numvar'],
        'ensures': ['sat(a, self.store) == (sat(a, old(self.store)) and sat(a, clauses))', 'clen(self.store) == clen(old(self.store)) + clen(clauses)',
                    'self._numvar == ite(check, zmax(old(self._numvar), cmaxabs(clauses)), old(self._numvar))']},
    (H, 'AND.build_formula'): {
        'property': ['C17', 'C08'],
        'params': {'args': 'obj:ArgsPN', 'formula_class': 'class:FormulaH'},
        'ghost_params': {'a': 'asg'}, 'raises': {},
        'ensures': ['sat(a, result.store) == (count(a, apseq(1, args.P)) == args.P and count(a, apseq(args.P + 1, args.N)) == 0)',
                    'clen(result.store) == args.P + args.N', 'result._numvar == args.P + args.N', 'result.cls == formula_class'],
    },
}
