"""Sidecar contracts: BipartiteEdgesVariables - the variable group behind mappings, sparse mappings and the edge variables of
bipartite, simple and directed graphs (the last two delegate to it) - index <-> identifier (C11, C10).

The group keeps `offset`, a 1-based table (entry 0 is None): offset[u] = first identifier of the edges at left vertex u.
Class invariant (ESTABLISHED by the proved constructor, relied upon by the index functions), with
degsum(g, u) = number of edges at the left vertices 1..u:
    len(offset) == L + 1,   offset[u] == ids_lo + degsum(g, u - 1)  (1 <= u <= L),   ids = [ids_lo, ids_lo + degsum(g, L)),
    offset is non-decreasing on 1..L.
PROVED for every bipartite graph (abstract neighbour view):
  * the constructor takes exactly the first free identifiers, as many as the graph has edges, its internal assert never fails;
  * _unsafe_index_to_lit(u, v) = offset[u] + position of v among the neighbours of u: inside the group's own range and inside
    the block of u (so different edges get different identifiers);
  * to_index(lit): refused iff the variable is not in the group; otherwise an edge (u, v) of the graph whose identifier IS the
    variable of the literal (the round trip is the function's own `assert`, proved never to fail) - with the previous item:
    index <-> identifier is a bijection between the edges and the identifier range;
  * indices(u, v) / the call e(u, v): refused iff (u, v) is not an edge, otherwise that identifier; indices() with no pattern is
    the edge list of the graph;
  * DiGraphEdgesVariables / GraphEdgesVariables: to_index and _unsafe_index_to_lit are that of the inner group, with the pair
    swapped (sortby='succ') / sorted.
ASSUMED (graph views, proved against the representation under C16): right_neighbors(u) is refused iff u is not a left vertex
and is a strictly increasing list of right vertices; has_edge(u, v) iff v occurs in it; number_of_edges() is the sum of the
left degrees.  Labels (string formatting) are not interpreted.
"""
V = 'cnfgen/formula/variables.py'
G = 'cnfgen/graphs.py'

NB = 'rnbrs(self.G.gid, {})'
BE_INV = [
    'self.G.lorder >= 0', 'self.G.rorder >= 0', 'self.ids_lo >= 1', 'degsum(self.G.gid, 0) == 0',
    'len(self.offset) == self.G.lorder + 1',
    'forall(lambda u: implies(1 <= u and u <= self.G.lorder, self.offset[u] == self.ids_lo + degsum(self.G.gid, u - 1)), lambda u: self.offset[u])',
    'self.ids_hi == self.ids_lo + degsum(self.G.gid, self.G.lorder)',
    'forall(lambda i, j: implies(1 <= i and i <= j and j <= self.G.lorder, self.offset[i] <= self.offset[j]))',
]

CLASSMODELS = {
    'BipV': {'file': G, 'real': 'BipartiteGraph', 'fields': {'gid': 'int', 'lorder': 'int', 'rorder': 'int'},
             'invariant': ['self.lorder >= 0', 'self.rorder >= 0']},
    'BipEdgeVars': {'file': V, 'real': 'BipartiteEdgesVariables',
                    'fields': {'G': 'obj:BipV', 'offset': 'intlist_none0', 'ids': 'range:ids_lo:ids_hi', 'labelfmt': 'opaque', 'formula': 'opaque'},
                    'invariant': BE_INV},
}

STRICT = ('forall(lambda i, j: implies(0 <= i and i < j and j < ilen(result), iget(result, i) < iget(result, j)))')

CONTRACTS = {
    (G, 'BipV.parts'): {'assumed': 'parts() = (1..L, 1..R)', 'params': {},
                        'returns_expr': '(range(1, self.lorder + 1), range(1, self.rorder + 1))'},
    (G, 'BipV.left_order'): {'assumed': 'size view', 'params': {}, 'returns_expr': 'self.lorder'},
    (G, 'BipV.right_order'): {'assumed': 'size view', 'params': {}, 'returns_expr': 'self.rorder'},
    (G, 'BipV.right_neighbors'): {
        'assumed': 'neighbour view (C16): a strictly increasing list of right vertices; only an argument that is not a left vertex may be refused '
                   '(BipartiteGraph refuses it, CompleteBipartiteGraph does not look)',
        'params': {'u': 'int'}, 'may_raise': {'ValueError': 'not (1 <= u and u <= self.lorder)'}, 'returns': 'iseq',
        'ensures': ['result == rnbrs(self.gid, u)', STRICT,
                    'forall(lambda i: implies(0 <= i and i < ilen(result), 1 <= iget(result, i) and iget(result, i) <= self.rorder))']},
    (G, 'BipV.left_neighbors'): {
        'assumed': 'neighbour view (C16): every listed w is a left vertex that has v among its right neighbours; only an argument that is not a '
                   'right vertex may be refused',
        'params': {'v': 'int'}, 'may_raise': {'ValueError': 'not (1 <= v and v <= self.rorder)'}, 'returns': 'iseq',
        'ensures': ['result == lnbrs(self.gid, v)',
                    'forall(lambda i: implies(0 <= i and i < ilen(result), 1 <= iget(result, i) and iget(result, i) <= self.lorder and '
                    'exists(lambda k: 0 <= k and k < ilen(rnbrs(self.gid, iget(result, i))) and iget(rnbrs(self.gid, iget(result, i)), k) == v)))']},
    (G, 'BipV.right_degree'): {
        'assumed': 'degree view (C16): len(right_neighbors(u))',
        'params': {'u': 'int'}, 'may_raise': {'ValueError': 'not (1 <= u and u <= self.lorder)'}, 'returns': 'int',
        'ensures': ['result == ilen(rnbrs(self.gid, u))', 'result >= 0']},
    (G, 'BipV.has_edge'): {
        'assumed': 'edge view (C16): (u, v) is an edge iff u is a left vertex and v occurs among its neighbours',
        'params': {'u': 'int', 'v': 'int'}, 'returns': 'bool',
        'ensures': ['result == (1 <= u and u <= self.lorder and exists(lambda k: 0 <= k and k < ilen(rnbrs(self.gid, u)) and iget(rnbrs(self.gid, u), k) == v))']},
    (G, 'BipV.number_of_edges'): {
        'assumed': 'edge count view (C16): the number of edges is the sum of the left degrees',
        'params': {}, 'returns': 'int', 'ensures': ['result == degsum(self.gid, self.lorder)']},
    (G, 'BipV.edges'): {'assumed': 'edge list view: an opaque iterable', 'params': {}, 'returns': 'opaque'},

    (V, 'BipEdgeVars.__init__'): {
        'property': ['C11', 'C10'],
        'source': (V, 'BipartiteEdgesVariables.__init__'),
        'params': {'self': 'newobj:BipEdgeVars', 'formula': 'obj:BaseCNF', 'G': 'obj:BipV', 'labelfmt': 'opaquestr'},
        'requires': ['formula._numvar >= 0'],
        'raises': {'ValueError': None},          # only the label check may refuse
        'loops': {0: {'inv': [
            'len(offset) == _it + 2', 'offset[1] == startID', 'degsum(G.gid, 0) == 0',
            'forall(lambda u: implies(1 <= u and u <= _it + 1, offset[u] == startID + degsum(G.gid, u - 1)), lambda u: offset[u])',
            'forall(lambda i, j: implies(1 <= i and i <= j and j <= _it + 1, offset[i] <= offset[j]))'],
            'hints': ['degsum(G.gid, _it + 1) == degsum(G.gid, _it) + ilen(rnbrs(G.gid, _it + 1))']}},
        'modifies': ['self.G'],
        'ensures': ['self.G == G'] + BE_INV + ['self.ids_lo == formula._numvar + 1'],
    },
    (V, 'BipEdgeVars._unsafe_index_to_lit'): {
        'property': ['C11', 'C10'],
        'source': (V, 'BipartiteEdgesVariables._unsafe_index_to_lit'),
        'params': {'index': 'tuple:int,int'}, 'returns': 'int',
        'requires': ['1 <= index[0]', 'index[0] <= self.G.lorder'],
        'raises': {'ValueError': 'not exists(lambda k: 0 <= k and k < ilen({nb}) and iget({nb}, k) == index[1])'.format(nb=NB.format('index[0]'))},
        'ensures': [
            # the identifier = first identifier of u's block + the position of v among u's neighbours
            '0 <= result - self.offset[index[0]]', 'result - self.offset[index[0]] < ilen({})'.format(NB.format('index[0]')),
            'iget({}, result - self.offset[index[0]]) == index[1]'.format(NB.format('index[0]')),
            # inside the group's own contiguous range (C10)
            'self.ids_lo <= result', 'result < self.ids_hi',
            # inside the block of u: below the first identifier of every later vertex (different edges, different identifiers)
            'forall(lambda w: implies(index[0] < w and w <= self.G.lorder, result < self.offset[w]))',
        ],
    },
    (V, 'BipEdgeVars.indices'): {
        'property': ['C11'],
        'source': (V, 'BipartiteEdgesVariables.indices'),
        # the point pattern (u, v): refused iff (u, v) is not an edge, otherwise exactly that index
        'params': {'pattern': 'tuple:int,int'},
        'supports': ['len(pattern) == 2', 'pattern[0] is not None and pattern[1] is not None'],
        # rejected iff (u, v) is not an edge - in particular every u outside the left side
        'raises': {'ValueError': 'not (1 <= pattern[0] and pattern[0] <= self.G.lorder and exists(lambda k: 0 <= k and k < ilen({nb}) and iget({nb}, k) == pattern[1]))'.format(nb=NB.format('pattern[0]'))},
        'returns': 'tuple1:int,int',
        'ensures': ['len(result) == 1', 'result[0][0] == pattern[0]', 'result[0][1] == pattern[1]'],
    },
    (V, 'BipEdgeVars.__call__'): {
        'property': ['C11'],
        'source': (V, 'BaseVariableGroup.__call__'),
        # as a callee (and variant `point`): the call e(u, v) with both components given
        'params': {'index': 'tuple:int,int'}, 'returns': 'int',
        'supports': ['len(index) == 2', 'index[0] is not None and index[1] is not None'],
        'raises': {'ValueError': 'not (1 <= index[0] and index[0] <= self.G.lorder and exists(lambda k: 0 <= k and k < ilen({nb}) and iget({nb}, k) == index[1]))'.format(nb=NB.format('index[0]'))},
        'ensures': ['0 <= result - self.offset[index[0]]', 'result - self.offset[index[0]] < ilen({})'.format(NB.format('index[0]')),
                    'iget({}, result - self.offset[index[0]]) == index[1]'.format(NB.format('index[0]')),
                    'self.ids_lo <= result', 'result < self.ids_hi'],
        'inline': ['BipEdgeVars.indices'],
        'variants': {
            'point': {},
            # the projection e(u, None): refused iff u is not a left vertex; otherwise the identifiers of ALL edges at u, in neighbour
            # order - the contiguous block offset[u], offset[u]+1, ... (what the generator yields when consumed)
            'row': {'params': {'index': 'tuple:int,none'}, 'returns': 'iseq',
                    'supports': ['len(index) == 2'],
                    'raises': {'ValueError': 'not (1 <= index[0] and index[0] <= self.G.lorder)'},
                    'ensures!': ['ilen(result) == ilen({})'.format(NB.format('index[0]')),
                                'forall(lambda t: implies(0 <= t and t < ilen(result), iget(result, t) == self.offset[index[0]] + t))',
                                'forall(lambda t: implies(0 <= t and t < ilen(result), self.ids_lo <= iget(result, t) and iget(result, t) < self.ids_hi))']},
            # the projection e(None, v): refused iff v is not a right vertex; otherwise, for every left neighbour w of v in list order,
            # the identifier of the edge (w, v)
            'col': {'params': {'index': 'tuple:none,int'}, 'returns': 'iseq',
                    'supports': ['len(index) == 2'],
                    'raises': {'ValueError': 'not (1 <= index[1] and index[1] <= self.G.rorder)'},
                    'ensures!': ['ilen(result) == ilen(lnbrs(self.G.gid, index[1]))',
                                 'forall(lambda t: implies(0 <= t and t < ilen(result), '
                                 '0 <= iget(result, t) - self.offset[iget(lnbrs(self.G.gid, index[1]), t)] and '
                                 'iget(result, t) - self.offset[iget(lnbrs(self.G.gid, index[1]), t)] < ilen(rnbrs(self.G.gid, iget(lnbrs(self.G.gid, index[1]), t))) and '
                                 'iget(rnbrs(self.G.gid, iget(lnbrs(self.G.gid, index[1]), t)), iget(result, t) - self.offset[iget(lnbrs(self.G.gid, index[1]), t)]) == index[1]))',
                                 'forall(lambda t: implies(0 <= t and t < ilen(result), self.ids_lo <= iget(result, t) and iget(result, t) < self.ids_hi))']},
        },
    },
    (V, 'BipEdgeVars.to_index'): {
        'property': ['C11'],
        'source': (V, 'BipartiteEdgesVariables.to_index'),
        'params': {'lit': 'int'}, 'returns': 'tuple:int,int',
        'raises': {'ValueError': 'not (self.ids_lo <= abs(lit) and abs(lit) < self.ids_hi)'},
        'ensures': [
            # an edge of the graph ...
            '1 <= result[0]', 'result[0] <= self.G.lorder',
            '0 <= abs(lit) - self.offset[result[0]]', 'abs(lit) - self.offset[result[0]] < ilen({})'.format(NB.format('result[0]')),
            # ... namely the one whose identifier is the variable of the literal (either polarity)
            'result[1] == iget({}, abs(lit) - self.offset[result[0]])'.format(NB.format('result[0]')),
        ],
    },
}


# ---- the edge groups of directed and simple graphs delegate to an inner BipartiteEdgesVariables group ---------------------------
CLASSMODELS.update({
    'DiEdgeVars': {'file': V, 'real': 'DiGraphEdgesVariables', 'fields': {'VG': 'obj:BipEdgeVars', 'sortby': 'str'},
                   'invariant': ["self.sortby == 'pred' or self.sortby == 'succ'"]},
    'GrEdgeVars': {'file': V, 'real': 'GraphEdgesVariables', 'fields': {'BG': 'obj:BipEdgeVars'}},
})
_INNER = 'rnbrs(self.{vg}.G.gid, {u})'


def _to_index(vg, a, b):
    """result[a] is the left vertex of the inner group, result[b] its neighbour"""
    nb = _INNER.format(vg=vg, u='result[{}]'.format(a))
    return ['1 <= result[{}]'.format(a), 'result[{}] <= self.{}.G.lorder'.format(a, vg),
            '0 <= abs(lit) - self.{}.offset[result[{}]]'.format(vg, a), 'abs(lit) - self.{}.offset[result[{}]] < ilen({})'.format(vg, a, nb),
            'result[{}] == iget({}, abs(lit) - self.{}.offset[result[{}]])'.format(b, nb, vg, a)]


CONTRACTS.update({
    (V, 'DiEdgeVars.to_index'): {
        'property': ['C11'], 'source': (V, 'DiGraphEdgesVariables.to_index'), 'params': {'lit': 'int'},
        'raises': {'ValueError': 'not (self.VG.ids_lo <= abs(lit) and abs(lit) < self.VG.ids_hi)'},
        'ensures': ["implies(self.sortby == 'pred', {})".format(' and '.join(_to_index('VG', 0, 1))),
                    "implies(self.sortby == 'succ', {})".format(' and '.join(_to_index('VG', 1, 0)))],
    },
    (V, 'GrEdgeVars.to_index'): {
        'property': ['C11'], 'source': (V, 'GraphEdgesVariables.to_index'), 'params': {'lit': 'int'},
        'raises': {'ValueError': 'not (self.BG.ids_lo <= abs(lit) and abs(lit) < self.BG.ids_hi)'},
        'ensures': _to_index('BG', 0, 1),
    },
    (V, 'DiEdgeVars._unsafe_index_to_lit'): {
        'property': ['C11', 'C10'], 'source': (V, 'DiGraphEdgesVariables._unsafe_index_to_lit'),
        'params': {'index': 'tuple:int,int'}, 'returns': 'int',
        'variants': {
            'pred': {'requires': ["self.sortby == 'pred'", '1 <= index[0]', 'index[0] <= self.VG.G.lorder'],
                     'raises': {'ValueError': 'not exists(lambda k: 0 <= k and k < ilen({nb}) and iget({nb}, k) == index[1])'.format(nb=_INNER.format(vg='VG', u='index[0]'))},
                     'ensures': ['iget({}, result - self.VG.offset[index[0]]) == index[1]'.format(_INNER.format(vg='VG', u='index[0]')),
                                 'self.VG.ids_lo <= result', 'result < self.VG.ids_hi']},
            'succ': {'requires': ["self.sortby == 'succ'", '1 <= index[1]', 'index[1] <= self.VG.G.lorder'],
                     'raises': {'ValueError': 'not exists(lambda k: 0 <= k and k < ilen({nb}) and iget({nb}, k) == index[0])'.format(nb=_INNER.format(vg='VG', u='index[1]'))},
                     'ensures': ['iget({}, result - self.VG.offset[index[1]]) == index[0]'.format(_INNER.format(vg='VG', u='index[1]')),
                                 'self.VG.ids_lo <= result', 'result < self.VG.ids_hi']},
        },
    },
    (V, 'GrEdgeVars._unsafe_index_to_lit'): {
        'property': ['C11', 'C10'], 'source': (V, 'GraphEdgesVariables._unsafe_index_to_lit'),
        'params': {'index': 'tuple:int,int'}, 'returns': 'int',
        # the edge {u, v} in either order: the identifier of (min, max) in the inner group
        'requires': ['1 <= min(index[0], index[1])', 'min(index[0], index[1]) <= self.BG.G.lorder'],
        'raises': {'ValueError': 'not exists(lambda k: 0 <= k and k < ilen({nb}) and iget({nb}, k) == max(index[0], index[1]))'.format(
            nb=_INNER.format(vg='BG', u='min(index[0], index[1])'))},
        'ensures': ['iget({}, result - self.BG.offset[min(index[0], index[1])]) == max(index[0], index[1])'.format(_INNER.format(vg='BG', u='min(index[0], index[1])')),
                    'self.BG.ids_lo <= result', 'result < self.BG.ids_hi'],
    },
})


# ---- the allocators: constructor + registration = a fresh, contiguous group (C10, C11) ---------------------------------------------
def _alloc(inv_of_result):
    return [
        # exactly the first free identifiers ...
        'result.ids_lo == old(self._formula._numvar) + 1',
        # ... and the declared variable count of the formula grows by exactly the size of the group (contiguity: nothing skipped)
        'self._formula._numvar == old(self._formula._numvar) + (result.ids_hi - result.ids_lo)', 'result.ids_hi >= result.ids_lo',
        # registered exactly once, last
        'ocount(self._groups) == ocount(old(self._groups)) + 1', 'olast(self._groups) == result',
    ] + [c.replace('self.', 'result.') for c in inv_of_result]


CONTRACTS.update({
    (G, 'BipV.is_bipartite'): {'assumed': 'class constant: a bipartite graph says so', 'params': {}, 'returns_expr': 'True'},
    (G, 'BipV.__init__'): {
        'assumed': 'CompleteBipartiteGraph(n, m): every left vertex 1..n is adjacent to every right vertex 1..m (so u left vertices carry u*m edges)',
        'params': {'L': 'int', 'R': 'int'}, 'requires': ['L >= 0', 'R >= 0'], 'modifies': ['self.lorder', 'self.rorder', 'self.gid'],
        'ensures': ['self.lorder == L', 'self.rorder == R',
                    'forall(lambda u: implies(0 <= u and u <= L, degsum(self.gid, u) == u * R), lambda u: degsum(self.gid, u))',
                    'forall(lambda u: implies(1 <= u and u <= L, rnbrs(self.gid, u) == apseq(1, R)), lambda u: rnbrs(self.gid, u))']},
    (V, 'VariablesManager.new_bipartite_edges'): {
        'property': ['C10', 'C11'],
        'params': {'self': 'obj:VariablesManager', 'G': 'obj:BipV', 'label': 'opaquestr'},
        'calls_model': {'BipartiteEdgesVariables': 'BipEdgeVars'},
        'requires': ['self._formula._numvar >= 0'],
        'modifies': ['self._groups', 'self._formula._numvar'],
        'raises': {'ValueError': None},          # only the label check may refuse
        'returns': 'obj:BipEdgeVars',
        'ensures': _alloc(BE_INV) + ['result.G == G', 'result.ids_hi - result.ids_lo == degsum(G.gid, G.lorder)'],
        'ensures_on_raise': ['self._formula._numvar == old(self._formula._numvar)', 'ocount(self._groups) == ocount(old(self._groups))'],
    },
    (V, 'VariablesManager.new_sparse_mapping'): {
        'property': ['C10', 'C11'],
        # UnaryMappingVariables.__init__ only delegates to BipartiteEdgesVariables.__init__ (read, one line): the same class model
        'params': {'self': 'obj:VariablesManager', 'B': 'obj:BipV', 'label': 'opaquestr'},
        'calls_model': {'UnaryMappingVariables': 'BipEdgeVars'},
        'requires': ['self._formula._numvar >= 0'],
        'modifies': ['self._groups', 'self._formula._numvar'],
        'raises': {'ValueError': None},
        'returns': 'obj:BipEdgeVars',
        'ensures': _alloc(BE_INV) + ['result.G == B', 'result.ids_hi - result.ids_lo == degsum(B.gid, B.lorder)'],
        'ensures_on_raise': ['self._formula._numvar == old(self._formula._numvar)', 'ocount(self._groups) == ocount(old(self._groups))'],
    },
    (V, 'VariablesManager.new_mapping'): {
        'property': ['C10', 'C11'],
        'params': {'self': 'obj:VariablesManager', 'n': 'int', 'm': 'int', 'label': 'opaquestr'},
        'calls_model': {'UnaryMappingVariables': 'BipEdgeVars', 'CompleteBipartiteGraph': 'BipV'},
        'requires': ['self._formula._numvar >= 0'],
        'modifies': ['self._groups', 'self._formula._numvar'],
        # refused for negative sizes (documented); otherwise only the label check may refuse
        'raises': {'ValueError': None},
        'returns': 'obj:BipEdgeVars',
        # n*m fresh contiguous identifiers: the variable of (u, v) is the (v-1)-th of the block of u
        'ensures': _alloc(BE_INV) + ['n >= 0', 'm >= 0', 'result.G.lorder == n', 'result.G.rorder == m', 'result.ids_hi - result.ids_lo == n * m',
                                     'forall(lambda u: implies(1 <= u and u <= n, result.offset[u] == result.ids_lo + (u - 1) * m), lambda u: result.offset[u])'],
        'ensures_on_raise': ['self._formula._numvar == old(self._formula._numvar)', 'ocount(self._groups) == ocount(old(self._groups))'],
    },
})
