"""Sidecar contracts for cnfgen/formula/variables.py index arithmetic (C11, C10).

BinaryMappingVariables: identifiers of element i are the bitlength consecutive ids
(i-1)*bitlength+1 .. i*bitlength above id_offset, most significant bit (b = bitlength-1) first.
"""
V = 'cnfgen/formula/variables.py'

BM_INV = ['self.domain_size >= 0', 'self.range_size >= 0', 'self.bitlength >= 0', 'self.id_offset >= 0',
          'self.ids_lo == self.id_offset + 1', 'self.ids_hi == self.id_offset + self.domain_size * self.bitlength + 1']

CLASSMODELS = {
    # `ids` is the python range(ids_lo, ids_hi) created by BaseVariableGroup.__init__
    'BinaryMappingVariables': {'file': V, 'fields': {'domain_size': 'int', 'range_size': 'int', 'bitlength': 'int',
                                                     'id_offset': 'int', 'ids': 'range:ids_lo:ids_hi'},
                               'invariant': BM_INV},
}

CLASSMODELS.update({
    # any variable group, seen through len()/[] : its identifier range
    'BaseVariableGroup': {'file': V, 'fields': {'ids': 'range:ids_lo:ids_hi'}, 'invariant': ['self.ids_lo >= 1']},
    # the formula is its own variables manager (CNF / OPB: VariablesManager.__init__(self, self))
    'VariablesManager': {'file': V, 'fields': {'_groups': 'countedlist', '_formula': 'obj:BaseCNF'}},
})

CONTRACTS = {
    (V, 'BaseVariableGroup.__contains__'): {'inline_always': True},
    (V, 'BaseVariableGroup.__len__'): {'inline_always': True},
    (V, 'BaseVariableGroup.__getitem__'): {'inline_always': True},
    ('cnfgen/formula/basecnf.py', 'BaseCNF.number_of_variables'): {'inline_always': True},
    ('cnfgen/formula/basecnf.py', 'BaseCNF.update_variable_number'): {'inline_always': True},
    ('cnfgen/localtypes.py', 'non_negative_int'): {'inline_always': True},
    (V, 'VariablesManager._add_variable_group'): {
        'property': ['C10', 'C11'],
        'params': {'vg': 'obj:BaseVariableGroup'},
        'requires': ['self._formula._numvar >= 0'],
        'modifies': ['self._groups', 'self._formula._numvar'],
        # freshness (C10): a non-empty group is refused iff its first identifier is not above every existing variable
        'raises': {'ValueError': 'vg.ids_lo < vg.ids_hi and vg.ids_lo <= self._formula._numvar'},
        'ensures': [
            'implies(vg.ids_lo >= vg.ids_hi, self._formula._numvar == old(self._formula._numvar))',
            # contiguity bookkeeping (C11): the declared variable count becomes the group's last identifier
            'implies(vg.ids_lo < vg.ids_hi, self._formula._numvar == vg.ids_hi - 1 and vg.ids_lo > old(self._formula._numvar))',
            # the group is registered exactly once, last (C11: labels and groups stay aligned), also when it is empty
            'ocount(self._groups) == ocount(old(self._groups)) + 1', 'olast(self._groups) == vg',
        ],
        'ensures_on_raise': ['ocount(self._groups) == ocount(old(self._groups))', 'self._formula._numvar == old(self._formula._numvar)'],
    },
    (V, 'BinaryMappingVariables._unsafe_index_to_lit'): {
        'property': ['C11', 'C10'],
        'params': {'index': 'tuple:int,int'},
        # "unsafe": the caller guarantees a legal index (C10: trusts the caller)
        'requires': ['1 <= index[0]', 'index[0] <= self.domain_size', '0 <= index[1]', 'index[1] < self.bitlength'],
        'ensures': [
            # inside the group's own contiguous range (C10) ...
            'self.ids_lo <= result', 'result < self.ids_hi',
            # ... at the position of (i,b) in the enumeration order of indices(): i ascending, b descending (C11)
            'result == self.ids_lo + (index[0] - 1) * self.bitlength + (self.bitlength - 1 - index[1])',
        ],
    },
    (V, 'BinaryMappingVariables.to_index'): {
        'property': ['C11'],
        'params': {'lit': 'int'},
        'raises': {'ValueError': 'not (self.ids_lo <= abs(lit) and abs(lit) < self.ids_hi)'},
        'ensures': [
            '1 <= result[0]', 'result[0] <= self.domain_size', '0 <= result[1]', 'result[1] < self.bitlength',
            # round trip: converting the returned index back gives the variable of the literal (either polarity)
            'result[0] * self.bitlength - result[1] + self.id_offset == abs(lit)',
        ],
    },
}

# ---- BlockOfVariables: mixed-radix index arithmetic in arbitrary dimension d -------------------
# class invariant (established by __init__, see below): with d = len(ranges) = len(weights) >= 1,
#   weights[d-1] == 1, weights[t] == weights[t+1]*ranges[t+1], N == weights[0]*ranges[0], everything >= 0
BLOCK_INV = [
    'len(self.ranges) >= 1', 'len(self.weights) == len(self.ranges)', 'self.offset >= 1',
    'self.weights[len(self.ranges) - 1] == 1',
    'forall(lambda t: implies(0 <= t and t < len(self.ranges), self.ranges[t] >= 0 and self.weights[t] >= 0))',
    'forall(lambda t: implies(0 <= t and t < len(self.ranges) - 1, self.weights[t] == self.weights[t + 1] * self.ranges[t + 1]))',
    'self.N == self.weights[0] * self.ranges[0]',
    'self.ids_lo == self.offset', 'self.ids_hi == self.offset + self.N',
]
CLASSMODELS['BlockOfVariables'] = {
    'file': V, 'fields': {'ranges': 'intlist', 'weights': 'intlist', 'N': 'int', 'offset': 'int', 'ids': 'range:ids_lo:ids_hi'},
    'invariant': BLOCK_INV}

CONTRACTS.update({
    (V, 'BlockOfVariables._unsafe_index_to_lit'): {
        'property': ['C11'],
        'params': {'index': 'intlist'},
        'requires': ['len(index) == len(self.ranges)'],
        # the identifier is offset + the mixed-radix value of the index
        'ensures': ['result == self.offset + psum(index, self.weights, len(self.ranges))'],
    },
    (V, 'BlockOfVariables.to_index'): {
        'property': ['C11'],
        'params': {'lit': 'int'},
        'raises': {'ValueError': 'not (self.ids_lo <= abs(lit) and abs(lit) < self.ids_hi)'},
        'loops': {0: {'inv': [
            'len(index) == _it', '0 <= residue',
            'residue < ite(_it == 0, self.N, self.weights[_it - 1])',
            'forall(lambda s: implies(0 <= s and s < _it, 1 <= index[s] and index[s] <= self.ranges[s]))',
            'psum(index, self.weights, _it) + residue == var - self.offset',
            'var == abs(lit)', 'self.ids_lo <= var', 'var < self.ids_hi'],
            # nonlinear step spelled out for the solver: w*q <= old residue < w*r and w > 0 give q < r
            'hints': ['implies(w > 0 and index[_it] - 1 >= self.ranges[_it], w * (index[_it] - 1) >= w * self.ranges[_it])']}},
        'ensures': [
            'len(result) == len(self.ranges)',
            # legal index ...
            'forall(lambda s: implies(0 <= s and s < len(self.ranges), 1 <= result[s] and result[s] <= self.ranges[s]))',
            # ... whose identifier is the variable of the literal (round trip, either polarity)
            'self.offset + psum(result, self.weights, len(self.ranges)) == abs(lit)',
        ],
    },
})

CONTRACTS.update({
    (V, 'BaseVariableGroup.__init__'): {'inline_always': True},
    (V, 'BlockOfVariables.__init__'): {
        'property': ['C11', 'C10'],
        'params': {'self': 'newobj:BlockOfVariables', 'formula': 'obj:BaseCNF', 'ranges': 'intlist', 'labelfmt': 'optstr'},
        'requires': ['formula._numvar >= 0'],
        # documented: at least one dimension, all ranges non-negative integers; a label with too many placeholders
        'raises': {'ValueError': None},
        'loops': {
            0: {'inv': ['valid_ranges <= _it', '0 <= valid_ranges',
                        '(valid_ranges == _it) == forall(lambda s: implies(0 <= s and s < _it, ranges[s] >= 0))']},
            1: {'inv': ['len(weights) == _it + 1', 'weights[0] == 1',
                        'forall(lambda s: implies(0 <= s and s <= _it, weights[s] >= 0))',
                        # stated over the index that is read (E-matching instantiates it directly at weights[u])
                        'forall(lambda u: implies(1 <= u and u <= _it, weights[u] == weights[u - 1] * ranges[len(ranges) - u]), lambda u: weights[u])'],
                'hints': ['weights[_it + 1] == weights[_it] * ranges[len(ranges) - 1 - _it]', 'len(weights) == _it + 2'],
                'exit_hints': ['implies(len(ranges) >= 1, weights[len(ranges)] == weights[len(ranges) - 1] * ranges[0])']},
        },
        # the constructor establishes the class invariant that to_index/_unsafe_index_to_lit rely on,
        # and takes the first free identifiers (contiguity, C11/C10)
        'ensures': BLOCK_INV + ['self.offset == formula._numvar + 1'],
    },
})


# new_block(*ranges): constructor + registration = a fresh contiguous block (dimension 1 and 2 as contract variants; the constructor
# and the index functions above are proved for arbitrary dimension)
CLASSMODELS['ManagerV'] = dict(CLASSMODELS['VariablesManager'], real='VariablesManager')
CONTRACTS[(V, 'ManagerV.new_block')] = {
    'property': ['C10', 'C11'],
    'source': (V, 'VariablesManager.new_block'),
    'params': {'self': 'obj:ManagerV', 'ranges': 'tuple:int', 'label': 'optstr'},
    'requires': ['self._formula._numvar >= 0'],
    'raises': {'ValueError': None},
    'modifies': ['self._groups', 'self._formula._numvar'],
    'returns': 'obj:BlockOfVariables',
    'variants': {'dim1': {}, 'dim2': {'params': {'ranges': 'tuple:int,int'}}},
    'ensures': ['result.ids_lo == old(self._formula._numvar) + 1', 'result.ids_hi == result.ids_lo + result.N', 'result.N >= 0',
                'self._formula._numvar == old(self._formula._numvar) + result.N',
                'ocount(self._groups) == ocount(old(self._groups)) + 1', 'olast(self._groups) == result'] + [c.replace('self.', 'result.') for c in BLOCK_INV],
    'ensures_on_raise': ['self._formula._numvar == old(self._formula._numvar)', 'ocount(self._groups) == ocount(old(self._groups))'],
}


# single variables: SingletonVariableGroup and the allocator new_variable
CLASSMODELS['SingleVar'] = {'file': V, 'real': 'SingletonVariableGroup', 'fields': {'name': 'opaque', 'ids': 'range:ids_lo:ids_hi', 'formula': 'opaque', 'labelfmt': 'opaque'},
                            'invariant': ['self.ids_lo >= 1', 'self.ids_hi == self.ids_lo + 1']}
CONTRACTS.update({
    (V, 'SingleVar.__init__'): {
        'property': ['C11', 'C10'], 'source': (V, 'SingletonVariableGroup.__init__'),
        'params': {'self': 'newobj:SingleVar', 'formula': 'obj:BaseCNF', 'name': 'any'},
        'requires': ['formula._numvar >= 0'], 'raises': {},
        'ensures': ['self.ids_lo == formula._numvar + 1', 'self.ids_hi == self.ids_lo + 1', 'self.ids_lo >= 1'],
    },
    (V, 'SingleVar.__call__'): {
        'property': ['C11'], 'source': (V, 'SingletonVariableGroup.__call__'), 'params': {}, 'returns': 'int', 'raises': {},
        'ensures': ['result == self.ids_lo'],
    },
    (V, 'SingleVar.to_index'): {
        'property': ['C11'], 'source': (V, 'SingletonVariableGroup.to_index'), 'params': {'lit': 'int'},
        'raises': {'ValueError': 'abs(lit) != self.ids_lo'}, 'ensures': ['len(result) == 0'],
    },
    (V, 'ManagerV.new_variable'): {
        'property': ['C10', 'C11'], 'source': (V, 'VariablesManager.new_variable'),
        'params': {'self': 'obj:ManagerV', 'label': 'any'},
        'calls_model': {'SingletonVariableGroup': 'SingleVar'},
        'requires': ['self._formula._numvar >= 0'], 'raises': {}, 'returns': 'int',
        'modifies': ['self._groups', 'self._formula._numvar'],
        # the new variable is exactly the next identifier; registered once, last
        'ensures': ['result == old(self._formula._numvar) + 1', 'self._formula._numvar == result',
                    'ocount(self._groups) == ocount(old(self._groups)) + 1'],
    },
})
