"""Sidecar contracts for cnfgen/formula/basecnf.py and cnfgen/formula/linear.py  (C04, C10, C19).

Top-level postconditions are written from the property statement: the clauses added by a builder
are satisfied by exactly the assignments with  count_true(lits) <op> constant  (for an arbitrary
assignment `a`, a ghost parameter: proving the post for a fresh uninterpreted `a` is proving it for
all assignments).  WF(F) := every literal of every clause is non-zero and |l| <= numvar  (C10).
"""
B = 'cnfgen/formula/basecnf.py'
L = 'cnfgen/formula/linear.py'

WF = ['self._numvar >= 0', 'cmaxabs(self._clauses) <= self._numvar', 'not chaszero(self._clauses)']

CLASSMODELS = {
    'BaseCNF': {'file': B, 'fields': {'_clauses': 'mclist', '_numvar': 'int'}},
    'CNFLinear': {'file': L, 'fields': {'_clauses': 'mclist', '_numvar': 'int'}},
}


def CMP(op):
    return ("ite(op == '>=', count(a, lits) >= constant, ite(op == '<=', count(a, lits) <= constant, "
            "ite(op == '<', count(a, lits) < constant, ite(op == '>', count(a, lits) > constant, "
            "ite(op == '!=', count(a, lits) != constant, count(a, lits) == constant)))))")


def builder(meaning, extra_requires=()):
    """contract shape shared by every CNF constraint builder with signature (lits, ..., check)"""
    return {
        'property': ['C04', 'C10', 'C19'],
        'native': 'checks.C04:native_cnf',
        'tags': {'sat(a,': ['C04'], 'ctake(': ['C19'], 'clen(self._clauses) >=': ['C19'], '_numvar': ['C10'],
                 'cmaxabs': ['C10'], 'chaszero': ['C10']},
        'ghost_params': {'a': 'asg'},
        'requires': WF + ['implies(not check, maxabs(lits) <= self._numvar and not haszero(lits))'] + list(extra_requires),
        'raises': {'ValueError': 'check and haszero(lits)'},
        'modifies': ['self._clauses', 'self._numvar'],
        'ensures': [
            # the property: exactly the assignments satisfying the arithmetic statement
            'sat(a, self._clauses) == (sat(a, old(self._clauses)) and ({}))'.format(meaning),
            # existing clauses are kept, in place (C19/C10)
            'clen(self._clauses) >= clen(old(self._clauses))',
            'ctake(self._clauses, clen(old(self._clauses))) == old(self._clauses)',
            # variable count: raised to the largest literal iff check (C10)
            'self._numvar == ite(check, zmax(old(self._numvar), maxabs(lits)), old(self._numvar))',
        ] + WF,
    }


CONTRACTS = {
    ('cnfgen/localtypes.py', 'non_negative_int'): {'inline_always': True},
    (B, 'BaseCNF._check_and_update'): {
        'property': ['C10'],
        'params': {'data': 'iseq'},
        'requires': ['self._numvar >= 0'],
        'raises': {'ValueError': 'ilen(data) > 0 and haszero(data)'},
        'modifies': ['self._numvar'],
        'ensures': ['self._numvar == zmax(old(self._numvar), maxabs(data))'],
        'ensures_on_raise': ['self._numvar == old(self._numvar)'],       # refused before anything is updated (callers rely on it)
    },
    (B, 'BaseCNF.add_clause'): {
        'property': ['C10', 'C19'],
        'params': {'clause': 'iseq', 'check': 'bool'},
        'requires': WF + ['implies(not check, maxabs(clause) <= self._numvar and not haszero(clause))'],
        'raises': {'ValueError': 'check and haszero(clause)'},
        'modifies': ['self._clauses', 'self._numvar'],
        'ensures': ['self._clauses == csnoc(old(self._clauses), clause)',
                    'self._numvar == ite(check, zmax(old(self._numvar), maxabs(clause)), old(self._numvar))'] + WF,
        'ensures_on_raise': ['self._numvar == old(self._numvar)'],
    },
    (B, 'BaseCNF.add_clauses_from'): {
        # appends exactly the given clauses, in order; refuses (ValueError) iff checking and some clause has a zero literal
        'property': ['C10', 'C19', 'C05'],
        'params': {'clauses': 'cseq', 'check': 'bool'},
        'requires': WF + ['implies(not check, cmaxabs(clauses) <= self._numvar and not chaszero(clauses))'],
        'raises': {'ValueError': 'check and chaszero(clauses)'},
        'modifies': ['self._clauses', 'self._numvar'],
        'loops': {0: {'ghost_at_entry': {'C0': 'self._clauses', 'S': '_iter'}, 'ghost_at_entry_vals': {'NV0': 'self._numvar'},
                      'inv': ['self._clauses == capp(C0, ctake(S, _it))',
                              'self._numvar == ite(check, zmax(NV0, cmaxabs(ctake(S, _it))), NV0)',
                              'implies(check, not chaszero(ctake(S, _it)))',
                              'S == clauses'] + WF,
                      'modifies_objects': ['self'], 'modifies_fields': {'self': ['_clauses', '_numvar']}}},
        'ensures': ['self._clauses == capp(old(self._clauses), clauses)',
                    'self._numvar == ite(check, zmax(old(self._numvar), cmaxabs(clauses)), old(self._numvar))'] + WF,
    },
    (L, 'CNFLinear.add_linear'): dict(
        builder(CMP('op')),
        params={'lits': 'iseq', 'op': 'str', 'constant': 'int', 'check': 'bool'},
        raises={'ValueError': "(op != '<=' and op != '>=' and op != '<' and op != '>' and op != '==' and op != '!=') or (check and haszero(lits))"},
        decreases="ite(op == '>=', 0, ite(op == '<=', 1, ite(op == '>', 1, 2)))",
        loops={0: {'ghost_at_entry': {'C0': 'self._clauses', 'L0': 'lits'}, 'ghost_at_entry_vals': {'NV': 'self._numvar'},
                   # after each complete round the private copy of the literal list is back to its original content
                   'inv': ['self._clauses == capp(C0, neqprefix(L0, constant, _it))', 'lits == L0', 'self._numvar == NV',
                           '0 <= constant', 'constant <= n', 'n == ilen(L0)'],
                   'modifies_objects': ['self'], 'modifies_fields': {'self': ['_clauses', '_numvar']}},
               1: {'ghost_at_entry': {'L1': 'lits'}, 'inv': ['lits == iflips(L1, flips, _it)']},
               2: {'ghost_at_entry': {'L2': 'lits'}, 'inv': ['lits == iflips(L2, flips, _it)']},
               3: {'ghost_at_entry': {'C0': 'self._clauses'},
                   'inv': ['self._clauses == capp(C0, ctake(combs(lits, k), _it))', 'self._numvar == old_numvar_at_entry'],
                   'ghost_at_entry_vals': {'old_numvar_at_entry': 'self._numvar'},
                   'modifies_objects': ['self'], 'modifies_fields': {'self': ['_clauses', '_numvar']}}},
    ),
    # parity: odd number of true literals iff constant == 1 (any other constant means "even", as the code documents {0,1})
    (L, 'CNFLinear.add_parity'): dict(
        builder('(count(a, lits) % 2 == 1) == (constant == 1)'),
        params={'lits': 'iseq', 'constant': 'int', 'check': 'bool'},
        loops={0: {'ghost_at_entry': {'C0': 'self._clauses'}, 'ghost_at_entry_vals': {'NV0': 'self._numvar'},
                   'inv': ['self._clauses == capp(C0, pfilter(lits, desired_sign, _it))', 'self._numvar == NV0'],
                   'modifies_objects': ['self'], 'modifies_fields': {'self': ['_clauses', '_numvar']}}},
    ),
    (L, 'CNFLinear.cardinality_geq'): dict(builder('count(a, lits) >= value'), params={'lits': 'iseq', 'value': 'int', 'check': 'bool'}),
    (L, 'CNFLinear.cardinality_leq'): dict(builder('count(a, lits) <= value'), params={'lits': 'iseq', 'value': 'int', 'check': 'bool'}),
    (L, 'CNFLinear.cardinality_eq'): dict(builder('count(a, lits) == value'), params={'lits': 'iseq', 'value': 'int', 'check': 'bool'}),
    # meanings written from the names: at least half / at most half / more than half / less than half
    (L, 'CNFLinear.add_loose_majority'): dict(builder('2 * count(a, lits) >= ilen(lits)'), params={'lits': 'iseq', 'check': 'bool'}),
    (L, 'CNFLinear.add_loose_minority'): dict(builder('2 * count(a, lits) <= ilen(lits)'), params={'lits': 'iseq', 'check': 'bool'}),
    (L, 'CNFLinear.add_strict_majority'): dict(builder('2 * count(a, lits) > ilen(lits)'), params={'lits': 'iseq', 'check': 'bool'}),
    (L, 'CNFLinear.add_strict_minority'): dict(builder('2 * count(a, lits) < ilen(lits)'), params={'lits': 'iseq', 'check': 'bool'}),
}
