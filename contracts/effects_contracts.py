"""Effect contracts (DESIGN 2.1 'effects', properties C07 C18 C19 C20): what each function is ALLOWED to do.

The engine (pyvc/effects.py) computes, from the real source under $VERIF_REPO, one effect summary per
function (frames / RNG typestate / nondeterministic sources / exception escape / temp-file and
definite-assignment typestate).  Every entry of EFFECT_CONTRACTS below selects functions and states a
clause; (function, clause) is one *obligation*, discharged iff the computed summary satisfies the clause.

This file also holds
  * LIBRARY: the explicit, conservative table for callees that are not in the repository (the trusted seam
    of the effects mode; every line is reported as an assumption in the evidence),
  * INTERFACE_PARAMS: the dispatch convention for class-valued parameters,
  * NARROWED: what the contracts deliberately do NOT claim (and why) - the analysis is flow-sensitive but
    value-insensitive, so clauses whose decision needs values are left to pyvc hazards / the bounded tiers,
  * WAIVERS: individual (function, effect, source-text anchor) triples that are artefacts of the
    over-approximation, each with the reason.  A waiver only applies while the anchored source text is
    still present in the function; it is counted as ASSUMED, never as discharged.

`CONTRACTS = {}` keeps pyvc.run.load_contracts (which loads every module of this package) happy.
"""

CONTRACTS = {}

# ----------------------------------------------------------------------------------------------
# dispatch conventions
# ----------------------------------------------------------------------------------------------
# a parameter with one of these names holds a class object; calls through it are resolved to the
# constructors / methods of the listed classes (the interface classes of cnfgen/formula/*.py).
INTERFACE_PARAMS = {
    'formula_class': ['cnfgen/formula/cnf.py:CNF', 'cnfgen/formula/opb.py:OPB'],
    'cnfclass': ['cnfgen/formula/cnf.py:CNF'],
    'graph_class': ['cnfgen/graphs.py:Graph', 'cnfgen/graphs.py:DirectedGraph'],
    'grtype': ['cnfgen/graphs.py:Graph', 'cnfgen/graphs.py:DirectedGraph', 'cnfgen/graphs.py:BipartiteGraph'],
}
# parameters that conventionally hold an *instance* of a formula (receiver of interface methods)
INSTANCE_PARAMS = {
    'formula': ['cnfgen/formula/cnf.py:CNF', 'cnfgen/formula/opb.py:OPB'],
}

# ----------------------------------------------------------------------------------------------
# LIBRARY: explicit table for callees outside the repository
# ----------------------------------------------------------------------------------------------
LIBRARY = {
    # receiver-mutating methods of builtin containers: name -> index of the stored argument
    # (None: nothing stored, 'all': every argument's elements are stored)
    'mutator_methods': {
        'append': 0, 'extend': 'all', 'insert': 1, 'remove': None, 'sort': None, 'pop': None,
        'reverse': None, 'clear': None, 'update': 'all', 'setdefault': 1, '__setitem__': 1,
        'add': 0, 'discard': None, 'popitem': None, 'difference_update': None,
        'intersection_update': None, 'symmetric_difference_update': 'all', '__delitem__': None,
        'appendleft': 0, 'extendleft': 'all', 'popleft': None, 'move_to_end': None,
        # networkx graph objects (readGraph works on them before conversion)
        'remove_node': None, 'add_node': None, 'add_nodes_from': 'all', 'remove_nodes_from': None,
        'remove_edges_from': None,
    },
    # functions mutating an argument: name -> (index of the mutated argument, index stored or None)
    'mutator_functions': {
        'random.shuffle': (0, None), 'builtins.setattr': (0, 2), 'builtins.delattr': (0, None),
        'heapq.heappush': (0, 1), 'heapq.heappop': (0, None), 'heapq.heapify': (0, None),
        'bisect.insort': (0, 1), 'operator.setitem': (0, 2),
    },
    # result is a NEW container holding the elements of the arguments (shallow copy)
    'fresh_shallow': ['builtins.list', 'builtins.tuple', 'builtins.sorted', 'builtins.set',
                      'builtins.frozenset', 'builtins.dict', 'builtins.reversed', 'builtins.iter',
                      'copy.copy', 'collections.OrderedDict', 'collections.deque', 'method:copy'],
    # result is new and shares nothing with the arguments
    'fresh_deep': ['copy.deepcopy'],
    # result may be (an element of) the argument / receiver
    'returns_element': ['builtins.next', 'builtins.getattr', 'builtins.min', 'builtins.max',
                        'method:get', 'method:setdefault', 'method:pop', 'method:popitem',
                        'method:__getitem__', 'functools.reduce'],
    # scalar / immutable result, no effect
    'pure_scalar': ['builtins.len', 'builtins.int', 'builtins.float', 'builtins.str', 'builtins.abs',
                    'builtins.sum', 'builtins.bool', 'builtins.range', 'builtins.isinstance',
                    'builtins.hasattr', 'builtins.type', 'builtins.repr', 'builtins.format',
                    'builtins.print', 'builtins.ord', 'builtins.chr', 'builtins.round', 'builtins.divmod',
                    'builtins.pow', 'builtins.any', 'builtins.all', 'builtins.callable',
                    'builtins.issubclass', 'builtins.vars', 'builtins.dir', 'builtins.bin',
                    'inspect.isgenerator', 'math.*', 'os.path.*', 'textwrap.*',
                    # str / bytes / file-object methods
                    'method:format', 'method:split', 'method:strip', 'method:join', 'method:replace',
                    'method:startswith', 'method:endswith', 'method:splitlines', 'method:lower',
                    'method:upper', 'method:encode', 'method:decode', 'method:index', 'method:count',
                    'method:isatty', 'method:readlines', 'method:readline', 'method:read',
                    'method:write', 'method:close', 'method:flush', 'method:getvalue', 'method:seek',
                    'method:keys', 'method:lstrip', 'method:rstrip', 'method:isdigit', 'method:find'],
    # everything else: result is a new object that may contain the arguments and their elements; the
    # arguments are NOT mutated (e.g. zip, enumerate, itertools.product/combinations, networkx builders).

    # ---- RNG ---------------------------------------------------------------------------------
    'rng_seed': ['random.seed'],
    'rng_use': ['random.random', 'random.randint', 'random.randrange', 'random.choice', 'random.choices',
                'random.sample', 'random.shuffle', 'random.uniform', 'random.getrandbits',
                'random.gauss', 'random.betavariate', 'random.expovariate', 'random.triangular',
                # networkx generators that fall back to the global `random` when seed=None
                'networkx.random_regular_graph', 'networkx.gnp_random_graph', 'networkx.gnm_random_graph',
                'networkx.fast_gnp_random_graph', 'networkx.erdos_renyi_graph',
                'networkx.dense_gnm_random_graph', 'networkx.binomial_graph',
                'networkx.bipartite.random_graph', 'networkx.bipartite.gnmk_random_graph',
                'networkx.*random*'],
    # ---- nondeterministic sources (DESIGN C07) --------------------------------------------------
    'nondet': ['builtins.id', 'builtins.hash', 'time.*', 'datetime.*', 'os.getpid', 'os.getcwd',
               'os.getenv', 'os.environ', 'os.urandom', 'os.times', 'uuid.*', 'subprocess.*',
               'tempfile.mkstemp', 'tempfile.mktemp', 'tempfile.NamedTemporaryFile',
               'random.SystemRandom', 'secrets.*', 'socket.*', 'platform.*'],
    # ---- exceptions of library callees (only these; see NARROWED) -------------------------------
    'raises': {
        'builtins.int': ['ValueError'], 'builtins.float': ['ValueError'],
        'builtins.open': ['FileNotFoundError', 'OSError'],
        'builtins.next': ['StopIteration'],            # refined: see engine min_yields
        'method:index': ['ValueError'],
        # strict coding only (the default): with errors='replace' / 'ignore' / ... (keyword or 2nd positional argument)
        # neither str.encode nor bytes.decode can raise; decoding the result of a lenient encode with the same codec neither
        'method:encode': ['UnicodeEncodeError'], 'method:decode': ['UnicodeDecodeError'],
        'sys.exit': ['SystemExit'], 'builtins.exit': ['SystemExit'],
        'random.sample': ['ValueError'],               # + TypeError when the population is a generator/set (py>=3.11)
        'random.randint': ['ValueError'], 'random.randrange': ['ValueError'],
        'subprocess.Popen': ['OSError', 'FileNotFoundError'],
        'subprocess.check_output': ['CalledProcessError', 'OSError', 'FileNotFoundError'],
        'networkx.read_gml': ['NetworkXError'],
        'networkx.nx_pydot.read_dot': ['TypeError'],   # as the code's own comment says
        'method:remove_node': ['NetworkXError'],
        # tuple unpacking of a non-literal right-hand side: ValueError (arity)   -> pseudo callee
        '<unpack>': ['ValueError'],
        # argparse: parse_args reports its own errors through parser.error (CLIParser.error -> CLIError),
        # -h/--help/--version exit through SystemExit; exceptions of custom Action.__call__ propagate,
        # exceptions ArgumentTypeError/TypeError/ValueError of `type=` callables become parser.error
        '<parse_args>': ['SystemExit'],
    },
    # library preconditions: callee -> (i, j, Exc): raises Exc unless `arg_i < arg_j` (two local names) has been
    # established on every path to the call by an assert / an if-raise guard in the same function
    'raises_unless_lt': {
        'networkx.random_regular_graph': (0, 1, 'NetworkXError'),   # networkx: "the 0 <= d < n inequality must be satisfied"
    },
    # library exception classes: name -> base
    'exception_bases': {
        'ArgumentTypeError': 'Exception', 'ArgumentError': 'Exception',
        'NetworkXError': 'NetworkXException', 'NetworkXException': 'Exception',
        'NetworkXNoPath': 'NetworkXUnfeasible', 'NetworkXUnfeasible': 'NetworkXAlgorithmError',
        'NetworkXAlgorithmError': 'NetworkXException',
        'CalledProcessError': 'SubprocessError', 'SubprocessError': 'Exception',
        'ParseException': 'Exception',
    },
}

# ----------------------------------------------------------------------------------------------
# What the contracts do not claim (stated, not silently dropped)
# ----------------------------------------------------------------------------------------------
NARROWED = [
    ('C18', 'value hazards',
     'IndexError / ZeroDivisionError / AttributeError / TypeError from operators; emptiness and membership '
     'hazards (max()/min()/random.choice of an empty sequence, list.remove/set.remove of an absent element, '
     'next() on a generator EXPRESSION, KeyError of a dict that is filled dynamically or lives at module level '
     'and is indexed by a parameter): their decision needs values; they are the safety hazards of pyvc '
     '(DESIGN 2.1) and the argv grammar of the bounded tier, not effect clauses.  KeyError IS modelled for a '
     'local dict literal with constant keys (cli: comment_char[output_format]); StopIteration IS modelled for '
     'next() on a repository generator function (least number of yields before it can finish) and on unknown iterators.'),
    ('C18', 'assert',
     'assert statements reachable from cli() whose AssertionError is not caught locally are value '
     'conditions (internal consistency checks); they are counted and listed as ASSUMED-to-hold, the '
     'bounded tier exercises them.  AssertionError caught by a handler (graph_build) is discharged.'),
    ('C18', 'type guards',
     'raise TypeError that is lexically guarded by an isinstance()/type() test (localtypes validators, '
     'Graph.normalize, VariablesManager type checks) and the re-raise of such a TypeError: whether the CLI '
     'can pass a wrongly typed value depends on the argparse type= of every option, i.e. on values; '
     'left to the bounded tier.  Any other TypeError source is kept.'),
    ('C18', 'abstract methods',
     'methods whose body is `raise NotImplementedError` are interface declarations; dynamic dispatch by '
     'method name never selects them (get_formula_helpers filters the base classes out, BaseGraph is abstract).'),
    ('C18', 'stream I/O',
     'read()/write()/readlines() on an already open stream are assumed not to raise (BrokenPipe/IOError are '
     'caught in main() anyway).'),
    ('C20', 'environment failures',
     'creating / unlinking a temporary file is assumed not to fail (no temp directory, disk full): outside the '
     'quantifier of the property (solvers and their output are demonic, the file system is not).'),
    ('C19', 'str/number augmented assignment',
     '`x[k] += <str or number expression>` rebinds the slot (immutable element); only the container x is written.'),
    ('C19', 'stream I/O is not a frame write', 'writing to a file object argument is not a mutation of an input.'),
    ('C19', 'callable arguments',
     'a function-valued parameter (apply_substitution(subst)) is charged to the caller that passes the '
     'function: the closure body is analysed at the call site that passes it.'),
    ('C20', 'temp-file typestate',
     'checked on normal exits and on explicit raise statements of the function; exceptional exits through '
     'callees between creation and the try block are not claimed.'),
    ('C07', 'str seed',
     'cnfshuffle parses --seed with type=str; a truthiness guard on a str skips only the empty string, '
     'which is not an integer seed (outside the property); for type=int it skips 0 (D01).'),
    ('C07', 'argparse ordering (ASSUMED library fact)',
     'ArgumentParser.parse_args consumes argv left to right; a sub-parsers action takes everything after the sub-command '
     'name, and options of the main parser are not recognised there.  Hence, when --seed is given, the Action of the '
     'main parser\'s seed option runs before every Action registered on a sub-parser (sub-command or nested parser '
     'run from such an action).  The analysis therefore counts `P.parse_args(..)` as seeding-before-any-RNG-use iff '
     '(a) an Action class registered on the SAME parser object P (identified by its allocation site, tracked through '
     'tuple returns and parameters) has a __call__ that calls random.seed(<the parsed value parameter>) on every '
     'normal path, and (b) no other Action registered on P itself, or on a parser of unknown identity, may use the '
     'RNG (in the context of this entry point, incl. nested parse_args) and no type= validator does.  Actions '
     'registered on results of add_parser(..) or on other parser objects do not count against (b).  A parser '
     'received as a parameter is decided by the caller (conditional typestate if:<param>).  With (a),(b) the later '
     '`random.seed(args.seed)` in cli() is redundant for dominance: removing it keeps the obligation discharged '
     '(the formula RNG use is still dominated by the action); its guard is still checked for exactness (D01).'),
    ('C07', 'nondeterministic sources',
     'the list LIBRARY[nondet] plus default object repr reaching str/format/%/f-string/print and iteration '
     'over a syntactically visible set; nondeterminism inside networkx/pydot is covered by the bounded runs only.'),
]

# ----------------------------------------------------------------------------------------------
# WAIVERS: artefacts of over-approximation, each anchored to source text and reasoned
#   (contracted function id glob, effect kind, what glob, anchor text that must occur in the source of the function
#    that holds the offending statement, reason)
# ----------------------------------------------------------------------------------------------
_CLOSED = ('guarded by `if multi_edges:`; multi_edges defaults to False, readGraph only forwards its own value and no caller '
           'in the repository passes another one (closed world of the CLI entry points; a library user who passes '
           'multi_edges=True gets the documented NotImplementedError)')
_LABELS = ('argument-validation raise of a variable-group / graph accessor.  The output stage reaches it only through '
           'all_variable_labels() -> label() -> indices() with an EMPTY pattern (the len(pattern)==0 branch) over the group\'s '
           'own index domain; totality of label/indices on the own domain is the C11 proof (contracts/variables_groups.py). '
           'Deciding it here would need values.')
WAIVERS = [
    ('*', 'raises', 'NotImplementedError@readGraph', 'if multi_edges:', _CLOSED),
    ('*', 'raises', 'NotImplementedError@_process_graph_io_arguments', 'if multi_edges:', _CLOSED),
    ('*', 'raises', 'RuntimeError@_process_graph_io_arguments', 'Unknown graph type argument',
     'else-branch of an if/elif over dag|digraph / simple / bipartite that follows `if graph_type not in [those four]: raise ValueError`: unreachable'),
    ('*', 'raises', 'RuntimeError@readGraph', '[Internal error] Format {} not implemented',
     'else-branch after elif over dot/gml/kthlist/dimacs/matrix; file_format was validated by _process_graph_io_arguments '
     'against <class>.supported_file_formats(), whose three implementations return subsets of these five names: unreachable'),
    ('*', 'raises', 'RuntimeError@writeGraph', '[Internal error] Format {} not implemented',
     'same as readGraph: file_format validated against supported_file_formats() before the elif chain: unreachable'),
    ('*', 'raises', 'RuntimeError@VariableCompression', 'not supported for compression',
     'else-branch after one_of_values(function, [xor, maj]) and both values handled: unreachable'),
    ('cnfgen/utils/solver.py:*', 'raises', '*Error@to_dimacs_file', 'isinstance(fileorname, str)',
     'to_dimacs() calls to_dimacs_file(self, StringIO(), export_header=False, export_varnames=False): the open() branch '
     'needs a str file name (flag/type dependent path, not decidable without values)'),
    ('cnfgen/formula/cnfio.py:CNFio.*', 'raises', '*Error@to_dimacs_file', 'isinstance(fileorname, str)',
     'same: solve()/is_satisfiable() reach to_dimacs_file only through to_dimacs() with a StringIO'),
    ('cnfgen/utils/solver.py:*', 'raises', 'ValueError@*.indices', 'raise ValueError',
     'label enumeration is reached only under export_varnames=True; to_dimacs() passes export_varnames=False'),
    ('cnfgen/utils/solver.py:*', 'raises', 'ValueError@*.label', 'raise ValueError',
     'label enumeration is reached only under export_varnames=True; to_dimacs() passes export_varnames=False'),
    ('cnfgen/utils/solver.py:*', 'raises', 'ValueError@BipartiteGraph.*_neighbors', 'raise ValueError',
     'label enumeration is reached only under export_varnames=True; to_dimacs() passes export_varnames=False'),
    ('cnfgen/utils/solver.py:*', 'raises', 'UnicodeEncodeError@_satsolve_*', 'F.to_dimacs().encode',
     'to_dimacs() without header and variable names emits only "p cnf", digits, "-", blanks and newlines: pure ASCII'),
    ('cnfgen/clitools/*', 'raises', 'ValueError@guess_output_format', 'fileformat_request can be either',
     'cli passes args.output_format, restricted by argparse choices=[latex, dimacs, opb] (default None): all four values '
     'return before the raise'),
    ('cnfgen/clitools/*', 'raises', 'ValueError@*Variables.indices', 'raise ValueError', _LABELS),
    ('cnfgen/clitools/*', 'raises', 'ValueError@*VariableGroup.indices', 'raise ValueError', _LABELS),
    ('cnfgen/clitools/*', 'raises', 'ValueError@*Variables.label', 'raise ValueError', _LABELS),
    ('cnfgen/clitools/*', 'raises', 'ValueError@BipartiteGraph.*_neighbors', 'raise ValueError', _LABELS),
]

# ----------------------------------------------------------------------------------------------
# The contracts
#   select: {'files': glob, 'public': True}  top-level public functions of the files
#           {'functions': [ids]}             explicit 'rel:qual'
#           {'files': glob, 'with_param': 'seed'} top-level functions having that parameter
#   kinds / clauses are implemented in pyvc/effects.py: check_contract()
# ----------------------------------------------------------------------------------------------
EFFECT_CONTRACTS = [
    # ------------------------------------------------------------------ C19 frames
    dict(id='frame.transformations', prop='C19', kind='frame',
         select={'files': 'cnfgen/transformations/*.py', 'public': True,
                 'exclude': ['cnfgen/transformations/substitutions.py:add_description',
                             'cnfgen/transformations/substitutions.py:escape_curly']},
         clause='modifies nothing reachable from any argument (formula, graph, lists)',
         params='*', min_functions=18),
    dict(id='frame.add_description', prop='C19', kind='frame-only',
         select={'functions': ['cnfgen/transformations/substitutions.py:add_description']},
         clause='modifies exactly F.header (the dict object), nothing else reachable from F or text',
         allowed=[('F', ('header',))], min_functions=1),
    dict(id='frame.families', prop='C19', kind='frame',
         select={'files': 'cnfgen/families/*.py', 'public': True},
         clause='does not mutate its graph / list / other arguments',
         params='*', min_functions=30),
    dict(id='frame.builders.cnf', prop='C19', kind='frame',
         select={'class_methods': 'cnfgen/formula/linear.py:CNFLinear', 'with_param': 'lits'},
         clause='does not mutate `lits`', params=['lits'], min_functions=9),
    dict(id='frame.builders.opb', prop='C19', kind='frame',
         select={'class_methods': 'cnfgen/formula/baseopb.py:BaseOPB', 'with_param': 'lits'},
         clause='does not mutate `lits`', params=['lits'], min_functions=9),
    dict(id='frame.add_clause', prop='C19', kind='frame',
         select={'functions': ['cnfgen/formula/basecnf.py:BaseCNF.add_clause',
                               'cnfgen/formula/basecnf.py:BaseCNF.add_clauses_from',
                               'cnfgen/formula/baseopb.py:BaseOPB.add_clause',
                               'cnfgen/formula/baseopb.py:BaseOPB.add_constraint',
                               'cnfgen/formula/baseopb.py:BaseOPB.add_constraints_from']},
         clause='does not mutate the clause / constraint argument', params='*nonself', min_functions=5),
    dict(id='frame.normalize_opb', prop='C19', kind='frame',
         select={'functions': ['cnfgen/formula/baseopb.py:normalize_opb']},
         clause='does not mutate `constraint`', params=['constraint'], min_functions=1),
    dict(id='frame.graph_generators', prop='C19', kind='frame',
         select={'files': 'cnfgen/graphs.py', 'public': True,
                 'exclude': ['cnfgen/graphs.py:split_random_edges', 'cnfgen/graphs.py:add_random_missing_edges',
                             'cnfgen/graphs.py:writeGraph', 'cnfgen/graphs.py:readGraph']},
         clause='does not mutate list arguments (and has no mutable default that it writes)',
         params='*', min_functions=10,
         note='split_random_edges / add_random_missing_edges are documented in-place modifiers of G; '
              'readGraph/writeGraph only do stream I/O on their file argument'),
    dict(id='frame.views', prop='C19', kind='frame',
         select={'functions': ['cnfgen/utils/parsedimacs.py:to_dimacs_file', 'cnfgen/utils/opb.py:to_opb_file',
                               'cnfgen/utils/latexoutput.py:to_latex_string',
                               'cnfgen/utils/latexoutput.py:to_latex_document']},
         clause='writers do not write through the internal lists handed out by __iter__', params=['formula'],
         min_functions=4),
    # ------------------------------------------------------------------ C07 RNG typestate + nondeterminism
    dict(id='rng.cli.guard', prop='C07', kind='rng-guard',
         select={'functions': ['cnfgen/clitools/cnfgen.py:cli', 'cnfgen/clitools/pbgen.py:cli',
                               'cnfgen/clitools/cnfshuffle.py:cli']},
         clause='random.seed(seed) is executed for every given integer seed (the guard does not skip a value)',
         min_functions=3),
    dict(id='rng.cli.dominance', prop='C07', kind='rng-dominance', entry=True,
         select={'functions': ['cnfgen/clitools/cnfgen.py:cli', 'cnfgen/clitools/pbgen.py:cli',
                               'cnfgen/clitools/cnfshuffle.py:cli']},
         clause='random.seed(seed) dominates every call that may use the RNG (incl. argparse actions run by parse_args)',
         min_functions=3),
    dict(id='rng.generators', prop='C07', kind='rng-dominance',
         select={'files': ['cnfgen/families/*.py', 'cnfgen/graphs.py'], 'with_param': 'seed'},
         clause='`seed is not None => random.seed(seed)` precedes every RNG use', require_exact_guard=True,
         min_functions=6),
    dict(id='nondet.families', prop='C07', kind='nondet',
         select={'files': 'cnfgen/families/*.py', 'public': True},
         clause='no description / header / clause depends on a nondeterministic source '
                '(assuming the contracts of the formula constructors)',
         min_functions=30),
    dict(id='nondet.constructors', prop='C07', kind='nondet',
         select={'functions': ['cnfgen/formula/basecnf.py:BaseCNF.__init__', 'cnfgen/formula/baseopb.py:BaseOPB.__init__',
                               'cnfgen/info.py:get_version']},
         clause='header fields written by the constructor (generator/version) depend on no nondeterministic source',
         min_functions=3),
    dict(id='nondet.transformations', prop='C07', kind='nondet',
         select={'files': 'cnfgen/transformations/*.py', 'public': True},
         clause='no header entry / clause depends on a nondeterministic source', min_functions=18),
    dict(id='nondet.graphs', prop='C07', kind='nondet',
         select={'files': 'cnfgen/clitools/graph_build.py', 'public': True},
         clause='graph names / structure depend on no nondeterministic source other than the seeded RNG',
         min_functions=20),
    # ------------------------------------------------------------------ C18 exception escape
    dict(id='raises.main', prop='C18', kind='escape-main',
         select={'functions': ['cnfgen/clitools/cnfgen.py:main', 'cnfgen/clitools/pbgen.py:main',
                               'cnfgen/clitools/cnfshuffle.py:main', 'cnfgen/clitools/kthlist2pebbling.py:main']},
         clause='every exception raised below cli() is converted in cli() or caught in main(): nothing but SystemExit leaves main()',
         allowed=['SystemExit'], entry=True, min_functions=4),
    dict(id='raises.cli.documented', prop='C18', kind='raises-only', entry=True,
         select={'functions': ['cnfgen/clitools/cnfgen.py:cli', 'cnfgen/clitools/pbgen.py:cli']},
         clause='cli() raises only CLIError / InternalBug (documented), SystemExit (help, version) or OSError (output stream)',
         allowed=['CLIError', 'InternalBug', 'SystemExit', 'OSError'], min_functions=2),
    dict(id='raises.validators', prop='C18', kind='raises-only',
         select={'argparse_validators': True, 'functions': ['cnfgen/clitools/cmdline.py:probability']},
         clause='argparse type= validators raise only ArgumentTypeError',
         allowed=['ArgumentTypeError'], min_functions=4),
    dict(id='raises.actions', prop='C18', kind='raises-only',
         select={'argparse_actions': True},
         clause='custom argparse Action.__call__ raise only CLIError (parser.error), SystemExit, or InternalBug/OSError (caught in main)',
         allowed=['CLIError', 'SystemExit', 'InternalBug', 'OSError'], entry_all=True, min_functions=4,
         note='InternalBug and OSError are caught in main(); FileNotFoundError is converted by the action itself'),
    dict(id='raises.graph_build', prop='C18', kind='raises-only',
         select={'files': 'cnfgen/clitools/graph_build.py', 'prefix': ['obtain_', 'modify_']},
         clause='graph constructions of the command line raise only ValueError (their assert statements validate user '
                'input: AssertionError must be caught too)',
         allowed=['ValueError'], strict_asserts=True, min_functions=20),
    dict(id='raises.graph_spec', prop='C18', kind='raises-only',
         select={'functions': ['cnfgen/clitools/graph_args.py:parse_graph_argument',
                               'cnfgen/clitools/graph_args.py:obtain_graph',
                               'cnfgen/clitools/graph_args.py:make_graph_from_spec']},
         clause='raise only ValueError / OSError (FileNotFoundError) [/ InternalBug]',
         allowed=['ValueError', 'OSError', 'InternalBug'], min_functions=3),
    dict(id='raises.graph_readers', prop='C18', kind='raises-only',
         select={'functions': ['cnfgen/graphs.py:_kthlist_parse', 'cnfgen/graphs.py:_read_bipartite_kthlist',
                               'cnfgen/graphs.py:_read_nonbipartite_kthlist',
                               'cnfgen/graphs.py:_read_graph_dimacs_format',
                               'cnfgen/graphs.py:_read_graph_matrix_format']},
         clause='graph readers raise only ValueError', allowed=['ValueError'], min_functions=5),
    dict(id='raises.dimacs', prop='C18', kind='raises-only',
         select={'functions': ['cnfgen/utils/parsedimacs.py:parse_dimacs']},
         clause='parse_dimacs raises only ValueError', allowed=['ValueError'], min_functions=1),
    dict(id='raises.dimacs.file', prop='C18', kind='raises-only',
         select={'functions': ['cnfgen/utils/parsedimacs.py:from_dimacs_file']},
         clause='from_dimacs_file raises only ValueError (or OSError from open())',
         allowed=['ValueError', 'OSError'], min_functions=1),
    # ------------------------------------------------------------------ C20 solver bridge
    dict(id='solver.raises.bridge', prop='C20', kind='raises-only',
         select={'functions': ['cnfgen/utils/solver.py:_satsolve_filein_fileout',
                               'cnfgen/utils/solver.py:_satsolve_stdin_stdout',
                               'cnfgen/utils/solver.py:_satsolve_filein_stdout']},
         clause='bridge functions raise only the documented RuntimeError (solver text that is not a number: ValueError is NOT documented)',
         allowed=['RuntimeError'], min_functions=3),
    dict(id='solver.raises.api', prop='C20', kind='raises-only',
         select={'functions': ['cnfgen/utils/solver.py:sat_solve', 'cnfgen/formula/cnfio.py:CNFio.solve',
                               'cnfgen/formula/cnfio.py:CNFio.is_satisfiable']},
         clause='raises only the documented TypeError / ValueError / RuntimeError',
         allowed=['TypeError', 'ValueError', 'RuntimeError'], min_functions=3),
    dict(id='solver.raises.probe', prop='C20', kind='raises-only',
         select={'functions': ['cnfgen/utils/solver.py:some_solver_installed',
                               'cnfgen/utils/solver.py:supported_satsolvers']},
         clause='raises only the documented TypeError', allowed=['TypeError'], min_functions=2),
    dict(id='solver.tempfiles', prop='C20', kind='tempfile',
         select={'files': 'cnfgen/utils/solver.py', 'all_toplevel': True},
         clause='every NamedTemporaryFile(delete=False) is os.unlink-ed on every (normal / explicit raise) exit',
         min_functions=6),
    dict(id='solver.defassign', prop='C20', kind='defassign',
         select={'files': 'cnfgen/utils/solver.py', 'all_toplevel': True},
         clause='every local is definitely assigned before use', min_functions=6),
    dict(id='solver.frame', prop='C20', kind='frame',
         select={'files': 'cnfgen/utils/solver.py', 'all_toplevel': True},
         clause='the bridge does not modify the formula', params='*', min_functions=6),
]
