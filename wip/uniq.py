"""unique_neighborhoods (wip)"""
D_ = 'cnfgen/families/dominatingset.py'
G_ = 'cnfgen/graphs.py'
CLASSMODELS = {}
CNB = 'isorted(iapp(isnoc(inil, {v}), nbrs(G.gid, {v})))'
CONTRACTS = {
    (G_, 'GraphD.neighbors'): {'assumed': 'neighbour view of the graph (C16)', 'params': {'u': 'int'},
                               'raises': {'ValueError': 'not (1 <= u and u <= self.n)'}, 'returns_expr': 'nbrs(self.gid, u)'},
    (D_, 'unique_neighborhoods'): {
        'property': ['C02'],
        'params': {'G': 'obj:GraphD'},
        'locals': {'neighborhoods': 'mclist', 'unique': 'mclist'},
        'raises': {},
        'returns': 'cseq',
        # ghost witnesses (all quantifiers universal): R[i] = a position of unique[i] in the sorted list P, W[k] = a position of P[k] in unique
        'ghost_code': [
            ('unique = [neighborhoods[0]]', 'R = lam1(lambda i: 0)\nW = lam1(lambda k: 0)'),
            ('if n != unique[-1]:\n    unique.append(n)',
             'R = lam1(lambda i: ite(i == clen(unique) - 1, _it, R[i]))\nW = lam1(lambda k: ite(k == _it, clen(unique) - 1, W[k]))'),
        ],
        'loops': {
            0: {'inv': ['clen(neighborhoods) == _it', 'n == G.n', 'n >= 1',
                        'forall(lambda j: implies(0 <= j and j < _it, cget(neighborhoods, j) == {}), lambda j: cget(neighborhoods, j))'.format(CNB.format(v='(j + 1)')),
                        # the same fact, triggered by the vertex
                        'forall(lambda v: implies(1 <= v and v <= _it, cget(neighborhoods, v - 1) == {}), lambda v: nbrs(G.gid, v))'.format(CNB.format(v='v'))]},
            1: {'ghost_at_entry': {'P': 'neighborhoods'},
                'inv': ['clen(unique) >= 1',
                        'forall(lambda i: implies(0 <= i and i < clen(unique), 0 <= R[i] and R[i] < clen(P) and cget(unique, i) == cget(P, R[i])), lambda i: cget(unique, i))',
                        'forall(lambda k: implies(0 <= k and k < _it, 0 <= W[k] and W[k] < clen(unique) and cget(unique, W[k]) == cget(P, k)), lambda k: cget(P, k))']},
        },
        'ensures': [
            'implies(G.n == 0, clen(result) == 0)',
            'forall(lambda v: implies(1 <= v and v <= G.n, exists(lambda j: 0 <= j and j < clen(result) and cget(result, j) == {})))'.format(CNB.format(v='v')),
            'forall(lambda j: implies(0 <= j and j < clen(result), exists(lambda v: 1 <= v and v <= G.n and cget(result, j) == {})))'.format(CNB.format(v='v')),
        ],
    },
}
