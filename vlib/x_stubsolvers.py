"""Stub SAT solvers for C20: small Python scripts generated into a temporary directory at run time.

A stub named like a real solver is put first on PATH.  It speaks one of the three conventions
    stdin_stdout   : DIMACS on stdin,  's'/'v' lines on stdout          (cadical, lingeling, ...)
    filein_stdout  : DIMACS file as last argument, 's'/'v' lines on stdout (sat4j, march)
    filein_fileout : DIMACS file and result file as last two arguments (minisat)
solves the formula it receives with a tiny DPLL (standard library only), answers in a scripted
*shape* and appends one JSON line {name, argv, dimacs, answer, model} to a log file, so that the
driver knows what "the solver found" and which formula it was given.

The configuration {name: {'conv':..., 'shape':...}} is read from the JSON file named by $STUB_CFG.
Nothing here imports cnfgen.
"""
import json
import os
import stat
import sys

# conventions of the real programs (facts about those programs, not read off cnfgen's table).
# glucose is left out: cnfgen's own documentation calls it a drop-in replacement of minisat while
# the real program accepts both styles.
REAL_CONVENTION = {
    'cadical': 'stdin_stdout', 'kissat': 'stdin_stdout', 'lingeling': 'stdin_stdout',
    'plingeling': 'stdin_stdout', 'precosat': 'stdin_stdout', 'picosat': 'stdin_stdout',
    'cryptominisat': 'stdin_stdout', 'march': 'filein_stdout', 'sat4j': 'filein_stdout',
    'minisat': 'filein_fileout',
}

# answer shapes.  ok=True: a conforming answer that must be reported faithfully;
# ok=False: no usable answer, the documented RuntimeError is expected.
SHAPES_STDOUT = {
    'plain': True,        # s line, one v line with terminating 0
    'split': True,        # answer split over several v lines, the final 0 on a line of its own
    'comments': True,     # comments and blank lines before, between and after
    'noterm': True,       # no terminating 0
    'scrambled': True,    # literals not in variable order
    'exitcode': True,     # plain, exit status 10 / 20 like real solvers
    'vfirst': True,       # v lines before the s line
    'unknown': False,     # s UNKNOWN
    'nos': False,         # only comments, no s line
    'empty': False,       # no output at all
    'exit1': False,       # non-zero exit, no output
    'bare_s': False,      # a line consisting of 's' only
}
SHAPES_FILEOUT = {
    'plain': True,        # SAT\n<model> 0\n  /  UNSAT\n
    'split': True,        # model over several lines
    'scrambled': True,
    'noterm': True,
    'noise': True,        # statistics on stdout besides the result file
    'exitcode': True,
    'indet': False,       # INDET
    'empty': False,       # result file left empty
    'exit1': False,       # non-zero exit, result file untouched
}

STUB_SOURCE = r'''#!{python} -SE
import sys, os, json

def parse(text):
    n = 0
    clauses = []
    cur = []
    for line in text.splitlines():
        line = line.strip()
        if not line or line[0] == 'c':
            continue
        if line[0] == 'p':
            n = int(line.split()[2])
            continue
        for tok in line.split():
            l = int(tok)
            if l == 0:
                clauses.append(cur)
                cur = []
            else:
                cur.append(l)
    return n, clauses

def dpll(clauses, assign):
    changed = True
    while changed:
        changed = False
        new = []
        for c in clauses:
            sat = False
            rest = []
            for l in c:
                v = assign.get(abs(l))
                if v is None:
                    rest.append(l)
                elif v == (l > 0):
                    sat = True
                    break
            if sat:
                continue
            if not rest:
                return None
            if len(rest) == 1:
                assign[abs(rest[0])] = rest[0] > 0
                changed = True
            else:
                new.append(rest)
        clauses = new
    if not clauses:
        return assign
    l = clauses[0][0]
    for val in (l > 0, not (l > 0)):
        a = dict(assign)
        a[abs(l)] = val
        r = dpll(clauses, a)
        if r is not None:
            return r
    return None

def main():
    name = os.path.basename(sys.argv[0])
    args = sys.argv[1:]
    if '--help' in args:
        sys.stdout.write('stub solver\n')
        return 0
    cfg = json.load(open(os.environ['STUB_CFG']))
    me = cfg['solvers'][name]
    conv, shape = me['conv'], me['shape']
    if conv == 'stdin_stdout':
        text = sys.stdin.read()
        outfile = None
    elif conv == 'filein_stdout':
        text = open(args[-1]).read()
        outfile = None
    else:
        text = open(args[-2]).read()
        outfile = args[-1]
    n, clauses = parse(text)
    sys.setrecursionlimit(10000)
    a = dpll(clauses, {{}})
    model = None
    if a is not None:
        model = [v if a.get(v, False) else -v for v in range(1, n + 1)]
    with open(cfg['log'], 'a') as f:
        f.write(json.dumps({{'name': name, 'argv': args, 'dimacs': text, 'conv': conv, 'shape': shape,
                            'answer': a is not None, 'model': model}}) + '\n')
    out = sys.stdout
    lits = list(model or [])
    if shape == 'scrambled':
        lits = lits[1::2][::-1] + lits[0::2]
    rc = 0
    if outfile is None:
        sline = 's SATISFIABLE\n' if model is not None else 's UNSATISFIABLE\n'
        def vlines(chunks, term=True):
            s = ''
            if model is None:
                return s
            for ch in chunks:
                s += 'v ' + ' '.join(str(x) for x in ch) + '\n'
            if term == 'own':
                s += 'v 0\n'
            return s
        if shape in ('plain', 'scrambled', 'exitcode'):
            out.write(sline + (vlines([lits + [0]])))
            if shape == 'exitcode':
                rc = 10 if model is not None else 20
        elif shape == 'split':
            out.write(sline + vlines([lits[i:i + 2] for i in range(0, len(lits), 2)], term='own'))
        elif shape == 'comments':
            out.write('c stub solver 1.0\nc\n\nc reading DIMACS\n' + sline + 'c some statistics: 12 conflicts\n\n')
            chunks = [lits[i:i + 3] for i in range(0, len(lits), 3)] or [[]]
            chunks[-1] = chunks[-1] + [0]
            for i, ch in enumerate(chunks):
                out.write(vlines([ch]))
                out.write('c comment between value lines %d\n' % i)
            out.write('c done\n')
        elif shape == 'noterm':
            out.write(sline + vlines([lits]))
        elif shape == 'vfirst':
            out.write('c model first\n' + vlines([lits + [0]]) + sline)
        elif shape == 'unknown':
            out.write('c gave up\ns UNKNOWN\n')
        elif shape == 'nos':
            out.write('c stub solver\nc no answer today\n')
        elif shape == 'empty':
            pass
        elif shape == 'exit1':
            rc = 1
        elif shape == 'bare_s':
            out.write('c stub solver\ns\n')
        else:
            raise SystemExit('unknown shape ' + shape)
    else:
        if shape in ('plain', 'scrambled', 'noise', 'exitcode'):
            body = ('SAT\n' + ' '.join(str(x) for x in lits + [0]) + '\n') if model is not None else 'UNSAT\n'
            if shape == 'noise':
                out.write('============[ Problem Statistics ]=============\n|  Number of variables: %d |\nSATISFIABLE\n' % n)
            if shape == 'exitcode':
                rc = 10 if model is not None else 20
        elif shape == 'split':
            body = 'UNSAT\n'
            if model is not None:
                body = 'SAT\n' + ''.join(' '.join(str(x) for x in lits[i:i + 2]) + '\n' for i in range(0, len(lits), 2)) + '0\n'
        elif shape == 'noterm':
            body = ('SAT\n' + ' '.join(str(x) for x in lits) + '\n') if model is not None else 'UNSAT\n'
        elif shape == 'indet':
            body = 'INDET\n'
        elif shape == 'empty':
            body = ''
        elif shape == 'exit1':
            body = None
            rc = 1
        else:
            raise SystemExit('unknown shape ' + shape)
        if body is not None:
            with open(outfile, 'w') as f:
                f.write(body)
    out.flush()
    return rc

sys.exit(main())
'''


class StubBench:
    """a directory of stub solvers + their configuration and log"""

    def __init__(self, directory):
        self.dir = directory
        self.bin = os.path.join(directory, 'bin')
        os.makedirs(self.bin, exist_ok=True)
        self.cfg = os.path.join(directory, 'config.json')
        self.log = os.path.join(directory, 'log.jsonl')
        self.installed = {}
        self._write()

    def _write(self):
        with open(self.cfg, 'w') as f:
            json.dump({'log': self.log, 'solvers': self.installed}, f)

    def install(self, name, conv, shape='plain'):
        path = os.path.join(self.bin, name)
        if not os.path.exists(path):
            with open(path, 'w') as f:
                f.write(STUB_SOURCE.format(python=sys.executable))
            os.chmod(path, os.stat(path).st_mode | stat.S_IXUSR | stat.S_IXGRP | stat.S_IXOTH)
        self.installed[name] = {'conv': conv, 'shape': shape}
        self._write()

    def uninstall_all(self):
        for name in list(self.installed):
            os.unlink(os.path.join(self.bin, name))
        self.installed = {}
        self._write()

    def set_only(self, solvers):
        """solvers: dict name -> (conv, shape); exactly these are installed afterwards"""
        self.uninstall_all()
        for name, (conv, shape) in solvers.items():
            self.install(name, conv, shape)

    def clear_log(self):
        if os.path.exists(self.log):
            os.unlink(self.log)

    def read_log(self):
        if not os.path.exists(self.log):
            return []
        return [json.loads(l) for l in open(self.log) if l.strip()]


def parse_dimacs(text):
    """(n, clauses) of a DIMACS text (independent little parser for the driver side)"""
    n = 0
    clauses = []
    cur = []
    for line in text.splitlines():
        line = line.strip()
        if not line or line[0] == 'c':
            continue
        if line[0] == 'p':
            n = int(line.split()[2])
            continue
        for tok in line.split():
            l = int(tok)
            if l == 0:
                clauses.append(cur)
                cur = []
            else:
                cur.append(l)
    return n, clauses
