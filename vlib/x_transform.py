"""Helpers shared by checks C05, C09, C19 (transformations).  Oracles here never call cnfgen's
transformation code: they are written from the property statements and the documentation.

* gadget columns / induced evaluation on numpy truth tables           (C05)
* an own DIMACS reader                                                 (C05, C09)
* search for a signed-renaming + clause-reordering witness             (C09)
* deep snapshots of formulas, graphs and plain python arguments        (C19)
"""
import itertools
from collections import Counter

import numpy as np

from vlib import core, sat

CMP = {'<=': lambda c, k: c <= k, '>=': lambda c, k: c >= k, '<': lambda c, k: c < k,
       '>': lambda c, k: c > k, '==': lambda c, k: c == k, '!=': lambda c, k: c != k}


# ---------------------------------------------------------------- building inputs
def build_formula(clauses, nvars, naming='plain', description=None):
    """a cnfgen CNF with exactly `nvars` variables (>= the largest one mentioned) and the clauses in order.
    naming: 'plain'  anonymous variables
            'ctor'   clauses passed to the constructor
            'named'  every variable comes from a variable group with a label containing braces
            'gap'    anonymous variables followed by one named variable"""
    core.import_repo()
    from cnfgen.formula.cnf import CNF
    if naming == 'ctor':
        F = CNF([list(c) for c in clauses], description=description)
        F.update_variable_number(nvars)
        return F
    F = CNF(description=description)
    if naming == 'plain':
        F.update_variable_number(nvars)
    elif naming == 'named':
        if nvars >= 1:
            F.new_variable('a_{1}')
        if nvars >= 2:
            F.new_block(nvars - 1, label='z_{{{}}}')
    elif naming == 'gap':
        if nvars >= 1:
            F.update_variable_number(nvars - 1)
            F.new_variable('Y')
    else:
        raise ValueError(naming)
    for c in clauses:
        F.add_clause(list(c))
    assert F.number_of_variables() == nvars, (clauses, nvars, naming)
    return F


def bipartite(L, R, edges, kind='cnfgen'):
    core.import_repo()
    if kind == 'cnfgen':
        from cnfgen.graphs import BipartiteGraph
        B = BipartiteGraph(L, R)
        for u, v in edges:
            B.add_edge(u, v)
        return B
    import networkx
    G = networkx.Graph()
    G.add_nodes_from(range(1, L + 1), bipartite=0)
    G.add_nodes_from(range(L + 1, L + R + 1), bipartite=1)
    G.add_edges_from((u, L + v) for u, v in edges)
    return G


# ---------------------------------------------------------------- semantics on truth tables
def eval_cnf_cols(colof, size, clauses):
    """truth vector (length size) of the CNF when variable v takes the boolean column colof[v]"""
    t = np.ones(size, dtype=bool)
    for c in clauses:
        s = np.zeros(size, dtype=bool)
        for l in c:
            s |= colof[abs(l)] if l > 0 else ~colof[abs(l)]
        t &= s
    return t


def count_cols(cols, size, variables):
    t = np.zeros(size, dtype=np.int32)
    for v in variables:
        t += cols[v]
    return t


def gadget_value(name, cnt, k, op=None, t=None):
    """value of the gadget as a function of the number `cnt` of true variables among the k of a block"""
    if name == 'xor':
        return cnt % 2 == 1
    if name == 'or':
        return cnt >= 1
    if name == 'maj':
        return 2 * cnt >= k
    if name == 'eq':
        return (cnt == 0) | (cnt == k)
    if name in ('neq', 'eq_invert'):
        return ~((cnt == 0) | (cnt == k))
    if name == 'one':
        return cnt == 1
    if name == 'exact':
        return cnt == t
    if name == 'atleast':
        return cnt >= t
    if name == 'atmost':
        return cnt <= t
    if name == 'anybut':
        return cnt != t
    if name == 'linear':
        return CMP[op](cnt, t)
    raise ValueError(name)


def parse_dimacs(text):
    """own reader: returns (n, m, clauses, comment lines)"""
    n = m = None
    clauses, cur, comments = [], [], []
    for line in text.splitlines():
        s = line.strip()
        if not s:
            continue
        if s[0] == 'c':
            comments.append(line)
            continue
        if s[0] == 'p':
            assert n is None, 'two problem lines'
            parts = s.split()
            assert parts[:2] == ['p', 'cnf'] and len(parts) == 4, s
            n, m = int(parts[2]), int(parts[3])
            continue
        assert n is not None, 'clause before problem line'
        for tok in s.split():
            x = int(tok)
            if x == 0:
                clauses.append(cur)
                cur = []
            else:
                cur.append(x)
    assert not cur, 'unterminated clause'
    assert n is not None, 'no problem line'
    return n, m, clauses, comments


def to_dimacs_text(n, clauses):
    return 'p cnf {} {}\n'.format(n, len(clauses)) + ''.join(' '.join(map(str, c)) + ' 0\n' for c in clauses)


# ---------------------------------------------------------------- C09: witness search
def apply_signed_renaming(clause, sigma, s):
    """sigma[v-1] = image of variable v, s[v-1] in {1,-1}"""
    return [(1 if l > 0 else -1) * s[abs(l) - 1] * sigma[abs(l) - 1] for l in clause]


def canon(clause):
    return tuple(sorted(clause))


def find_witness(N, F, G, flips=None, vperm=None, cperm=None, budget=2000000):
    """search a signed renaming (sigma, s) of 1..N and a clause bijection such that every clause of G is the
    image (as a multiset of literals) of the corresponding clause of F.
    flips: None (free) or the required list s; vperm: None or the required list sigma (variable v -> vperm[v-1]);
    cperm: None or the required clause placement (clause i of F at position cperm[i] of G).
    returns ('yes', (sigma, s)) | ('no', None) | ('unknown', None) when the node budget is exhausted."""
    if len(F) != len(G):
        return 'no', None
    M = len(F)
    if sorted(len(c) for c in F) != sorted(len(c) for c in G):
        return 'no', None
    for c in itertools.chain(F, G):
        for l in c:
            if not 1 <= abs(l) <= N:
                return 'no', None
    target = Counter(canon(c) for c in G)
    fix_clauses = cperm is not None
    if fix_clauses:
        if sorted(cperm) != list(range(M)):
            return 'no', None
        Gc = [canon(G[cperm[i]]) for i in range(M)]
    else:
        Gc = None
    if flips is not None and (len(flips) != N or any(x not in (1, -1) for x in flips)):
        return 'no', None
    if vperm is not None and sorted(vperm) != list(range(1, N + 1)):
        return 'no', None

    # occurrence profile of a literal: multiset of widths of clauses it occurs in (with multiplicity)
    def profiles(cls):
        p = {}
        for c in cls:
            for l in c:
                p.setdefault(l, []).append(len(c))
        return {l: tuple(sorted(w)) for l, w in p.items()}
    pF, pG = profiles(F), profiles(G)

    def cand(v):
        out = []
        for w in ([vperm[v - 1]] if vperm is not None else range(1, N + 1)):
            for sg in ((flips[v - 1],) if flips is not None else (1, -1)):
                if pF.get(v, ()) == pG.get(sg * w, ()) and pF.get(-v, ()) == pG.get(-sg * w, ()):
                    out.append((w, sg))
        return out
    cands = {v: cand(v) for v in range(1, N + 1)}
    if any(not c for c in cands.values()):
        return 'no', None
    # most constrained variables first; clauses checked as soon as all their variables are mapped
    order = sorted(range(1, N + 1), key=lambda v: (len(cands[v]), -len(pF.get(v, ())) - len(pF.get(-v, ()))))
    pos = {v: i for i, v in enumerate(order)}
    ready = [[] for _ in range(N + 1)]   # ready[d]: clause indices complete after d variables are assigned
    for i, c in enumerate(F):
        d = max([pos[abs(l)] + 1 for l in c] + [0])
        ready[d].append(i)
    sigma = [0] * N
    sgn = [0] * N
    used = [False] * (N + 1)
    nodes = [0]

    def images_ok(d, cnt):
        """add images of the clauses ready at depth d to cnt; False if they overshoot the target"""
        added = []
        ok = True
        for i in ready[d]:
            im = canon(apply_signed_renaming(F[i], sigma, sgn))
            if fix_clauses:
                if im != Gc[i]:
                    ok = False
                    break
            else:
                cnt[im] += 1
                added.append(im)
                if cnt[im] > target.get(im, 0):
                    ok = False
                    break
        return ok, added

    cnt = Counter()
    ok0, _ = images_ok(0, cnt)
    if not ok0:
        return 'no', None

    def rec(d):
        if d == N:
            return True
        v = order[d]
        for w, sg in cands[v]:
            if used[w]:
                continue
            nodes[0] += 1
            if nodes[0] > budget:
                raise TimeoutError
            used[w] = True
            sigma[v - 1], sgn[v - 1] = w, sg
            ok, added = images_ok(d + 1, cnt)
            if ok and rec(d + 1):
                return True
            for im in added:
                cnt[im] -= 1
            used[w] = False
            sigma[v - 1], sgn[v - 1] = 0, 0
        return False
    try:
        found = rec(0)
    except TimeoutError:
        return 'unknown', None
    if not found:
        return 'no', None
    # independent final verification of the witness
    assert sorted(sigma) == list(range(1, N + 1)) and all(x in (1, -1) for x in sgn)
    imgs = [canon(apply_signed_renaming(c, sigma, sgn)) for c in F]
    if fix_clauses:
        assert imgs == Gc
    else:
        assert Counter(imgs) == target
    return 'yes', (list(sigma), list(sgn))


# ---------------------------------------------------------------- C19: snapshots
def snap_formula(F):
    """everything observable about a CNF/OPB through its public interface (deep copies)"""
    rows = []
    for r in F:
        rows.append([tuple(x) if isinstance(x, (list, tuple)) else x for x in r])
    d = {'type': type(F).__name__,
         'rows': rows,
         'numvar': F.number_of_variables(),
         'len': len(F),
         'labels': list(F.all_variable_labels()),
         'header': [(k, v) for k, v in F.header.items()],
         'str': str(F)}
    if hasattr(F, '_groups'):
        d['groups'] = [(type(g).__name__, len(g), (g[0], g[-1]) if len(g) else None) for g in F._groups]
    return d


def snap_graph(G):
    """all public views of a cnfgen graph object, or of a networkx graph"""
    core.import_repo()
    from cnfgen import graphs
    if isinstance(G, graphs.BaseBipartiteGraph):
        L, R = G.left_order(), G.right_order()
        return {'kind': type(G).__name__, 'L': L, 'R': R, 'name': G.name,
                'edges': list(G.edges()), 'm': G.number_of_edges(),
                'rn': [list(G.right_neighbors(u)) for u in range(1, L + 1)],
                'ln': [list(G.left_neighbors(v)) for v in range(1, R + 1)],
                'has': [[G.has_edge(u, v) for v in range(1, R + 1)] for u in range(1, L + 1)]}
    if isinstance(G, graphs.DirectedGraph):
        n = G.number_of_vertices()
        return {'kind': type(G).__name__, 'n': n, 'name': G.name, 'edges': list(G.edges()),
                'm': G.number_of_edges(),
                'pred': [list(G.predecessors(u)) for u in range(1, n + 1)],
                'succ': [list(G.successors(u)) for u in range(1, n + 1)]}
    if isinstance(G, graphs.Graph):
        n = G.number_of_vertices()
        return {'kind': type(G).__name__, 'n': n, 'name': G.name, 'edges': list(G.edges()),
                'm': G.number_of_edges(),
                'adj': [list(G.neighbors(u)) for u in range(1, n + 1)]}
    import networkx
    if isinstance(G, networkx.Graph):  # includes DiGraph
        return {'kind': type(G).__name__, 'nodes': [(u, sorted(d.items())) for u, d in G.nodes(data=True)],
                'edges': [(u, v, sorted(d.items())) for u, v, d in G.edges(data=True)],
                'graph': sorted((str(k), str(v)) for k, v in G.graph.items())}
    raise TypeError(type(G))


def first_difference(a, b):
    if a == b:
        return None
    if isinstance(a, dict) and isinstance(b, dict):
        for k in a:
            if a[k] != b.get(k):
                return '{}: {!r} -> {!r}'.format(k, a[k], b.get(k))
    return '{!r} -> {!r}'.format(a, b)
