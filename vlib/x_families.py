"""Catalogue of formula-family instances shared by C08 and C10 (does not import cnfgen at module level).

An entry is a JSON-able dict
    {'id': 'php-3-2', 'family': 'php', 'size': 'small'|'real',
     'argv': [...]            command line after the program name ('@G0' stands for a graph file written on demand)
     'lib':  [function name, [args...], {kwargs}]   library call; graph arguments are graph descriptors
     'graphs': [descriptor...]   the graphs referenced as '@G0', '@G1', ... in argv and lib
     'nvars': int or None     number of variables promised by the documentation of the family
     'seeded': bool           the instance draws random numbers (the caller seeds `random` first)}
Graph descriptor: {'type': 'simple'|'bipartite'|'dag', 'n' / 'L','R', 'edges': [[u,v]...], 'cli': [tokens] or absent}
When 'cli' is given the command line uses that construction, otherwise a graph file is written.
"""
import itertools
import math
import os
import zlib


# ---------------------------------------------------------------------------------
# graph descriptors
# ---------------------------------------------------------------------------------
def simple(n, edges, cli=None):
    d = {'type': 'simple', 'n': n, 'edges': [list(sorted(e)) for e in edges]}
    if cli:
        d['cli'] = [str(x) for x in cli]
    return d


def bipartite(L, R, edges, cli=None):
    d = {'type': 'bipartite', 'L': L, 'R': R, 'edges': [list(e) for e in edges]}
    if cli:
        d['cli'] = [str(x) for x in cli]
    return d


def dag(n, edges, cli=None):
    d = {'type': 'dag', 'n': n, 'edges': [list(e) for e in edges]}
    if cli:
        d['cli'] = [str(x) for x in cli]
    return d


def complete(n):
    return simple(n, itertools.combinations(range(1, n + 1), 2), cli=['complete', n])


def empty(n):
    return simple(n, [], cli=['empty', n] if n > 0 else None)     # the command line refuses 'empty 0': use a graph file there


def cycle(n):
    return simple(n, [(i, i % n + 1) for i in range(1, n + 1)] if n >= 3 else [])


def path_graph(n):
    return simple(n, [(i, i + 1) for i in range(1, n)])


def complete_bipartite(L, R):
    return bipartite(L, R, [(u, v) for u in range(1, L + 1) for v in range(1, R + 1)], cli=['complete', L, R])


def pyramid(h):
    """pyramid of height h: sources first; vertex numbering by rows from the base (documented construction 'pyramid h')"""
    rows = []
    nxt = 1
    for r in range(h + 1):
        width = h + 1 - r
        rows.append(list(range(nxt, nxt + width)))
        nxt += width
    edges = []
    for r in range(1, h + 1):
        for i, v in enumerate(rows[r]):
            edges.append((rows[r - 1][i], v))
            edges.append((rows[r - 1][i + 1], v))
    return dag(nxt - 1, edges, cli=['pyramid', h])


def dag_path(L):
    return dag(L + 1, [(i, i + 1) for i in range(1, L + 1)], cli=['path', L])


def build_graph(desc):
    """cnfgen graph object of a descriptor (uses only the constructors and add_edge)"""
    from cnfgen.graphs import Graph, BipartiteGraph, DirectedGraph
    if desc['type'] == 'simple':
        G = Graph(desc['n'])
    elif desc['type'] == 'bipartite':
        G = BipartiteGraph(desc['L'], desc['R'])
    else:
        G = DirectedGraph(desc['n'])
    for u, v in desc['edges']:
        G.add_edge(u, v)
    return G


def write_graph_file(desc, directory, idx):
    """write the graph of a descriptor in a format the command line reads; returns [format, path]"""
    if desc['type'] == 'simple':
        path = os.path.join(directory, 'g{}.dimacs'.format(idx))
        with open(path, 'w') as f:
            f.write('c graph written by the verification harness\np edge {} {}\n'.format(desc['n'], len(desc['edges'])))
            for u, v in desc['edges']:
                f.write('e {} {}\n'.format(u, v))
        return ['dimacs', path]
    if desc['type'] == 'bipartite':
        path = os.path.join(directory, 'g{}.matrix'.format(idx))
        es = set(map(tuple, desc['edges']))
        with open(path, 'w') as f:
            f.write('{} {}\n'.format(desc['L'], desc['R']))
            for u in range(1, desc['L'] + 1):
                f.write(' '.join('1' if (u, v) in es else '0' for v in range(1, desc['R'] + 1)) + '\n')
        return ['matrix', path]
    path = os.path.join(directory, 'g{}.kthlist'.format(idx))
    preds = {v: [] for v in range(1, desc['n'] + 1)}
    for u, v in desc['edges']:
        preds[v].append(u)
    with open(path, 'w') as f:
        f.write('c dag written by the verification harness\n{}\n'.format(desc['n']))
        for v in range(1, desc['n'] + 1):
            f.write('{} : {} 0\n'.format(v, ' '.join(str(u) for u in sorted(preds[v]))).replace(':  0', ': 0'))
    return ['kthlist', path]


def concrete_argv(entry, directory):
    """argv with '@Gi' replaced by a construction or by a freshly written graph file"""
    out = []
    for tok in entry['argv']:
        if isinstance(tok, str) and tok.startswith('@G'):
            i = int(tok[2:])
            g = entry['graphs'][i]
            if 'cli' in g:
                out += list(g['cli'])
            else:
                out += write_graph_file(g, directory, '{}_{}'.format(zlib.crc32(entry['id'].encode()) % 1000000, i))
        elif isinstance(tok, str) and tok.startswith('@F'):
            i = int(tok[2:])
            path = os.path.join(directory, 'f{}_{}.cnf'.format(zlib.crc32(entry['id'].encode()) % 1000000, i))
            with open(path, 'w') as f:
                f.write(entry['files'][i])
            out.append(path)
        else:
            out.append(str(tok))
    return out


def library_call(entry, formula_class):
    """build the instance through the library with the given formula class"""
    import cnfgen
    name, args, kwargs = entry['lib']
    fn = getattr(cnfgen, name)

    def conv(a):
        if isinstance(a, str) and a.startswith('@G'):
            g = entry['graphs'][int(a[2:])]
            return build_graph(g)
        return a
    return fn(*[conv(a) for a in args], formula_class=formula_class, **{k: conv(v) for k, v in kwargs.items()})


# ---------------------------------------------------------------------------------
def _bits(m):
    b = 0
    while (1 << b) < m:
        b += 1
    return b


def _E(family, size, argv, lib, graphs=(), nvars=None, seeded=False, ident=None):
    ident = ident or '-'.join(str(a).replace('@', '') for a in argv)
    if graphs:
        def tag(g):
            order = '{}x{}'.format(g['L'], g['R']) if g['type'] == 'bipartite' else str(g['n'])
            t = '{}{}m{}'.format(g['type'][0], order, len(g['edges']))
            if 'cli' not in g:
                t += 'e' + ''.join('{}{}'.format(u, v) for u, v in g['edges'])[:60]
            return t
        ident += ':' + ';'.join(tag(g) for g in graphs)
    lib = lib or (None, [], {})
    return {'id': ident, 'family': family, 'size': size, 'argv': list(argv), 'lib': [lib[0], list(lib[1]), dict(lib[2]) if len(lib) > 2 else {}],
            'graphs': list(graphs), 'nvars': nvars, 'seeded': seeded}


def _small_simple_graphs(thorough):
    """a spread of small simple graphs (with isolated vertices, empty, complete)"""
    gs = [empty(0), empty(1), empty(3), complete(2), complete(3), complete(4), path_graph(3), path_graph(4), cycle(4),
          simple(4, [(1, 2), (3, 4)]), simple(4, [(1, 2), (1, 3), (1, 4)]), simple(5, [(1, 2), (2, 3), (4, 5)]),
          simple(4, [(1, 2), (2, 3), (3, 4), (1, 4), (1, 3)])]
    if thorough:
        gs += [cycle(5), cycle(6), complete(5), simple(5, [(1, 2), (2, 3), (3, 1), (3, 4), (4, 5), (5, 3)]),
               simple(6, [(1, 2), (2, 3), (3, 4), (4, 5), (5, 6), (6, 1), (1, 4)]), empty(5)]
    return gs


def _small_bipartite(thorough):
    gs = [bipartite(0, 0, []), bipartite(2, 0, []), bipartite(0, 2, []), complete_bipartite(2, 2), complete_bipartite(3, 2),
          bipartite(2, 3, [(1, 1), (1, 3), (2, 2)]), bipartite(3, 3, [(1, 1), (1, 2), (2, 2), (2, 3), (3, 3), (3, 1)]),
          bipartite(3, 2, [(1, 1), (3, 2)]), bipartite(2, 2, [(1, 1)]), bipartite(3, 3, [(1, 1), (1, 2), (1, 3), (2, 1), (3, 1)])]
    if thorough:
        gs += [complete_bipartite(3, 3), complete_bipartite(4, 3), bipartite(4, 4, [(i, j) for i in range(1, 5) for j in range(1, 5) if (i + j) % 3]),
               bipartite(4, 3, [(1, 1), (2, 1), (3, 2), (4, 3), (4, 1), (2, 3)])]
    return gs


def _small_dags(thorough):
    gs = [dag(0, []), dag(1, []), dag_path(2), pyramid(1), pyramid(2), dag(4, [(1, 3), (2, 3), (2, 4)]), dag(3, [])]
    if thorough:
        gs += [pyramid(3), dag(5, [(1, 3), (2, 3), (3, 4), (3, 5), (1, 5)]), dag_path(5)]
    return gs


def small_entries(thorough=False):
    """instances small enough for complete truth tables (used by C08 and by C10's small tier)"""
    out = []
    sg = _small_simple_graphs(thorough)
    bg = _small_bipartite(thorough)
    dg = _small_dags(thorough)
    R = range
    # --- simple helpers
    for P in R(0, 4):
        for N in R(0, 3):
            out.append(_E('or', 'small', ['or', P, N], None, nvars=P + N))
            out.append(_E('and', 'small', ['and', P, N], None, nvars=P + N))
    out.append(_E('true', 'small', ['true'], None, nvars=0))
    out.append(_E('false', 'small', ['false'], None, nvars=0))
    # --- pigeonhole
    for m in R(0, 5):
        for n in R(0, 4):
            for fun, onto in itertools.product([False, True], repeat=2):
                if m * n > 12 or ((fun or onto) and m * n > 9 and not thorough):
                    continue
                argv = ['php', m, n] + (['--functional'] if fun else []) + (['--onto'] if onto else [])
                out.append(_E('php', 'small', argv, ('PigeonholePrinciple', [m, n], {'functional': fun, 'onto': onto}), nvars=m * n))
    for g in bg:
        for fun, onto in itertools.product([False, True], repeat=2):
            argv = ['php', '@G0'] + (['--functional'] if fun else []) + (['--onto'] if onto else [])
            out.append(_E('gphp', 'small', argv, ('GraphPigeonholePrinciple', ['@G0'], {'functional': fun, 'onto': onto}), [g], nvars=len(g['edges'])))
    for m in R(1, 5):
        for n in R(1, 6):
            if m * _bits(n) <= 12:
                out.append(_E('bphp', 'small', ['bphp', m, n], ('BinaryPigeonholePrinciple', [m, n]), nvars=m * _bits(n)))
    for (m, r, n) in [(0, 0, 0), (1, 1, 1), (2, 1, 1), (2, 2, 1), (1, 2, 2), (2, 2, 2), (3, 2, 1), (2, 0, 2), (0, 2, 1)] + ([(3, 2, 2), (2, 3, 2)] if thorough else []):
        out.append(_E('rphp', 'small', ['rphp', m, r, n], ('RelativizedPigeonholePrinciple', [m, r, n])))
    # --- counting
    for M in R(0, 7):
        for p in R(1, 4):
            if math.comb(M, p) <= 15:
                out.append(_E('count', 'small', ['count', M, p], ('CountingPrinciple', [M, p]), nvars=math.comb(M, p)))
    for N in R(0, 7):
        out.append(_E('parity', 'small', ['parity', N], ('CountingPrinciple', [N, 2]), nvars=math.comb(N, 2)))
    for g in sg:
        out.append(_E('matching', 'small', ['matching', '@G0'], ('PerfectMatchingPrinciple', ['@G0']), [g], nvars=len(g['edges'])))
        n = g['n']
        for charge, vec in (('first', [1] + [0] * (n - 1)), ('zero', [0] * n), ('one', [1] * n)):
            if n == 0:
                vec = None
            out.append(_E('tseitin', 'small', ['tseitin', charge, '@G0'], ('TseitinFormula', ['@G0', vec]), [g], nvars=len(g['edges'])))
        if all(sum(1 for e in g['edges'] if v in e) % 2 == 0 for v in range(1, n + 1)):
            out.append(_E('ec', 'small', ['ec', '@G0'], ('EvenColoringFormula', ['@G0']), [g], nvars=len(g['edges'])))
        for k in R(1, 4):
            if n * k <= 14:
                out.append(_E('kcolor', 'small', ['kcolor', k, '@G0'], ('GraphColoringFormula', ['@G0', k]), [g], nvars=n * k))
        for d in R(1, 3):
            if n + n * d <= 15:
                for alt in (False, True):
                    out.append(_E('domset', 'small', ['domset', d, '@G0'] + (['--alternative'] if alt else []),
                                  ('DominatingSet', ['@G0', d], {'alternative': alt}), [g], nvars=n + n * d))
        out.append(_E('tiling', 'small', ['tiling', '@G0'], ('Tiling', ['@G0']), [g], nvars=n))
        if n * n <= 16:
            out.append(_E('iso', 'small', ['iso', '@G0'], ('GraphAutomorphism', ['@G0']), [g], nvars=n * n))
        for k in R(0, 4):
            if k * n <= 14:
                for sb in (True, False):
                    out.append(_E('kclique', 'small', ['kclique', k, '@G0'] + ([] if sb else ['--no-symmetry-breaking']),
                                  ('CliqueFormula', ['@G0', k], {'symbreak': sb}), [g], nvars=k * n))
            if n >= 1 and k >= 1 and k * _bits(n) <= 12:
                out.append(_E('kcliquebin', 'small', ['kcliquebin', k, '@G0'], ('BinaryCliqueFormula', ['@G0', k]), [g], nvars=k * _bits(n)))
        for (k, s) in ((2, 2), (3, 2), (2, 3)):
            if 1 + k * n <= 14:
                out.append(_E('ramlb', 'small', ['ramlb', k, s, '@G0'], ('RamseyWitnessFormula', ['@G0', k, s]), [g]))
        for tot, smart, plant, knuth in [(False, False, False, 0), (True, False, False, 0), (False, True, False, 0), (False, False, True, 0),
                                         (False, False, False, 2), (False, False, False, 3),
                                         # flag interactions (round-2 seeded changes C03-m4, C10-m4)
                                         (False, True, False, 2), (False, True, False, 3), (False, True, True, 0), (True, True, False, 0)]:
            nv = n * (n - 1) // 2 if smart else n * (n - 1)
            if nv <= 12:
                flags = (['--total'] if tot else []) + (['--smart'] if smart else []) + (['--plant'] if plant else []) + \
                        (['--knuth{}'.format(knuth)] if knuth else [])
                out.append(_E('gop', 'small', ['op'] + flags + ['@G0'],
                              ('GraphOrderingPrinciple', ['@G0'], {'total': tot, 'smart': smart, 'plant': plant, 'knuth': knuth}), [g], nvars=nv))
    for g, h in [(complete(4), complete(3)), (cycle(4), path_graph(3)), (simple(4, [(1, 2), (3, 4)]), complete(2)), (empty(3), empty(2)),
                 (path_graph(4), complete(3)), (complete(3), empty(0))]:
        if g['n'] * h['n'] <= 14:
            out.append(_E('subgraph', 'small', ['subgraph', '-G', '@G0', '-H', '@G1'], ('SubgraphFormula', ['@G0', '@G1']), [g, h], nvars=g['n'] * h['n']))
    # --- ordering principle
    for n in R(0, 5):
        for tot, smart, plant, knuth in [(t_, s_, p_, k_) for t_ in (False, True) for s_ in (False, True) for p_ in (False, True) for k_ in (0, 2, 3)]:
            nv = n * (n - 1) // 2 if smart else n * (n - 1)
            if nv <= 12:
                flags = (['--total'] if tot else []) + (['--smart'] if smart else []) + (['--plant'] if plant else []) + \
                        (['--knuth{}'.format(knuth)] if knuth else [])
                out.append(_E('op', 'small', ['op'] + flags + [n],
                              ('OrderingPrinciple', [n], {'total': tot, 'smart': smart, 'plant': plant, 'knuth': knuth}), nvars=nv))
    # --- pebbling, stone
    for g in dg:
        out.append(_E('peb', 'small', ['peb', '@G0'], ('PebblingFormula', ['@G0']), [g], nvars=g['n']))
        for s in R(1, 4):
            if s + g['n'] * s <= 14:
                out.append(_E('stone', 'small', ['stone', s, '@G0'], ('StoneFormula', ['@G0', s]), [g], nvars=s + g['n'] * s))
    # --- ramsey like
    for (s, k, N) in [(2, 2, 0), (2, 2, 1), (2, 2, 2), (2, 3, 3), (3, 3, 4), (3, 3, 5), (3, 2, 4), (1, 3, 3), (4, 4, 3), (3, 3, 6)]:
        out.append(_E('ram', 'small', ['ram', s, k, N], ('RamseyNumber', [s, k, N]), nvars=N * (N - 1) // 2))
    for N in (0, 1, 4, 5, 13, 16):
        out.append(_E('ptn', 'small', ['ptn', N], ('PythagoreanTriples', [N]), nvars=N))
    for args in [(0, 2, 2), (1, 2, 2), (4, 2, 2), (5, 3, 2), (8, 3, 3), (9, 3, 3), (6, 2, 3), (4, 2, 2, 2), (5, 2, 3, 2), (3, 2, 2, 2, 2), (7, 4, 3)]:
        N = args[0]
        nv = N if len(args) == 3 else N * (len(args) - 1)
        if nv <= 16:
            out.append(_E('vdw', 'small', ['vdw'] + list(args), ('VanDerWaerden', list(args)), nvars=nv))
    for (n, k, c) in [(0, 1, 1), (1, 1, 1), (2, 2, 1), (2, 1, 2), (3, 2, 1), (3, 2, 2), (2, 2, 2), (3, 3, 1)]:
        nv = n * (n - 1) // 2 + k * n + n * c
        if nv <= 16:
            out.append(_E('cliquecoloring', 'small', ['cliquecoloring', n, k, c], ('CliqueColoring', [n, k, c]), nvars=nv))
    # --- subset cardinality
    for g in bg:
        for eq in (False, True):
            out.append(_E('subsetcard', 'small', ['subsetcard'] + (['--equal'] if eq else []) + ['@G0'],
                          ('SubsetCardinalityFormula', ['@G0', eq]), [g], nvars=len(g['edges'])))
    # --- cpls (documented closed form is in the source: a*b*c + a*b*log b + b*log c)
    for (a, b, c) in [(1, 1, 1), (1, 2, 1), (2, 1, 2), (2, 2, 1), (1, 2, 2), (2, 2, 2)] + ([(3, 2, 2), (1, 4, 1)] if thorough else []):
        nv = a * b * c + a * b * _bits(b) + b * _bits(c)
        out.append(_E('cpls', 'small', ['cpls', a, b, c], ('CPLSFormula', [a, b, c]), nvars=nv))
    # --- random families (seeded by the caller)
    for (k, n, m) in [(1, 1, 0), (2, 4, 3), (3, 5, 6), (3, 3, 8), (2, 6, 10), (1, 4, 4), (3, 9, 1)]:
        out.append(_E('randkcnf', 'small', ['randkcnf', k, n, m], ('RandomKCNF', [k, n, m]), nvars=n, seeded=True))
        out.append(_E('randkxor', 'small', ['randkxor', k, n, m if m <= 2 * math.comb(n, k) else 2], ('RandomKXOR', [k, n, m if m <= 2 * math.comb(n, k) else 2]), nvars=n, seeded=True))
    # --- DIMACS input, with variables that occur in no clause
    for ident, text, nv in [('dimacs-unused-top', 'c test\np cnf 7 2\n1 -2 0\n-4 3 0\n', 7), ('dimacs-empty', 'p cnf 0 0\n', 0),
                            ('dimacs-emptyclause', 'p cnf 3 3\n1 2 0\n0\n-3 0\n', 3), ('dimacs-novars-used', 'p cnf 5 0\n', 5)]:
        e = _E('dimacs', 'small', ['dimacs', '@F0'], None, nvars=nv, ident=ident)
        e['files'] = [text]
        out.append(e)
    seen = set()
    uniq = []
    for e in out:
        if e['id'] not in seen:
            seen.add(e['id'])
            uniq.append(e)
    return uniq


def real_entries(thorough=False):
    """realistic sizes (C10): command line only, random graph constructions allowed (the caller seeds `random`)"""
    E = []

    def add(family, argv, nvars=None, seeded=False):
        E.append(_E(family, 'real', argv, None, nvars=nvars, seeded=seeded))
    add('php', ['php', 40, 30], 1200)
    add('php', ['php', 30, 30, '--functional', '--onto'], 900)
    add('gphp', ['php', 40, 30, 5], 200, True)
    add('gphp', ['php', 'glrd', 30, 25, 4, '--functional'], 120, True)
    add('gphp', ['php', 'glrp', 20, 20, '.3', '--onto'], None, True)
    add('bphp', ['bphp', 33, 32], 33 * 5)
    add('bphp', ['bphp', 20, 17], 20 * 5)
    add('rphp', ['rphp', 10, 12, 10])
    add('count', ['count', 12, 3], 220)
    add('count', ['count', 10, 4], 210)
    add('parity', ['parity', 15], 105)
    add('matching', ['matching', 'gnd', 30, 3], 45, True)
    add('matching', ['matching', 'grid', 6, 5], 6 * 4 + 5 * 5)
    add('tseitin', ['tseitin', 40, 4], 80, True)
    add('tseitin', ['tseitin', 'randomodd', 'gnd', 30, 5], 75, True)
    add('tseitin', ['tseitin', 'first', 'grid', 10, 10], 180)
    add('tseitin', ['tseitin', 'random', 'torus', 5, 5, 'splitedges', 3], 53, True)
    add('ec', ['ec', 'torus', 6, 6], 72)
    add('ec', ['ec', 'gnd', 20, 4], 40, True)
    add('kcolor', ['kcolor', 3, 'gnp', 60, '.1'], 180, True)
    add('kcolor', ['kcolor', 4, 'gnm', 40, 100, 'plantclique', 5], 160, True)
    add('kcolor', ['kcolor', 5, 'complete', 10, 3], 150)
    add('domset', ['domset', 5, 'gnp', 30, '.2'], 30 + 150, True)
    add('domset', ['domset', 4, 'grid', 5, 5, '--alternative'], 25 + 100)
    add('tiling', ['tiling', 'grid', 8, 8], 64)
    add('tiling', ['tiling', 'gnd', 30, 3], 30, True)
    add('iso', ['iso', 'gnp', 12, '.5'], 144, True)
    add('iso', ['iso', 'torus', 3, 4], 144)
    add('iso', ['iso', 'gnp', 8, '.5', '-e', 'gnp', 8, '.5'], 64, True)
    add('kclique', ['kclique', 5, 'gnp', 30, '.5'], 150, True)
    add('kclique', ['kclique', 4, 'gnm', 20, 60, 'plantclique', 4, '--no-symmetry-breaking'], 80, True)
    add('kcliquebin', ['kcliquebin', 4, 'gnp', 20, '.5'], 20, True)
    add('kcliquebin', ['kcliquebin', 3, 'gnp', 33, '.7'], 18, True)
    add('ramlb', ['ramlb', 3, 3, 'gnp', 10, '.5'], None, True)
    add('subgraph', ['subgraph', '-G', 'gnp', 20, '.5', '-H', 'complete', 4], 80, True)
    add('subgraph', ['subgraph', '-G', 'grid', 4, 4, '-H', 'grid', 2, 2], 64)
    add('op', ['op', 25], 600)
    add('op', ['op', 20, '--total'], 380)
    add('op', ['op', 25, '--smart'], 300)
    add('op', ['op', 15, '--knuth2', '--plant'], 210)
    add('gop', ['op', 30, 4], 870, True)
    add('gop', ['op', 'gnp', 20, '.3', '--smart'], 190, True)
    add('peb', ['peb', 'pyramid', 20], 231)
    add('peb', ['peb', 'tree', 6], 127)
    add('peb', ['peb', 'path', 100], 101)
    add('stone', ['stone', 5, 'pyramid', 5], 5 + 21 * 5)
    add('stone', ['stone', 8, 'pyramid', 4, '--sparse', 3], 8 + 15 * 3, True)
    add('stone', ['stone', 4, 'tree', 3], 4 + 15 * 4)
    add('ram', ['ram', 4, 4, 12], 66)
    add('ram', ['ram', 3, 5, 14], 91)
    add('ptn', ['ptn', 200], 200)
    add('vdw', ['vdw', 60, 3, 4], 60)
    add('vdw', ['vdw', 40, 3, 3, 3], 120)
    add('vdw', ['vdw', 30, 2, 3, 2, 3], 120)
    add('cliquecoloring', ['cliquecoloring', 10, 5, 4], 45 + 50 + 40)
    add('subsetcard', ['subsetcard', 30], 121, True)
    add('subsetcard', ['subsetcard', 20, 6, '--equal'], 121, True)
    add('subsetcard', ['subsetcard', 'glrd', 20, 25, 5], 100, True)
    add('subsetcard', ['subsetcard', 'shift', 12, 12, 0, 1, 3, 'plantbiclique', 3, 3], None, True)
    add('cpls', ['cpls', 4, 8, 4], 4 * 8 * 4 + 4 * 8 * 3 + 8 * 2)
    add('cpls', ['cpls', 3, 4, 8], 3 * 4 * 8 + 3 * 4 * 2 + 4 * 3)
    add('pitfall', ['pitfall', 20, 4, 5, 5, 4], 4 * 40 + 4 * 5 + 4 * 5 + 4 * (40 + 5) + 12, True)
    add('pitfall', ['pitfall', 8, 3, 4, 3, 2], 2 * 12 + 2 * 4 + 2 * 3 + 2 * (12 + 3) + 6, True)
    add('randkcnf', ['randkcnf', 3, 200, 800], 200, True)
    add('randkcnf', ['randkcnf', 4, 50, 300, '--plant'], 50, True)
    add('randkxor', ['randkxor', 3, 40, 60], 40, True)
    add('randkxor', ['randkxor', 2, 30, 20, '--plant'], 30, True)
    add('or', ['or', 50, 50], 100)
    add('and', ['and', 0, 70], 70)
    if thorough:
        add('php', ['php', 100, 40], 4000)
        add('op', ['op', 40], 1560)
        add('peb', ['peb', 'pyramid', 40], 861)
        add('vdw', ['vdw', 150, 4, 5], 150)
        add('kcolor', ['kcolor', 3, 'gnp', 150, '.05'], 450, True)
        add('tseitin', ['tseitin', 'randomodd', 'gnd', 100, 4], 200, True)
        add('count', ['count', 15, 3], 455)
        add('cpls', ['cpls', 6, 8, 8], 6 * 64 + 6 * 8 * 3 + 8 * 3)
        add('pitfall', ['pitfall', 30, 4, 6, 6, 6], 6 * 60 + 36 + 36 + 6 * 66 + 18, True)
        add('ram', ['ram', 4, 5, 16], 120)
        add('stone', ['stone', 7, 'pyramid', 7], 7 + 36 * 7)
        add('bphp', ['bphp', 65, 64], 65 * 6)
        add('cliquecoloring', ['cliquecoloring', 14, 6, 5], 91 + 84 + 70)
        add('randkcnf', ['randkcnf', 3, 2000, 8000], 2000, True)
    return E


# transformations of the command line: (argv tokens after -T, documented number of variables as a function of n)
TRANSFORMATIONS = [
    (['none'], lambda n: n), (['flip'], lambda n: n), (['shuffle'], lambda n: n),
    (['or', 2], lambda n: 2 * n), (['xor', 2], lambda n: 2 * n), (['xor', 3], lambda n: 3 * n), (['eq', 2], lambda n: 2 * n),
    (['neq', 3], lambda n: 3 * n), (['maj', 3], lambda n: 3 * n), (['ite'], lambda n: 3 * n), (['one', 3], lambda n: 3 * n),
    (['atleast', 3, 2], lambda n: 3 * n), (['atmost', 3, 1], lambda n: 3 * n), (['exact', 3, 2], lambda n: 3 * n),
    (['anybut', 3, 1], lambda n: 3 * n), (['lift', 2], lambda n: 4 * n), (['lift', 3], lambda n: 6 * n),
    (['or', 1], lambda n: n), (['xor', 1], lambda n: n),
]


# ---------------------------------------------------------------------------------
# semantic comparison helpers (independent of cnfgen: they read only the public iteration)
# ---------------------------------------------------------------------------------
def rows_of(F):
    return [list(r) for r in F]


def is_opb_rows(F):
    return hasattr(F, 'number_of_constraints')


def z3_equivalent(n, clauses, constraints, timeout_ms=None):
    """None if the CNF `clauses` and the PB `constraints` over variables 1..n have the same models,
    else an assignment (dict var->bool) on which they differ; 'unknown' if z3 gives up within the timeout"""
    import z3
    xs = [None] + [z3.Bool('x%d' % i) for i in range(1, n + 1)]

    def L(l):
        return xs[l] if l > 0 else z3.Not(xs[-l])
    cnf = z3.And([z3.Or([L(l) for l in c]) if c else z3.BoolVal(False) for c in clauses]) if clauses else z3.BoolVal(True)
    parts = []
    for con in constraints:
        value, op = con[-1], con[-2]
        terms = con[:-2]
        s = z3.Sum([z3.If(L(l), c, 0) for c, l in terms]) if terms else z3.IntVal(0)
        parts.append({'>=': s >= value, '==': s == value, '<=': s <= value, '>': s > value, '<': s < value}[op])
    pb = z3.And(parts) if parts else z3.BoolVal(True)
    sol = z3.Solver()
    if timeout_ms:
        sol.set('timeout', int(timeout_ms))
    sol.add(z3.Xor(cnf, pb))
    r = sol.check()
    if r == z3.unknown:
        return 'unknown'
    if r == z3.unsat:
        return None
    m = sol.model()
    return {v: bool(m.eval(xs[v], model_completion=True)) for v in range(1, n + 1)}
