"""Independent strict readers for the text formats cnfgen writes (C06, C12).

Nothing here imports cnfgen.  The readers are written from the format definitions
(DIMACS cnf: satformat.ps; OPB: PB12 format.pdf as shown in cnfgen's docstrings, i.e.
without the ';' terminator; LaTeX: the documented `align` rows) and from the property
statements.  A reader raises FormatError(kind, message) when the text is not of the form;
`kind` is a short stable word used to build violation keys.

DIMACS has two readers:
  dimacs_writer_form(text)  - the form the *writer* promises: comment lines, one problem
                              line, one clause per line
  dimacs_lenient(text)      - for arbitrary text: the set of readings under which accepting
                              the text is defensible; anything else must be rejected
"""
import re


class FormatError(Exception):
    def __init__(self, kind, msg=''):
        Exception.__init__(self, '{}: {}'.format(kind, msg))
        self.kind = kind
        self.msg = msg


# =====================================================================================
# lines
# =====================================================================================
def file_lines(text, universal=False):
    """lines of a text: broken at \\n; with universal=True (a text FILE, as any text-mode
    consumer including cnfgen's own reader sees it) also at \\r\\n and \\r.
    returns (lines, terminated) ; terminated = the last line ends with a line break"""
    parts = re.split('\r\n|\n|\r', text) if universal else text.split('\n')
    terminated = parts[-1] == ''
    if terminated:
        parts = parts[:-1]
    return parts, terminated


# =====================================================================================
# DIMACS
# =====================================================================================
_STRICT_INT = re.compile(r'(0|-?[1-9][0-9]*)\Z')
_ASCII_INT = re.compile(r'[+-]?[0-9]+\Z')
_PROBLEM = re.compile(r'p cnf (0|[1-9][0-9]*) (0|[1-9][0-9]*)\Z')


def _to_int(t):
    """value of an ASCII integer token; numerals beyond python's int<->str limit (4300 digits,
    where int() itself raises ValueError) are clipped: only their range matters"""
    if not _ASCII_INT.match(t):
        return int(t)
    neg = t[0] == '-'
    d = t.lstrip('+-').lstrip('0')
    v = 0 if d == '' else (int(d) if len(d) <= 4300 else 10 ** 18)
    return -v if neg else v


def dimacs_writer_form(text, universal=False):
    """the text must be:  comment lines (first character 'c') anywhere, exactly one line
    'p cnf N M', after it lines 'l1 l2 ... lk 0' (one clause per line, 1<=|li|<=N),
    exactly M of them, every line terminated.
    returns dict(n, m, clauses, comments, lines)"""
    if text == '':
        raise FormatError('empty', 'no text')
    lines, terminated = file_lines(text, universal)
    if not terminated:
        raise FormatError('unterminated', 'last line has no newline')
    n = m = None
    clauses = []
    comments = []
    for i, line in enumerate(lines, 1):
        if line[:1] == 'c':
            comments.append(line)
            continue
        if line[:1] == 'p':
            if n is not None:
                raise FormatError('noncomment', 'line {}: second problem line {!r}'.format(i, line))
            mo = _PROBLEM.match(line)
            if not mo:
                raise FormatError('noncomment' if n is None else 'problem', 'line {}: bad problem line {!r}'.format(i, line))
            n, m = int(mo.group(1)), int(mo.group(2))
            continue
        if n is None:
            raise FormatError('noncomment', 'line {} before the problem line is neither a comment nor the problem line: {!r}'.format(i, line))
        toks = line.split(' ')
        if any(t == '' or not _STRICT_INT.match(t) for t in toks):
            raise FormatError('clauseline', 'line {}: not a clause line {!r}'.format(i, line))
        vals = [int(t) for t in toks]
        if vals[-1] != 0 or 0 in vals[:-1]:
            raise FormatError('clauseline', 'line {}: not exactly one clause {!r}'.format(i, line))
        for l in vals[:-1]:
            if abs(l) > n:
                raise FormatError('range', 'line {}: literal {} with {} variables'.format(i, l, n))
        clauses.append(vals[:-1])
    if n is None:
        raise FormatError('problem', 'no problem line')
    if len(clauses) != m:
        raise FormatError('count', 'problem line declares {} clauses, {} written'.format(m, len(clauses)))
    return {'n': n, 'm': m, 'clauses': clauses, 'comments': comments, 'lines': lines}


def dimacs_lenient(text):
    """Readings of an arbitrary text under which *accepting* it is defensible.

    returns ('reject', kind, why)          accepting the text would be a misreading
         or ('ok', n, [clause lists])       an accepting reader must return n variables and
                                            one of these clause lists
    Lenient on purpose (so that the check never demands more than the statement):
    python whitespace separates tokens; a line whose first non-blank character is 'c' is a
    comment wherever it is; the problem line is a line starting with 'p' with at least four
    fields, the 3rd and 4th being N and M (format word not examined; extra fields ignored;
    position not examined; an identical repetition tolerated); integers may carry a sign or
    leading zeros ('+1', '-0', '007'); a final clause without terminating 0 may be read as
    a clause.  NOT tolerated (they are not integers of the format, or the statement
    forbids them): any other token ('1_0', '1.0', 'x', '%', non-ASCII digits), N or M
    missing/negative, two different problem lines, a literal with |l| > N, a number of
    clauses different from M."""
    n = m = None
    toks = []
    for raw in text.split('\n'):
        line = raw.strip()
        if not line or line[0] == 'c':
            continue
        if line[0] == 'p':
            parts = line.split()
            if len(parts) < 4:
                return ('reject', 'problem_line', 'problem line with fewer than 4 fields: {!r}'.format(line))
            for t in parts[2:4]:
                if not _ASCII_INT.match(t) and not (_python_numeral(t) and not PYTHON_NUMERALS_ARE_MISREADINGS):
                    return ('reject', 'token:' + token_kind(t), 'problem line count {!r} is not an integer of the format'.format(t))
            nn, mm = _to_int(parts[2]), _to_int(parts[3])
            if nn < 0 or mm < 0:
                return ('reject', 'problem_line', 'negative count in {!r}'.format(line))
            if n is not None and (nn, mm) != (n, m):
                return ('reject', 'problem_line', 'two different problem lines')
            n, m = nn, mm
            continue
        for t in line.split():
            if not _ASCII_INT.match(t) and not (_python_numeral(t) and not PYTHON_NUMERALS_ARE_MISREADINGS):
                return ('reject', 'token:' + token_kind(t), 'token {!r} is not an integer of the format'.format(t))
            toks.append(_to_int(t))
    if n is None:
        return ('reject', 'problem_line', 'no problem line')
    clauses, cur = [], []
    for v in toks:
        if v == 0:
            clauses.append(cur)
            cur = []
        else:
            if abs(v) > n:
                return ('reject', 'range', 'literal {} with {} declared variables'.format(v, n))
            cur.append(v)
    if cur:
        if len(clauses) + 1 == m:
            return ('ok', n, [clauses + [cur]])
        return ('reject', 'incomplete_or_count', 'last clause unterminated and count does not fit')
    if len(clauses) != m:
        return ('reject', 'count', '{} clauses written, {} declared'.format(len(clauses), m))
    return ('ok', n, [clauses])


# Numerals that python's int() takes but that are not integers of the DIMACS format:
# '1_0' (== 10), non-ASCII digits ('１', '١').  A reader that turns them into literals returns
# clauses that are not written in the text.  Set to False to tolerate them instead.
PYTHON_NUMERALS_ARE_MISREADINGS = True


def _python_numeral(t):
    if t.isascii():
        return re.match(r'[+-]?[0-9]+(_[0-9]+)+\Z', t) is not None
    try:
        int(t)
        return True
    except ValueError:
        return False


def token_kind(t):
    """coarse class of a non-integer token (for stable violation keys)"""
    return 'python_numeral' if _python_numeral(t) else 'other'


# =====================================================================================
# OPB
# =====================================================================================
_OPB_FIRST = re.compile(r'\* #variable= (0|[1-9][0-9]*) #constraint= (0|[1-9][0-9]*)\Z')
_OPB_COEF = re.compile(r'[+-]?[0-9]+\Z')
_OPB_LIT = re.compile(r'(~?)x([1-9][0-9]*)\Z')


def opb_read(text, universal=False):
    """strict OPB reader.  First line '* #variable= N #constraint= M'; comment lines start
    with '*'; every other line is a constraint  '<coef> <lit> ... (>=|=) <degree>[ ;]'
    with <lit> = xK or ~xK, 1<=K<=N; exactly M of them; every line terminated.
    returns dict(n, m, constraints=[[(c,l),...,op,degree]], comments) with op in '>=','=='"""
    if text == '':
        raise FormatError('empty', 'no text')
    lines, terminated = file_lines(text, universal)
    if not terminated:
        raise FormatError('unterminated', 'last line has no newline')
    mo = _OPB_FIRST.match(lines[0])
    if not mo:
        raise FormatError('first_line', 'first line is not the size declaration: {!r}'.format(lines[0]))
    n, m = int(mo.group(1)), int(mo.group(2))
    cons, comments = [], []
    for i, line in enumerate(lines[1:], 2):
        if line[:1] == '*':
            comments.append(line)
            continue
        toks = line.split()
        if toks and toks[-1] == ';':
            toks = toks[:-1]
        elif toks and toks[-1].endswith(';'):
            toks[-1] = toks[-1][:-1]
        if len(toks) < 2 or toks[-2] not in ('>=', '='):
            raise FormatError('noncomment', 'line {} is neither a comment nor a constraint: {!r}'.format(i, line))
        if not _OPB_COEF.match(toks[-1]):
            raise FormatError('noncomment', 'line {}: bad degree {!r}'.format(i, line))
        body = toks[:-2]
        if len(body) % 2:
            raise FormatError('noncomment', 'line {}: dangling term in {!r}'.format(i, line))
        terms = []
        for c, l in zip(body[0::2], body[1::2]):
            ml = _OPB_LIT.match(l)
            if not _OPB_COEF.match(c) or not ml:
                raise FormatError('noncomment', 'line {}: bad term {!r} {!r}'.format(i, c, l))
            v = int(ml.group(2))
            if v > n:
                raise FormatError('range', 'line {}: variable x{} with {} declared'.format(i, v, n))
            terms.append((int(c), -v if ml.group(1) else v))
        cons.append(terms + ['>=' if toks[-2] == '>=' else '==', int(toks[-1])])
    if len(cons) != m:
        raise FormatError('count', 'declared {} constraints, {} written'.format(m, len(cons)))
    return {'n': n, 'm': m, 'constraints': cons, 'comments': comments}


# =====================================================================================
# LaTeX
# =====================================================================================
BEGIN = '\\begin{align}'
END = '\\end{align}'


def _split_depth0(s, sep):
    """split s at occurrences of sep that are outside every {...} group"""
    out, depth, i, last = [], 0, 0, 0
    while i < len(s):
        ch = s[i]
        if ch == '{':
            depth += 1
        elif ch == '}':
            depth -= 1
            if depth < 0:
                raise FormatError('braces', 'unbalanced braces in {!r}'.format(s))
        elif depth == 0 and s.startswith(sep, i):
            out.append(s[last:i])
            i += len(sep)
            last = i
            continue
        i += 1
    if depth != 0:
        raise FormatError('braces', 'unbalanced braces in {!r}'.format(s))
    out.append(s[last:])
    return out


def latex_literal(txt):
    """documented shapes:  {name}  |  \\overline{name}  |  {\\overline{base}rest} with
    name = base+rest.  returns (negated, name_as_read)"""
    t = txt.strip()
    if t.count('{') != t.count('}'):
        raise FormatError('literal', 'unbalanced literal {!r}'.format(txt))
    if t.startswith('{\\overline{') and t.endswith('}'):
        inner = t[len('{\\overline{'):-1]
        j = inner.find('}')
        if j < 0:
            raise FormatError('literal', 'bad negated literal {!r}'.format(txt))
        return True, inner[:j] + inner[j + 1:]
    if t.startswith('\\overline{') and t.endswith('}'):
        return True, t[len('\\overline{'):-1]
    if t.startswith('{') and t.endswith('}'):
        return False, t[1:-1]
    raise FormatError('literal', 'not a literal {!r}'.format(txt))


def _nobrace(s):
    return s.replace('{', '').replace('}', '')


def literal_matches(lit_read, negated, name):
    """does the literal read by latex_literal show variable `name` with that polarity?
    names are compared up to the *position* of braces (the negated form regroups them:
    {\\overline{base}rest}); the number of braces must agree"""
    neg, nm = lit_read
    return (neg == negated and _nobrace(nm) == _nobrace(name)
            and nm.count('{') == name.count('{') and nm.count('}') == name.count('}'))


def latex_blocks(text):
    """all align blocks of the text: list of bodies (text between \\begin{align} and
    \\end{align}) and the list of texts between/around them"""
    bodies, between = [], []
    pos = 0
    while True:
        i = text.find(BEGIN, pos)
        if i < 0:
            between.append(text[pos:])
            break
        j = text.find(END, i)
        if j < 0:
            raise FormatError('scaffolding', 'align block not closed')
        between.append(text[pos:i])
        bodies.append(text[i + len(BEGIN):j])
        pos = j + len(END)
    return bodies, between


_ROWSEP = re.compile(r'[ \t]*\\\\[ \t]*\n')


def latex_rows(body):
    """rows of one align body. returns 'top' for the empty formula or a list of row texts
    (without the leading '&')"""
    if not body.startswith('\n') or not body.endswith('\n'):
        raise FormatError('scaffolding', 'align body not on its own lines: {!r}'.format(body[:40]))
    inner = body[1:-1]
    if inner.strip() == '\\top':
        return 'top'
    rows = []
    for r in _ROWSEP.split(inner):
        if not r.startswith('&'):
            raise FormatError('row', 'row does not start with &: {!r}'.format(r[:60]))
        rows.append(r[1:])
    return rows


def latex_clause_row(row):
    """-> list of literals as read (negated, name, nbraces); [] for the empty clause"""
    r = row.strip()
    if r.startswith('\\land'):
        r = r[len('\\land'):].strip()
    if r == '\\square':
        return []
    if r.startswith('\\left(') and r.endswith('\\right)'):
        r = r[len('\\left('):-len('\\right)')]
    elif '\\left(' in r[:7] or r.endswith('\\right)'):
        raise FormatError('row', 'unbalanced \\left( \\right) in {!r}'.format(row))
    if r.strip() == '':
        raise FormatError('row', 'blank clause row')
    return [latex_literal(x) for x in _split_depth0(r, '\\lor')]


_REL = re.compile(r'(.*) (\\geq|=) (-?[0-9]+)\Z', re.S)
_TERM = re.compile(r'([0-9]*)(.*)\Z', re.S)


def latex_constraint_row(row):
    """-> ([(coef, literal_as_read)], op, degree) with op '>=' or '=='"""
    r = row.strip()
    mo = _REL.match(r)
    if not mo:
        raise FormatError('row', 'no relation/degree in {!r}'.format(row))
    lhs, rel, deg = mo.group(1).strip(), mo.group(2), int(mo.group(3))
    terms = []
    if lhs != '0':
        for t in _split_depth0(lhs, ' + '):
            mt = _TERM.match(t.strip())
            c = int(mt.group(1)) if mt.group(1) else 1
            terms.append((c, latex_literal(mt.group(2))))
    return terms, '>=' if rel == '\\geq' else '==', deg


_DOC_COUNTS = re.compile(r'\\noindent\\textbf\{(CNF|Pseudo-boolean formula) with ([0-9]+) variables and(?: and)? ([0-9]+) (clauses|constraints):\}\s*\Z')


def latex_document(text):
    """a full document: \\documentclass ... \\begin{document} ... the formula as the LAST run of
    align blocks (separated only by \\pagebreak) ... \\end{document}.
    returns dict(bodies, counts) ; counts = (kind, n, m) read from the sentence that
    precedes the formula, or None if there is no such sentence"""
    if not text.lstrip('%\n').startswith('\\documentclass'):
        raise FormatError('scaffolding', 'no \\documentclass at the top')
    if '\\begin{document}' not in text or not text.rstrip().endswith('\\end{document}'):
        raise FormatError('scaffolding', 'document environment not opened/closed')
    core_text = text.rstrip()[:-len('\\end{document}')]
    bodies, between = latex_blocks(core_text)
    if not bodies:
        raise FormatError('scaffolding', 'no align block')
    if between[-1].strip() != '':
        raise FormatError('scaffolding', 'text after the last align block: {!r}'.format(between[-1][:80]))
    s = len(bodies) - 1
    while s > 0 and between[s].strip() == '\\pagebreak':
        s -= 1
    counts = None
    lines = between[s].rstrip('\n').split('\n')
    mo = _DOC_COUNTS.match(lines[-1]) if lines else None
    if mo:
        counts = ('cnf' if mo.group(1) == 'CNF' else 'opb', int(mo.group(2)), int(mo.group(3)))
    return {'bodies': bodies[s:], 'counts': counts}


def latex_snippet(text):
    """to_latex(): exactly one align block and nothing else"""
    bodies, between = latex_blocks(text)
    if len(bodies) != 1 or any(b.strip() for b in between):
        raise FormatError('scaffolding', 'snippet is not exactly one align block')
    return bodies
