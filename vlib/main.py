"""entry point: python -m vlib.main <ID> [--tier T] [--replay FILE]"""
import argparse
import importlib
import json
import os
import sys
import traceback

from vlib import core


def main(argv=None):
    ap = argparse.ArgumentParser()
    ap.add_argument('prop')
    ap.add_argument('--tier', default=os.environ.get('VERIF_TIER', 'quick'), choices=['quick', 'thorough'])
    ap.add_argument('--replay')
    ap.add_argument('--only', default=None, help='debug: run only sections whose name contains this')
    a = ap.parse_args(argv)
    seed = int(os.environ.get('VERIF_SEED', '0') or 0)
    try:
        mod = importlib.import_module('checks.' + a.prop)
    except ModuleNotFoundError as e:
        print('no check for', a.prop, e, file=sys.stderr)
        return 3
    os.environ['VERIF_TIER'] = a.tier          # read by the proof tier (which contract variants to prove)
    ctx = core.Ctx(a.prop, a.tier, seed, level=getattr(mod, 'LEVEL', 'exploration'))
    ctx.only = a.only
    try:
        if a.replay:
            data = json.load(open(a.replay))
            ok = mod.replay(ctx, data)
            print('REPLAY', 'property still violated' if not ok else 'no violation reproduced')
            return 1 if not ok else 0
        mod.run(ctx)
        return ctx.finish()
    except Exception:
        traceback.print_exc()
        print('CHECKER-ERROR property={} (exit 3: the check itself failed; not a verdict)'.format(a.prop))
        return 3


if __name__ == '__main__':
    sys.exit(main())
