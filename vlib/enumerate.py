"""Small-scope exhaustive enumerators (deterministic; independent of cnfgen)."""
import itertools
import random


def literal_lists(maxlen, nvars=None, repeats=False):
    """all lists of length <= maxlen of literals over variables 1..nvars.
    repeats=False: distinct variables, increasing order of variable position chosen arbitrarily"""
    nvars = nvars or maxlen
    for n in range(maxlen + 1):
        if repeats:
            pool = [l for v in range(1, nvars + 1) for l in (v, -v)]
            for t in itertools.product(pool, repeat=n):
                yield list(t)
        else:
            for vs in itertools.permutations(range(1, nvars + 1), n):
                if list(vs) != sorted(vs) and n > 2:
                    continue
                for signs in itertools.product([1, -1], repeat=n):
                    yield [v * s for v, s in zip(vs, signs)]


def clauses_over(nvars, maxwidth, repeats=False):
    out = []
    pool = [l for v in range(1, nvars + 1) for l in (v, -v)]
    for w in range(maxwidth + 1):
        if repeats:
            for t in itertools.product(pool, repeat=w):
                out.append(list(t))
        else:
            for t in itertools.combinations(pool, w):
                out.append(list(t))
    return out


def cnfs(nvars, maxclauses, maxwidth, repeats=False, limit=None, rng=None):
    """CNFs as (nvars, list of clauses); all of them, or a deterministic sample of `limit`"""
    pool = clauses_over(nvars, maxwidth, repeats)
    allc = []
    for m in range(maxclauses + 1):
        for t in itertools.product(range(len(pool)), repeat=m):
            allc.append(t)
    if limit is not None and len(allc) > limit:
        rng = rng or random.Random(0)
        allc = rng.sample(allc, limit)
    for t in allc:
        yield nvars, [list(pool[i]) for i in t]


def simple_graphs(n):
    """all labelled simple graphs on vertices 1..n as (n, edge list)"""
    pairs = list(itertools.combinations(range(1, n + 1), 2))
    for mask in range(1 << len(pairs)):
        yield n, [pairs[i] for i in range(len(pairs)) if mask >> i & 1]


def bipartite_graphs(L, R):
    pairs = [(u, v) for u in range(1, L + 1) for v in range(1, R + 1)]
    for mask in range(1 << len(pairs)):
        yield L, R, [pairs[i] for i in range(len(pairs)) if mask >> i & 1]


def dags(n):
    """all DAGs on 1..n whose edges go upward"""
    return simple_graphs(n)


def digraphs(n, loops=True):
    pairs = [(u, v) for u in range(1, n + 1) for v in range(1, n + 1) if loops or u != v]
    for mask in range(1 << len(pairs)):
        yield n, [pairs[i] for i in range(len(pairs)) if mask >> i & 1]


def connected_components(n, edges):
    parent = list(range(n + 1))

    def find(x):
        while parent[x] != x:
            parent[x] = parent[parent[x]]
            x = parent[x]
        return x
    for u, v in edges:
        parent[find(u)] = find(v)
    comps = {}
    for v in range(1, n + 1):
        comps.setdefault(find(v), []).append(v)
    return list(comps.values())
