"""Exact model counting / satisfiability for small CNFs by plain DPLL (independent of cnfgen).

count_models(nvars, clauses)        -> number of assignments of variables 1..nvars satisfying all clauses
is_sat(nvars, clauses)              -> bool (stops at the first model)

Clauses are iterables of non-zero ints; the empty clause is false; tautologies and repeated
literals are tolerated.  Variables that occur in no clause are free (factor 2 each).
The counter is cross-checked against the numpy truth tables of vlib.sat by `self_check`
(the C02 driver calls `checked_count`, which compares the two on every formula with few variables).
"""
from vlib import sat


class _Found(Exception):
    pass


def _prepare(nvars, clauses):
    out = []
    for c in clauses:
        s = set(c)
        if any(l == 0 or abs(l) > nvars for l in s):
            raise ValueError('literal out of range in {}'.format(list(c)))
        if any(-l in s for l in s):
            continue
        out.append(tuple(sorted(s, key=abs)))
    return out


def _assign(clauses, lit):
    """simplify by lit := true; None on conflict"""
    new = []
    neg = -lit
    for c in clauses:
        if lit in c:
            continue
        if neg in c:
            c = tuple(x for x in c if x != neg)
            if not c:
                return None
        new.append(c)
    return new


def _count(clauses, free, stop):
    # unit propagation
    while True:
        unit = None
        for c in clauses:
            if len(c) == 1:
                unit = c[0]
                break
            if not c:
                return 0
        if unit is None:
            break
        clauses = _assign(clauses, unit)
        if clauses is None:
            return 0
        free -= 1
    if not clauses:
        if stop:
            raise _Found()
        return 1 << free
    # branch on a literal of a shortest clause
    best = min(clauses, key=len)
    lit = best[0]
    total = 0
    for l in (lit, -lit):
        sub = _assign(clauses, l)
        if sub is not None:
            total += _count(sub, free - 1, stop)
    return total


def count_models(nvars, clauses):
    cl = _prepare(nvars, clauses)
    return _count(cl, nvars, False)


def is_sat(nvars, clauses):
    cl = _prepare(nvars, clauses)
    try:
        _count(cl, nvars, True)
    except _Found:
        return True
    return False


def checked_count(nvars, clauses, table_limit=12):
    """count_models, cross-checked against the truth table when nvars <= table_limit
    (a mismatch is a bug of the checker -> AssertionError -> exit 3, never a verdict)"""
    clauses = [list(c) for c in clauses]
    c = count_models(nvars, clauses)
    if nvars <= table_limit:
        t = int(sat.cnf_table(nvars, clauses).sum())
        assert t == c, ('x_dpll disagrees with truth table', nvars, clauses, c, t)
    return c
