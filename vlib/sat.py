"""Independent semantic oracles: truth tables (numpy) and z3 for larger formulas.

Nothing here imports cnfgen.  An assignment index a in [0, 2^n) assigns variable v (1-based)
the bit (a >> (v-1)) & 1.
"""
import itertools
import numpy as np


def columns(n):
    """cols[v] = boolean vector of length 2^n: value of variable v in each assignment (cols[0] unused)"""
    idx = np.arange(1 << n, dtype=np.uint32) if n <= 31 else None
    cols = [None]
    for v in range(1, n + 1):
        cols.append(((idx >> (v - 1)) & 1).astype(bool))
    return cols


def lit_col(cols, n, lit):
    c = cols[abs(lit)]
    return c if lit > 0 else ~c


def clause_table(cols, n, clause):
    t = np.zeros(1 << n, dtype=bool)
    for l in clause:
        t |= lit_col(cols, n, l)
    return t


def cnf_table(n, clauses, cols=None):
    """boolean vector: which of the 2^n assignments satisfy all clauses"""
    cols = cols or columns(n)
    t = np.ones(1 << n, dtype=bool)
    for c in clauses:
        t &= clause_table(cols, n, c)
    return t


def count_table(cols, n, lits):
    """int vector: number of true literals of `lits` under each assignment"""
    t = np.zeros(1 << n, dtype=np.int32)
    for l in lits:
        t += lit_col(cols, n, l)
    return t


def opb_constraint_table(cols, n, constraint):
    """constraint = [(c,l),...,op,value]; op any of >=,==,<=,<,>"""
    value = constraint[-1]
    op = constraint[-2]
    s = np.zeros(1 << n, dtype=np.int64)
    for c, l in constraint[:-2]:
        s += c * lit_col(cols, n, l).astype(np.int64)
    return {'>=': s >= value, '==': s == value, '<=': s <= value, '<': s < value, '>': s > value,
            '!=': s != value}[op]


def opb_table(n, constraints, cols=None):
    cols = cols or columns(n)
    t = np.ones(1 << n, dtype=bool)
    for c in constraints:
        t &= opb_constraint_table(cols, n, c)
    return t


def formula_table(F, n=None):
    """truth table of a cnfgen CNF or OPB object (reads only public iteration)"""
    n = F.number_of_variables() if n is None else n
    rows = list(F)
    if rows and len(rows[0]) >= 2 and isinstance(rows[0][-2], str):
        return opb_table(n, rows)
    if hasattr(F, 'number_of_constraints'):
        return opb_table(n, rows)
    return cnf_table(n, rows)


def models(table):
    return np.flatnonzero(table)


def assignment_of(a, n):
    """dict var -> bool for assignment index a"""
    return {v: bool((a >> (v - 1)) & 1) for v in range(1, n + 1)}


def index_of(assign, n):
    a = 0
    for v in range(1, n + 1):
        if assign.get(v, False):
            a |= 1 << (v - 1)
    return a


# ---------------- z3 oracle for larger formulas -----------------------------------
def z3_solver_for(n, clauses=None, constraints=None):
    import z3
    xs = [None] + [z3.Bool('x%d' % i) for i in range(1, n + 1)]
    s = z3.Solver()

    def L(l):
        return xs[l] if l > 0 else z3.Not(xs[-l])
    for c in clauses or []:
        s.add(z3.Or([L(l) for l in c]) if c else z3.BoolVal(False))
    for con in constraints or []:
        value, op = con[-1], con[-2]
        terms = [(L(l), c) for c, l in con[:-2]]
        if op == '>=':
            s.add(z3.PbGe(terms, value) if terms and value > 0 else z3.BoolVal(value <= 0) if not terms else z3.BoolVal(True))
        elif op == '==':
            s.add(z3.PbEq(terms, value) if terms and value >= 0 else z3.BoolVal(value == 0 and not terms))
        else:
            raise ValueError(op)
    return s, xs


def z3_is_sat(n, clauses=None, constraints=None):
    import z3
    s, _ = z3_solver_for(n, clauses, constraints)
    r = s.check()
    assert r != z3.unknown
    return r == z3.sat


def z3_count_models(n, clauses, limit=100000, project=None):
    """count models by blocking clauses over variables `project` (default all)"""
    import z3
    s, xs = z3_solver_for(n, clauses)
    proj = project or list(range(1, n + 1))
    cnt = 0
    while s.check() == z3.sat:
        m = s.model()
        cnt += 1
        if cnt > limit:
            raise RuntimeError('too many models')
        s.add(z3.Or([xs[v] != bool(m.eval(xs[v], model_completion=True)) for v in proj]) if proj else z3.BoolVal(False))
    return cnt
