"""Independent oracle for graph specifications on the command line (C15).

Nothing here imports cnfgen.  A graph is a plain dict
    {'t': 'simple',    'n': n, 'E': set of (u, v) with u < v}
    {'t': 'bipartite', 'L': L, 'R': R, 'E': set of (u, v), u in 1..L, v in 1..R}
    {'t': 'dag',       'n': n, 'E': set of (u, v) meaning u -> v}
The named graphs are written from their textbook definitions / the docstrings; predicates are lists
(JSON-able) interpreted by `check_pred`; the strict readers parse the files written by `save`.
"""
import itertools
import re

import networkx


# ------------------------------------------------------------------ named graphs (coordinates)
def grid_graph(dims, periodic):
    """vertices = tuples of coordinates; edge iff the tuples differ by one step in exactly one
    coordinate (cyclically for the torus).  returns (vertex list, set of frozenset edges)"""
    V = list(itertools.product(*[range(d) for d in dims]))
    E = set()
    for x in V:
        for i, d in enumerate(dims):
            if periodic:
                y = x[:i] + ((x[i] + 1) % d,) + x[i + 1:]
                if y != x:
                    E.add(frozenset((x, y)))
            elif x[i] + 1 < d:
                E.add(frozenset((x, x[:i] + (x[i] + 1,) + x[i + 1:])))
    return V, E


def multipartite_graph(n, blocks):
    V = [(b, i) for b in range(blocks) for i in range(n)]
    E = {frozenset((x, y)) for x, y in itertools.combinations(V, 2) if x[0] != y[0]}
    return V, E


def pyramid_dag(h):
    """layer 0 has h+1 vertices ... layer h has one; (l,p) and (l,p+1) point to (l+1,p)"""
    V = [(l, p) for l in range(h + 1) for p in range(h + 1 - l)]
    E = set()
    for l in range(h):
        for p in range(h - l):
            E.add(((l, p), (l + 1, p)))
            E.add(((l, p + 1), (l + 1, p)))
    return V, E


def tree_dag(h):
    """complete binary tree of height h, edges from the children to the parent (heap numbering)"""
    V = list(range(1, 2 ** (h + 1)))
    E = {(c, c // 2) for c in V if c > 1}
    return V, E


def path_dag(length):
    V = list(range(length + 1))
    E = {(i, i + 1) for i in range(length)}
    return V, E


def _nx(V, E, directed):
    G = networkx.DiGraph() if directed else networkx.Graph()
    G.add_nodes_from(V)
    G.add_edges_from(tuple(e) for e in E)
    return G


def isomorphic(g, V, E, directed):
    """is the observed graph g isomorphic to (V, E)?"""
    if g['n'] != len(V) or len(g['E']) != len(E):
        return False
    A = _nx(range(1, g['n'] + 1), g['E'], directed)
    B = _nx(V, E, directed)
    if directed:
        da = sorted((A.in_degree(v), A.out_degree(v)) for v in A)
        db = sorted((B.in_degree(v), B.out_degree(v)) for v in B)
    else:
        da = sorted(d for _, d in A.degree())
        db = sorted(d for _, d in B.degree())
    if da != db:
        return False
    return networkx.is_isomorphic(A, B)


def acyclic(n, E):
    indeg = {v: 0 for v in range(1, n + 1)}
    succ = {v: [] for v in range(1, n + 1)}
    for u, v in E:
        indeg[v] += 1
        succ[u].append(v)
    todo = [v for v in indeg if indeg[v] == 0]
    seen = 0
    while todo:
        u = todo.pop()
        seen += 1
        for v in succ[u]:
            indeg[v] -= 1
            if indeg[v] == 0:
                todo.append(v)
    return seen == n


def degrees(g):
    if g['t'] == 'bipartite':
        l = {u: 0 for u in range(1, g['L'] + 1)}
        r = {v: 0 for v in range(1, g['R'] + 1)}
        for u, v in g['E']:
            l[u] += 1
            r[v] += 1
        return l, r
    d = {v: 0 for v in range(1, g['n'] + 1)}
    for u, v in g['E']:
        d[u] += 1
        d[v] += 1
    return d


# ------------------------------------------------------------------ predicates
def check_pred(g, pred):
    """None if graph g satisfies the predicate, else a description"""
    name, a = pred[0], pred[1:]
    if name == 'order':
        return None if g.get('n') == a[0] else '{} vertices instead of {}'.format(g.get('n'), a[0])
    if name == 'parts':
        return None if (g.get('L'), g.get('R')) == (a[0], a[1]) else 'sides ({},{}) instead of ({},{})'.format(g.get('L'), g.get('R'), a[0], a[1])
    if name == 'edges':
        return None if len(g['E']) == a[0] else '{} edges instead of {}'.format(len(g['E']), a[0])
    if name == 'regular':
        d = degrees(g)
        bad = {v: x for v, x in d.items() if x != a[0]}
        return None if not bad else 'not {}-regular: degrees {}'.format(a[0], bad)
    if name == 'left_regular':
        l, _ = degrees(g)
        bad = {v: x for v, x in l.items() if x != a[0]}
        return None if not bad else 'left side not {}-regular: left degrees {}'.format(a[0], bad)
    if name == 'right_regular':
        _, r = degrees(g)
        bad = {v: x for v, x in r.items() if x != a[0]}
        return None if not bad else 'right side not {}-regular: right degrees {}'.format(a[0], bad)
    if name == 'equals':
        want = {tuple(e) for e in a[0]}
        return None if g['E'] == want else 'edges {} instead of {}'.format(sorted(g['E']), sorted(want))
    if name == 'balanced_multipartite':   # the vertices split into t independent classes of N vertices each
        N, t = a[0], a[1]
        if g['n'] != N * t:
            return '{} vertices instead of {}'.format(g['n'], N * t)
        adj = {v: set() for v in range(1, g['n'] + 1)}
        for u, v in g['E']:
            adj[u].add(v)
            adj[v].add(u)
        classes = [[] for _ in range(t)]

        def place(v):
            if v > g['n']:
                return True
            for c in classes:
                if len(c) < N and not (adj[v] & set(c)):
                    c.append(v)
                    if place(v + 1):
                        return True
                    c.pop()
                if not c:
                    break             # empty classes are interchangeable
            return False
        return None if place(1) else 'not {}-partite with {} vertices per part: edges {}'.format(t, N, sorted(g['E']))
    if name == 'iso':
        kind, p = a[0], a[1]
        if kind == 'grid':
            V, E = grid_graph(p, False)
        elif kind == 'torus':
            V, E = grid_graph(p, True)
        elif kind == 'multipartite':
            V, E = multipartite_graph(p[0], p[1])
        elif kind == 'pyramid':
            V, E = pyramid_dag(p[0])
        elif kind == 'tree':
            V, E = tree_dag(p[0])
        elif kind == 'path':
            V, E = path_dag(p[0])
        else:
            raise ValueError(kind)
        ok = isomorphic(g, V, E, g['t'] == 'dag')
        return None if ok else 'not isomorphic to {} {} ({} vertices, {} edges): got {} vertices, edges {}'.format(
            kind, p, len(V), len(E), g['n'], sorted(g['E'])[:40])
    if name == 'acyclic':
        return None if acyclic(g['n'], g['E']) else 'the directed graph has a cycle: {}'.format(sorted(g['E'])[:40])
    if name == 'is_dag':
        return None if g.get('is_dag') else 'is_dag() is false for a DAG construction'
    if name == 'sources':                 # documented: indexed from the bottom layer, starting from 1
        src = sorted(set(range(1, g['n'] + 1)) - {v for _, v in g['E']})
        return None if src == list(range(1, a[0] + 1)) else 'sources {} instead of 1..{}'.format(src, a[0])
    if name == 'sink_last':
        snk = sorted(set(range(1, g['n'] + 1)) - {u for u, _ in g['E']})
        return None if snk == [g['n']] else 'sinks {} instead of [{}]'.format(snk, g['n'])
    if name == 'has_clique':
        k = a[0]
        adj = g['E']
        for S in itertools.combinations(range(1, g['n'] + 1), k):
            if all((u, v) in adj for u, v in itertools.combinations(S, 2)):
                return None
        return 'no clique of size {}'.format(k)
    if name == 'has_biclique':
        return None if find_biclique(g, a[0], a[1]) is not None else 'no ({},{}) biclique'.format(a[0], a[1])
    raise ValueError('unknown predicate {}'.format(pred))


def find_biclique(g, a, b):
    for A in itertools.combinations(range(1, g['L'] + 1), a):
        for B in itertools.combinations(range(1, g['R'] + 1), b):
            if all((u, v) in g['E'] for u in A for v in B):
                return A, B
    return None


# ------------------------------------------------------------------ modifiers (relative to a base graph)
def smooth_new_vertices(g, base_n):
    """undo edge splitting: every vertex > base_n must have exactly two, non adjacent, neighbours;
    remove it and join them.  returns (set of edges on 1..base_n, None) or (None, description)"""
    adj = {v: set() for v in range(1, g['n'] + 1)}
    for u, v in g['E']:
        adj[u].add(v)
        adj[v].add(u)
    for x in range(g['n'], base_n, -1):
        nb = sorted(adj[x])
        if len(nb) != 2:
            return None, 'new vertex {} has neighbours {} (a vertex put in the middle of an edge has two)'.format(x, nb)
        p, q = nb
        if q in adj[p]:
            return None, 'new vertex {} sits between {} and {} which are still adjacent'.format(x, p, q)
        adj[p].discard(x)
        adj[q].discard(x)
        del adj[x]
        adj[p].add(q)
        adj[q].add(p)
    return {(u, v) for u in adj for v in adj[u] if u < v}, None


def check_simple_mods(g, base, plant, add, split):
    """g = base + plantclique plant + addedges add + splitedges split  (None = option absent)"""
    s = split or 0
    if g['n'] != base['n'] + s:
        return 'splitedges', '{} vertices instead of {}+{}'.format(g['n'], base['n'], s)
    P, bad = smooth_new_vertices(g, base['n'])
    if bad:
        return 'splitedges', bad
    if len(g['E']) != len(P) + s:
        return 'splitedges', '{} edges after splitting {} edges of a graph with {} edges'.format(len(g['E']), s, len(P))
    missing = base['E'] - P
    if missing:
        return 'modifiers', 'edges {} of the base graph disappeared'.format(sorted(missing))
    new = P - base['E']
    k = plant or 0
    m = add or 0
    verts = range(1, base['n'] + 1)
    best = None
    for S in itertools.combinations(verts, k):
        KS = {(u, v) for u, v in itertools.combinations(S, 2)}
        if KS <= P:
            extra = len(new - KS)
            if extra == m:
                return None
            best = extra if best is None else min(best, extra, key=lambda x: abs(x - m))
    if best is None:
        return 'plantclique', 'no clique of size {} in the result (edges {})'.format(k, sorted(P))
    return 'addedges', '{} new edges besides a planted {}-clique, {} requested (base {} edges, result {} edges)'.format(
        best, k, m, len(base['E']), len(P))


def check_bipartite_mods(g, base, plant, add):
    if (g['L'], g['R']) != (base['L'], base['R']):
        return 'modifiers', 'sides changed from ({},{}) to ({},{})'.format(base['L'], base['R'], g['L'], g['R'])
    missing = base['E'] - g['E']
    if missing:
        return 'modifiers', 'edges {} of the base graph disappeared'.format(sorted(missing))
    new = g['E'] - base['E']
    a, b = plant or (0, 0)
    m = add or 0
    best = None
    for A in itertools.combinations(range(1, g['L'] + 1), a):
        for B in itertools.combinations(range(1, g['R'] + 1), b):
            K = {(u, v) for u in A for v in B}
            if K <= g['E']:
                extra = len(new - K)
                if extra == m:
                    return None
                best = extra if best is None else min(best, extra, key=lambda x: abs(x - m))
    if best is None:
        return 'plantbiclique', 'no ({},{}) biclique in the result (edges {})'.format(a, b, sorted(g['E']))
    return 'addedges', '{} new edges besides a planted ({},{})-biclique, {} requested (base {} edges, result {} edges)'.format(
        best, a, b, m, len(base['E']), len(g['E']))


# ------------------------------------------------------------------ strict readers of saved files
class BadFile(Exception):
    pass


def _norm(gt, n, pairs):
    if gt == 'simple':
        return {'t': 'simple', 'n': n, 'E': {(min(u, v), max(u, v)) for u, v in pairs}}
    return {'t': 'dag', 'n': n, 'E': set(pairs)}


def read_saved(text, gt, fmt):
    """gt in simple/bipartite/dag; fmt in kthlist/dimacs/matrix/gml/dot"""
    if fmt == 'kthlist':
        rows = [l.strip() for l in text.splitlines() if l.strip() and not l.startswith('c')]
        if not rows or not re.fullmatch(r'\d+', rows[0]):
            raise BadFile('kthlist: no size line')
        n = int(rows[0])
        lists = []
        for l in rows[1:]:
            m = re.fullmatch(r'(\d+)\s*:((?:\s*\d+)*)\s+0', l) or re.fullmatch(r'(\d+)\s*:()\s*0', l)
            if not m:
                raise BadFile('kthlist: bad row ' + repr(l))
            lists.append((int(m.group(1)), [int(x) for x in m.group(2).split()]))
        if gt == 'bipartite':
            L = len(lists)
            if [v for v, _ in lists] != list(range(1, L + 1)):
                raise BadFile('kthlist: left rows are not 1..L')
            E = set()
            for u, nb in lists:
                for v in nb:
                    if not L < v <= n:
                        raise BadFile('kthlist: right vertex out of range')
                    E.add((u, v - L))
            return {'t': 'bipartite', 'L': L, 'R': n - L, 'E': E}
        pairs = []
        for v, nb in lists:
            for u in nb:
                if not (1 <= u <= n and 1 <= v <= n):
                    raise BadFile('kthlist: vertex out of range')
                pairs.append((u, v))          # u is a predecessor / neighbour of v
        if gt == 'simple':
            und = {(min(u, v), max(u, v)) for u, v in pairs}
            if len(pairs) != 2 * len(und):
                raise BadFile('kthlist: adjacency lists of a simple graph are not symmetric')
        return _norm(gt, n, pairs)
    if fmt == 'dimacs':
        n = None
        pairs = []
        for l in text.splitlines():
            if not l.strip() or l.startswith('c'):
                continue
            t = l.split()
            if t[0] == 'p':
                if n is not None or len(t) != 4:
                    raise BadFile('dimacs: bad p line')
                n, m = int(t[2]), int(t[3])
            elif t[0] in ('e', 'a') and len(t) == 3 and n is not None:
                pairs.append((int(t[1]), int(t[2])))
            else:
                raise BadFile('dimacs: bad line ' + repr(l))
        if n is None or m != len(pairs):
            raise BadFile('dimacs: edge count in the p line does not match')
        return _norm(gt, n, pairs)
    if fmt == 'matrix':
        rows = [l.split() for l in text.splitlines() if l.strip()]
        L, R = int(rows[0][0]), int(rows[0][1])
        if len(rows) != L + 1 or any(len(r) != R for r in rows[1:]):
            raise BadFile('matrix: wrong shape')
        E = set()
        for u, r in enumerate(rows[1:], 1):
            for v, x in enumerate(r, 1):
                if x not in ('0', '1'):
                    raise BadFile('matrix: entry ' + x)
                if x == '1':
                    E.add((u, v))
        return {'t': 'bipartite', 'L': L, 'R': R, 'E': E}
    if fmt == 'gml':
        nodes = {}
        side = {}
        for m in re.finditer(r'node\s*\[(.*?)\]', text, re.S):
            body = m.group(1)
            i = int(re.search(r'\bid\s+(-?\d+)', body).group(1))
            lab = re.search(r'\blabel\s+"?(-?\d+)"?', body)
            nodes[i] = int(lab.group(1)) if lab else i
            b = re.search(r'\bbipartite\s+(\d+)', body)
            if b:
                side[nodes[i]] = int(b.group(1))
        pairs = []
        for m in re.finditer(r'edge\s*\[(.*?)\]', text, re.S):
            body = m.group(1)
            s = int(re.search(r'\bsource\s+(-?\d+)', body).group(1))
            t = int(re.search(r'\btarget\s+(-?\d+)', body).group(1))
            pairs.append((nodes[s], nodes[t]))
        directed = re.search(r'\bdirected\s+1\b', text) is not None
        return _from_labelled(gt, sorted(nodes.values()), side, pairs, directed)
    if fmt == 'dot':
        labels = []
        side = {}
        pairs = []
        directed = re.search(r'\bdigraph\b', text.split('{')[0]) is not None
        body = text[text.index('{') + 1:text.rindex('}')]
        for stmt in body.split(';'):
            stmt = stmt.strip()
            if not stmt:
                continue
            m = re.fullmatch(r'"?(\d+)"?\s*(--|->)\s*"?(\d+)"?\s*(\[.*\])?', stmt, re.S)
            if m:
                pairs.append((int(m.group(1)), int(m.group(3))))
                continue
            m = re.fullmatch(r'"?(\d+)"?\s*(\[(.*)\])?', stmt, re.S)
            if m:
                labels.append(int(m.group(1)))
                b = re.search(r'bipartite="?(\d)"?', m.group(3) or '')
                if b:
                    side[int(m.group(1))] = int(b.group(1))
                continue
            if re.fullmatch(r'(graph|node|edge)\s*\[.*\]', stmt, re.S):
                continue
            raise BadFile('dot: statement ' + repr(stmt))
        return _from_labelled(gt, sorted(labels), side, pairs, directed)
    raise BadFile('unknown format ' + fmt)


def _from_labelled(gt, labels, side, pairs, directed):
    n = len(labels)
    if labels != list(range(1, n + 1)):
        raise BadFile('vertices are not labelled 1..n: {}'.format(labels))
    if gt == 'bipartite':
        left = [v for v in labels if side.get(v) == 0]
        right = [v for v in labels if side.get(v) == 1]
        L = len(left)
        if left != list(range(1, L + 1)) or len(left) + len(right) != n:
            raise BadFile('bipartition attributes missing or left side is not 1..L')
        E = set()
        for u, v in pairs:
            u, v = min(u, v), max(u, v)
            if not (u <= L < v):
                raise BadFile('edge inside a side')
            E.add((u, v - L))
        return {'t': 'bipartite', 'L': L, 'R': n - L, 'E': E}
    if (gt == 'dag') != directed:
        raise BadFile('directedness of the file does not match the graph type')
    return _norm(gt, n, pairs)
