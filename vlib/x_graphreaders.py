"""Independent readers (and plain writers) for the graph file formats of cnfgen.

Written from the documentation only: www/KTHlistFormat.txt, www/graphformats.org,
docs/graphs.rst, the DIMACS edge format description and the doc strings of readGraph /
BipartiteGraph.from_networkx / Graph.normalize.  Nothing here imports cnfgen, networkx or pydot.

A reader returns a *verdict* about a text, for a graph type in {'simple','digraph','dag','bipartite'}:

  ('graph', g)     the text describes exactly the graph g; a conforming reader returns g
                   (or, by property C14, raises ValueError)
  ('reject', why)  no graph of that type is consistent with the text: a conforming reader must
                   raise ValueError
  ('graph~', g)    bipartite gml/dot only: the text describes g up to the numbering inside each side
                   (the documentation says that the order of the vertices is preserved but the order
                   of declaration and the order of the ids disagree): side sizes and the edge set
                   up to a renumbering of each side are settled
  ('unclear', why) the documentation does not settle the meaning (only the exception type of the
                   reader can be judged)

canonical graphs (hashable):
  ('simple', n, frozenset of (u,v) with u<v)
  ('digraph', n, frozenset of (u,v))            also used for type 'dag'
  ('bipartite', L, R, frozenset of (u,v))       u in 1..L, v in 1..R
"""
import re

_PLAIN_INT = re.compile(r'-?[0-9]+\Z')


def tok_int(tok):
    """('int', value) for a plain decimal integer; ('odd', None) for spellings that Python's int()
    would still accept ('+3', '1_0', unicode digits, ...); ('bad', None) otherwise"""
    if _PLAIN_INT.match(tok) and tok.isascii():
        return 'int', int(tok)
    try:
        int(tok)
        return 'odd', None
    except ValueError:
        return 'bad', None


class _Verdict(Exception):
    def __init__(self, kind, why):
        Exception.__init__(self, why)
        self.kind = kind
        self.why = why


def _reject(why):
    raise _Verdict('reject', why)


def _unclear(why):
    raise _Verdict('unclear', why)


def _int(tok, what):
    k, v = tok_int(tok)
    if k == 'bad':
        _reject('{}: {!r} is not an integer'.format(what, tok))
    if k == 'odd':
        _unclear('{}: unusual integer spelling {!r}'.format(what, tok))
    return v


def _verdict(fn):
    def wrapped(*a, **kw):
        try:
            return ('graph', fn(*a, **kw))
        except _Verdict as v:
            return (v.kind, v.why)
    wrapped.__name__ = fn.__name__
    wrapped.__doc__ = fn.__doc__
    return wrapped


def make_graph(gtype, n, pairs):
    """canonical graph of a type from vertex count (or (L,R)) and an iterable of pairs.
    Raises _Verdict('reject') when no graph of that type has these pairs as edges."""
    pairs = [tuple(p) for p in pairs]
    if gtype == 'bipartite':
        L, R = n
        for u, v in pairs:
            if not (1 <= u <= L and 1 <= v <= R):
                _reject('edge ({},{}) outside a ({},{}) bipartite graph'.format(u, v, L, R))
        return ('bipartite', L, R, frozenset(pairs))
    for u, v in pairs:
        if not (1 <= u <= n and 1 <= v <= n):
            _reject('edge ({},{}) outside 1..{}'.format(u, v, n))
    if gtype == 'simple':
        for u, v in pairs:
            if u == v:
                _reject('self loop on {} in a simple graph'.format(u))
        return ('simple', n, frozenset((min(u, v), max(u, v)) for u, v in pairs))
    if gtype == 'dag':
        for u, v in pairs:
            if u >= v:
                _reject('edge ({},{}) does not go upward: not explicitly acyclic'.format(u, v))
    return ('digraph', n, frozenset(pairs))


def canon(gtype, n, pairs):
    """like make_graph but for data known to be legal (raises AssertionError otherwise)"""
    try:
        return make_graph(gtype, n, pairs)
    except _Verdict as v:
        raise AssertionError(v.why)


def describe(g):
    if g is None:
        return 'None'
    if g[0] == 'bipartite':
        return 'bipartite L={} R={} edges={}'.format(g[1], g[2], sorted(g[3]))
    return '{} n={} edges={}'.format(g[0], g[1], sorted(g[2]))


# ------------------------------------------------------------------------------------------
#  kthlist      (www/KTHlistFormat.txt, www/graphformats.org)
# ------------------------------------------------------------------------------------------
@_verdict
def read_kthlist(text, gtype):
    """empty lines ignored; lines starting with 'c'/'C' are comments; first other line is <nvert>;
    then '<v> : <n1> ... <nk> 0' (a list may continue on following lines until the 0).
    directed: the listed vertices are predecessors of v; simple: an edge is present when it appears
    in either list; bipartite: only left vertices have lists, the left side is 1..(largest listed
    vertex), unlisted vertices are on the right, right vertex j is numbered j-L."""
    size = None
    rows = []
    cur = None
    for line in text.split('\n'):
        if line.endswith('\r'):
            _unclear('carriage return')
        if line.strip() == '':
            continue
        if line[0] in 'cC':
            continue
        if size is None:
            if ':' in line:
                _reject('adjacency list before the number of vertices')
            toks = line.split()
            if len(toks) != 1:
                _reject('number of vertices expected')
            size = _int(toks[0], 'number of vertices')
            if size < 0:
                _reject('negative number of vertices')
            continue
        if ':' in line:
            if cur is not None:
                _reject('a list starts before the previous one is closed by 0')
            if line.count(':') != 1:
                _reject('two colons in a line')
            left, right = line.split(':')
            lt = left.split()
            if len(lt) != 1:
                _reject('one vertex expected before the colon')
            cur = (_int(lt[0], 'vertex'), [])
            toks = right.split()
        else:
            if cur is None:
                _reject('line without colon outside a list (second size line?)')
            toks = line.split()
        for i, t in enumerate(toks):
            v = _int(t, 'neighbour')
            if v == 0:
                if i != len(toks) - 1:
                    _reject('tokens after the closing 0')
                rows.append(cur)
                cur = None
            else:
                if cur is None:
                    _reject('tokens after the closing 0')
                cur[1].append(v)
    if size is None:
        _reject('no number of vertices')
    if cur is not None:
        _reject('last list is not closed by 0')
    for left, nb in rows:
        for x in [left] + nb:
            if not 1 <= x <= size:
                _reject('vertex {} outside 1..{}'.format(x, size))
    if gtype == 'bipartite':
        L = max([left for left, _ in rows] + [0])
        pairs = []
        for left, nb in rows:
            for v in nb:
                if v <= L:
                    _reject('edge ({},{}) inside the left side 1..{}'.format(left, v, L))
                pairs.append((left, v - L))
        return make_graph('bipartite', (L, size - L), pairs)
    return make_graph(gtype, size, [(p, left) for left, nb in rows for p in nb])


def write_kthlist(g, style=0):
    """a documented-format text for canonical graph g. style bits:
    1 no comment header, 2 blank lines between rows, 4 omit rows of vertices without listed
    neighbours (not for bipartite), 8 simple graphs: list each edge only at its larger endpoint,
    16 'v: ...' instead of 'v : ...', 32 no trailing newline"""
    out = []
    if not style & 1:
        out.append('c written by the independent writer')
        out.append('c')
    if g[0] == 'bipartite':
        _, L, R, E = g
        out.append(str(L + R))
        lists = {u: sorted(v + L for (a, v) in E if a == u) for u in range(1, L + 1)}
        omit = False
    else:
        _, n, E = g
        out.append(str(n))
        lists = {v: [] for v in range(1, n + 1)}
        for (u, v) in E:
            lists[v].append(u)
            if g[0] == 'simple' and not style & 8:
                lists[u].append(v)
        omit = bool(style & 4)
    sep = ': ' if style & 16 else ' : '
    for v in sorted(lists):
        if omit and not lists[v]:
            continue
        if style & 2:
            out.append('')
        out.append(str(v) + sep + ''.join(str(x) + ' ' for x in sorted(lists[v])) + '0')
    return '\n'.join(out) + ('' if style & 32 else '\n')


# ------------------------------------------------------------------------------------------
#  DIMACS edge format
# ------------------------------------------------------------------------------------------
@_verdict
def read_dimacs(text, gtype):
    """'c ...' comments, one 'p edge N M' line, M lines 'e U V' (U -> V for directed graphs)"""
    n = m = None
    ptoks = None
    elines = []
    for raw in text.split('\n'):
        line = raw.strip()
        if not line:
            continue
        toks = line.split()
        if toks[0] == 'c':
            continue
        if toks[0] == 'p':
            if ptoks is not None:
                if toks == ptoks:
                    _unclear('problem line repeated')
                _reject('second, different problem line')
            if len(toks) != 4:
                _reject('problem line must be "p edge N M"')
            if toks[1] != 'edge':
                _unclear('problem line with format {!r}'.format(toks[1]))
            n = _int(toks[2], 'number of vertices')
            m = _int(toks[3], 'number of edges')
            if n < 0 or m < 0:
                _reject('negative count in the problem line')
            ptoks = toks
            continue
        if toks[0] == 'e':
            if ptoks is None:
                _reject('edge line before the problem line')
            if len(toks) != 3:
                _reject('edge line must be "e U V"')
            elines.append((_int(toks[1], 'vertex'), _int(toks[2], 'vertex')))
            continue
        _unclear('line of unknown kind {!r}'.format(toks[0]))
    if ptoks is None:
        _reject('no problem line')
    g = make_graph(gtype, n, elines)
    if m != len(elines) and m != len(g[2]):
        _reject('{} edges announced, {} edge lines'.format(m, len(elines)))
    return g


def write_dimacs(g, style=0):
    """style bits: 1 no comment, 2 blank-free comment lines between edges, 4 edges in reverse
    order, 8 simple graphs: endpoints swapped, 16 leading/trailing blanks on lines"""
    _, n, E = g
    out = []
    if not style & 1:
        out.append('c written by the independent writer')
    out.append('p edge {} {}'.format(n, len(E)))
    es = sorted(E, reverse=bool(style & 4))
    for (u, v) in es:
        if g[0] == 'simple' and style & 8:
            u, v = v, u
        if style & 2:
            out.append('c next edge')
        out.append('e {} {}'.format(u, v))
    if style & 16:
        out = ['  ' + l + ' ' for l in out]
    return '\n'.join(out) + '\n'


# ------------------------------------------------------------------------------------------
#  matrix
# ------------------------------------------------------------------------------------------
@_verdict
def read_matrix(text, gtype='bipartite'):
    """two numbers r and c, then r*c whitespace separated entries 0/1 (row major).
    Lines whose first non-blank character is '#' are comments (feature of the implementation
    that is not in the user documentation; assumed)."""
    toks = []
    for line in text.split('\n'):
        s = line.split()
        if not s or s[0][0] == '#':
            continue
        toks.extend(s)
    if len(toks) < 2:
        _reject('matrix dimensions missing')
    r = _int(toks[0], 'rows')
    c = _int(toks[1], 'columns')
    if r < 0 or c < 0:
        _reject('negative dimension')
    entries = [_int(t, 'entry') for t in toks[2:2 + r * c]]
    if len(entries) < r * c:
        _reject('matrix ends early')
    if any(e not in (0, 1) for e in entries):
        _reject('entry different from 0 and 1')
    if len(toks) > 2 + r * c:
        for t in toks[2 + r * c:]:
            _int(t, 'entry')
        _reject('more than r*c entries')
    pairs = [(i + 1, j + 1) for i in range(r) for j in range(c) if entries[i * c + j] == 1]
    return make_graph('bipartite', (r, c), pairs)


def write_matrix(g, style=0):
    """style: 0 one row per line, 1 everything on one line, 2 one entry per line,
    3 rows with blank lines and '#' comments between them"""
    _, L, R, E = g
    rows = [[('1' if (i, j) in E else '0') for j in range(1, R + 1)] for i in range(1, L + 1)]
    if style == 1:
        return ' '.join([str(L), str(R)] + [x for r in rows for x in r]) + '\n'
    if style == 2:
        return '\n'.join([str(L), str(R)] + [x for r in rows for x in r]) + '\n'
    out = ['{} {}'.format(L, R)]
    for r in rows:
        if style == 3:
            out.append('')
            out.append('# next row')
        out.append(' '.join(r))
    return '\n'.join(out) + '\n'


# ------------------------------------------------------------------------------------------
#  GML (the subset: graph [ directed b  node [ id i label s bipartite b ]  edge [ source i target j ] ])
# ------------------------------------------------------------------------------------------
_GML_TOK = re.compile(r'\s*(\[|\]|"[^"]*"|[^\s\[\]"]+)')


def _gml_tree(text):
    pos = 0
    toks = []
    text = text.rstrip()
    while pos < len(text):
        mt = _GML_TOK.match(text, pos)
        if not mt:
            _unclear('GML: cannot tokenise')
        toks.append(mt.group(1))
        pos = mt.end()
    i = 0

    def items(depth):
        nonlocal i
        out = []
        while i < len(toks):
            if toks[i] == ']':
                if depth == 0:
                    _unclear('GML: unbalanced ]')
                i += 1
                return out
            key = toks[i]
            if key == '[' or not re.match(r'[A-Za-z][A-Za-z0-9_]*\Z', key):
                _unclear('GML: key expected, got {!r}'.format(key))
            i += 1
            if i >= len(toks):
                _unclear('GML: value missing')
            val = toks[i]
            i += 1
            if val == '[':
                val = items(depth + 1)
            elif val == ']':
                _unclear('GML: value missing')
            out.append((key, val))
        if depth:
            _unclear('GML: unbalanced [')
        return out
    return items(0)


def _gml_int(v):
    if isinstance(v, list) or not _PLAIN_INT.match(v):
        _unclear('GML: integer expected, got {!r}'.format(v))
    return int(v)


@_verdict
def read_gml(text, gtype):
    """vertices are numbered 1..n in increasing order of their integer ids; bipartite graphs are
    given by the node attribute bipartite 0/1 (www/graphformats.org, BipartiteGraph.from_networkx);
    each side is numbered separately in that order"""
    tree = _gml_tree(text)
    if len(tree) != 1 or tree[0][0] != 'graph' or not isinstance(tree[0][1], list):
        _unclear('GML: exactly one graph [...] expected')
    directed = 0
    nodes = []
    edges = []
    for key, val in tree[0][1]:
        if key == 'directed':
            directed = _gml_int(val)
            if directed not in (0, 1):
                _unclear('GML: directed flag')
        elif key in ('name', 'label'):
            if isinstance(val, list):
                _unclear('GML: list valued name')
        elif key == 'node':
            if not isinstance(val, list):
                _unclear('GML: node must be a list')
            d = {}
            for k, v in val:
                if k in d or k not in ('id', 'label', 'bipartite'):
                    _unclear('GML: node attribute {!r}'.format(k))
                d[k] = v
            if 'id' not in d:
                _unclear('GML: node without id')
            nodes.append((_gml_int(d['id']), d.get('bipartite')))
        elif key == 'edge':
            if not isinstance(val, list):
                _unclear('GML: edge must be a list')
            d = {}
            for k, v in val:
                if k in d or k not in ('source', 'target'):
                    _unclear('GML: edge attribute {!r}'.format(k))
                d[k] = v
            if len(d) != 2:
                _unclear('GML: edge without source/target')
            edges.append((_gml_int(d['source']), _gml_int(d['target'])))
        else:
            _unclear('GML: graph attribute {!r}'.format(key))
    ids = [i for i, _ in nodes]
    if len(set(ids)) != len(ids):
        _unclear('GML: repeated node id')
    for u, v in edges:
        if u not in ids or v not in ids:
            _unclear('GML: edge endpoint is not a node')
    if gtype == 'bipartite':
        if directed:
            _unclear('GML: directed graph read as bipartite')
        side = {}
        for i, b in nodes:
            if b is None or isinstance(b, list) or b.strip('"') not in ('0', '1'):
                _reject("GML: node {} lacks the 'bipartite' attribute set to 0 or 1".format(i))
            side[i] = int(b.strip('"'))
        # BipartiteGraph.normalize: each side is numbered 1..n / 1..m and "if the vertices in the
        # original graph have some kind of order, the order is preserved": settled exactly when,
        # inside each side, the order of declaration is also the order of the ids
        left = [i for i in ids if side[i] == 0]
        right = [i for i in ids if side[i] == 1]
        pairs = []
        for u, v in edges:
            if side[u] == side[v]:
                _reject('GML: edge ({},{}) inside one side'.format(u, v))
            if side[u] == 1:
                u, v = v, u
            pairs.append((left.index(u) + 1, right.index(v) + 1))
        g = make_graph('bipartite', (len(left), len(right)), pairs)
        if left != sorted(left) or right != sorted(right):
            raise _Verdict('graph~', g)
        return g
    if bool(directed) != (gtype != 'simple'):
        _unclear('GML: directed flag does not match the graph type')
    order = sorted(ids)
    idx = {v: k + 1 for k, v in enumerate(order)}
    return make_graph(gtype, len(ids), [(idx[u], idx[v]) for u, v in edges])


def write_gml(g, style=0):
    """style bits: 1 ids start from 5 with gaps, 2 no label"""
    out = ['graph [']
    if g[0] == 'digraph':
        out.append('  directed 1')
    if g[0] == 'bipartite':
        _, L, R, E = g
        n = L + R
        pairs = [(u, v + L) for (u, v) in E]
    else:
        _, n, E = g
        pairs = list(E)
    ident = (lambda v: 3 * v + 2) if style & 1 else (lambda v: v - 1)
    for v in range(1, n + 1):
        out.append('  node [')
        out.append('    id {}'.format(ident(v)))
        if not style & 2:
            out.append('    label "{}"'.format(v))
        if g[0] == 'bipartite':
            out.append('    bipartite {}'.format(0 if v <= L else 1))
        out.append('  ]')
    for (u, v) in sorted(pairs):
        out += ['  edge [', '    source {}'.format(ident(u)), '    target {}'.format(ident(v)), '  ]']
    out.append(']')
    return '\n'.join(out) + '\n'


# ------------------------------------------------------------------------------------------
#  DOT (the subset: [strict] graph|digraph [name] { v [bipartite=b]; u -- v -- w; u -> v; })
# ------------------------------------------------------------------------------------------
_DOT_TOK = re.compile(r'\s*(--|->|[{}\[\];=,]|"[^"]*"|[A-Za-z0-9_.]+)')
_DOT_KEYWORDS = {'node', 'edge', 'graph', 'digraph', 'subgraph', 'strict'}


@_verdict
def read_dot(text, gtype):
    """Only texts whose vertex names are exactly the numerals 1..n are given a meaning (vertex i is
    the one named i; docs/graphs.rst example 'graph X { 1 -- 2 -- 3 }'); bipartite graphs carry the
    node attribute bipartite=0/1 and each side is numbered separately in increasing order."""
    pos = 0
    toks = []
    text = text.rstrip()
    while pos < len(text):
        mt = _DOT_TOK.match(text, pos)
        if not mt:
            _unclear('DOT: cannot tokenise')
        toks.append(mt.group(1))
        pos = mt.end()
    i = 0

    def peek():
        return toks[i] if i < len(toks) else None
    strict = False
    if peek() is not None and peek().lower() == 'strict':
        strict = True
        i += 1
    if peek() is None or peek().lower() not in ('graph', 'digraph'):
        _unclear('DOT: graph or digraph expected')
    directed = peek().lower() == 'digraph'
    i += 1
    if peek() is not None and peek() != '{':
        if peek() in ('}', '[', ']', ';', '=', ',', '--', '->'):
            _unclear('DOT: graph name expected')
        i += 1
    if peek() != '{':
        _unclear('DOT: { expected')
    i += 1
    order = []
    stmt_order = []
    attrs = {}
    edges = []

    def node_id():
        nonlocal i
        t = peek()
        if t is None or not re.match(r'[A-Za-z0-9_.]+\Z', t) or t.lower() in _DOT_KEYWORDS:
            _unclear('DOT: plain vertex name expected, got {!r}'.format(t))
        i += 1
        return t

    def attr_list():
        nonlocal i
        d = {}
        i += 1
        while peek() != ']':
            k = peek()
            if k is None or not re.match(r'[A-Za-z0-9_.]+\Z', k):
                _unclear('DOT: attribute name expected')
            i += 1
            if peek() != '=':
                _unclear('DOT: = expected')
            i += 1
            v = peek()
            if v is None or v in ('[', ']', '{', '}', ';', '=', ',', '--', '->'):
                _unclear('DOT: attribute value expected')
            i += 1
            if k in d:
                _unclear('DOT: attribute repeated')
            d[k] = v
            if peek() in (',', ';'):
                i += 1
        i += 1
        return d
    while True:
        t = peek()
        if t is None:
            _unclear('DOT: } missing')
        if t == '}':
            i += 1
            break
        if t == ';':
            i += 1
            continue
        chain = [node_id()]
        while peek() in ('--', '->'):
            if (peek() == '->') != directed:
                _unclear('DOT: edge operator does not match graph/digraph')
            i += 1
            chain.append(node_id())
        a = attr_list() if peek() == '[' else {}
        if peek() == '=':
            _unclear('DOT: graph attribute assignment')
        for v in chain:
            if v not in order:
                order.append(v)
        if len(chain) == 1:
            if chain[0] not in stmt_order:
                stmt_order.append(chain[0])
            for k, v in a.items():
                if k in attrs.setdefault(chain[0], {}):
                    _unclear('DOT: vertex attribute set twice')
                attrs[chain[0]][k] = v
        else:
            edges.extend(zip(chain, chain[1:]))
    if i != len(toks):
        _unclear('DOT: text after the closing }')
    n = len(order)
    if not strict and len(set(edges)) != len(edges):
        _unclear('DOT: repeated edge in a non strict graph')
    if gtype == 'bipartite':
        if directed:
            _unclear('DOT: digraph read as bipartite')
        for k in order:
            if not re.match(r'(0|[1-9][0-9]*)\Z', k):
                _unclear('DOT: vertex name {!r} is not a numeral'.format(k))
        side = {}
        for k in order:
            b = attrs.get(k, {}).get('bipartite')
            if b is None or b.strip('"') not in ('0', '1'):
                _reject("DOT: vertex {} lacks the 'bipartite' attribute set to 0 or 1".format(k))
            side[k] = int(b.strip('"'))
        # every vertex has a statement of its own here; each side is numbered in the order of the
        # vertices, which is settled when declaration order = order by value = order as text
        left = [k for k in stmt_order if side[k] == 0]
        right = [k for k in stmt_order if side[k] == 1]
        pairs = []
        for u, v in edges:
            if side[u] == side[v]:
                _reject('DOT: edge ({},{}) inside one side'.format(u, v))
            if side[u] == 1:
                u, v = v, u
            pairs.append((left.index(u) + 1, right.index(v) + 1))
        g = make_graph('bipartite', (len(left), len(right)), pairs)
        for part in (left, right):
            if part != sorted(part, key=int) or part != sorted(part):
                raise _Verdict('graph~', g)
        if order != stmt_order:
            raise _Verdict('graph~', g)
        return g
    if sorted(order) != sorted(str(k) for k in range(1, n + 1)):
        _unclear('DOT: vertex names are not exactly 1..n')
    if directed != (gtype != 'simple'):
        _unclear('DOT: graph/digraph does not match the graph type')
    return make_graph(gtype, n, [(int(u), int(v)) for u, v in edges])


def write_dot(g, style=0):
    """style bits: 1 not strict, 2 no separate vertex statements for non isolated vertices
    (not bipartite), 4 everything on one line"""
    head = '' if style & 1 else 'strict '
    if g[0] == 'bipartite':
        _, L, R, E = g
        out = [head + 'graph G {']
        for v in range(1, L + R + 1):
            out.append('{} [bipartite={}];'.format(v, 0 if v <= L else 1))
        for (u, v) in sorted(E):
            out.append('{} -- {};'.format(u, v + L))
    else:
        _, n, E = g
        d = g[0] == 'digraph'
        out = [head + ('digraph' if d else 'graph') + ' G {']
        touched = {x for e in E for x in e}
        for v in range(1, n + 1):
            if style & 2 and v in touched:
                continue
            out.append('{};'.format(v))
        for (u, v) in sorted(E):
            out.append('{} {} {};'.format(u, '->' if d else '--', v))
    out.append('}')
    return (' ' if style & 4 else '\n').join(out) + '\n'


def bipartite_layout_text(fmt, g, decl, ident, flip):
    """gml / dot text of the bipartite canonical graph g with a chosen layout.
    decl : the vertices ('L', i) / ('R', j) in the order in which they are declared
    ident: dict vertex -> integer id (gml id / dot name)
    flip : set of edges (u, v) of g that are written as (right, left)"""
    _, L, R, E = g
    assert sorted(decl) == sorted([('L', i) for i in range(1, L + 1)] + [('R', j) for j in range(1, R + 1)])
    es = []
    for (u, v) in sorted(E):
        a, b = ident[('L', u)], ident[('R', v)]
        es.append((b, a) if (u, v) in flip else (a, b))
    if fmt == 'gml':
        out = ['graph [']
        for x in decl:
            out += ['  node [', '    id {}'.format(ident[x]), '    label "{}{}"'.format(x[0], x[1]),
                    '    bipartite {}'.format(0 if x[0] == 'L' else 1), '  ]']
        for a, b in es:
            out += ['  edge [', '    source {}'.format(a), '    target {}'.format(b), '  ]']
        out.append(']')
        return '\n'.join(out) + '\n'
    if fmt == 'dot':
        out = ['strict graph G {']
        for x in decl:
            out.append('{} [bipartite={}];'.format(ident[x], 0 if x[0] == 'L' else 1))
        for a, b in es:
            out.append('{} -- {};'.format(a, b))
        out.append('}')
        return '\n'.join(out) + '\n'
    raise ValueError(fmt)


def side_isomorphic(g, h):
    """are two canonical bipartite graphs equal up to a renumbering inside each side?"""
    import itertools
    if g[0] != 'bipartite' or h[0] != 'bipartite' or g[1:3] != h[1:3] or len(g[3]) != len(h[3]):
        return False
    L, R = g[1], g[2]
    if L > 6 or R > 6:
        return None
    for pl in itertools.permutations(range(1, L + 1)):
        for pr in itertools.permutations(range(1, R + 1)):
            if frozenset((pl[u - 1], pr[v - 1]) for u, v in g[3]) == h[3]:
                return True
    return False


READERS = {'kthlist': read_kthlist, 'dimacs': read_dimacs, 'matrix': read_matrix,
           'gml': read_gml, 'dot': read_dot}
WRITERS = {'kthlist': write_kthlist, 'dimacs': write_dimacs, 'matrix': write_matrix,
           'gml': write_gml, 'dot': write_dot}


def read(fmt, text, gtype):
    return READERS[fmt](text, gtype)
