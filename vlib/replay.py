"""replay files: {'replay': {'fn': 'module:function', 'args': {...}}}; function returns True iff the property holds"""
import importlib


def generic_replay(data):
    r = data.get('replay') or {}
    if 'fn' not in r:
        print('replay file carries no executable input (obligation-level violation):')
        print(data.get('what'))
        return False
    mod, fn = r['fn'].split(':')
    f = getattr(importlib.import_module(mod), fn)
    ok = f(**r.get('args', {}))
    print('replayed {}({}) -> {}'.format(r['fn'], r.get('args'), 'holds' if ok else 'VIOLATED'))
    return bool(ok)
