"""Common runtime of every check: context, violations, known findings, replay files, evidence.

Exit codes (DESIGN 2.6): 0 held / 1 violation (VIOLATION line printed) / 3 checker crash.
"""
import fnmatch
import hashlib
import json
import os
import sys
import time
import traceback

VERIF = os.path.dirname(os.path.dirname(os.path.abspath(__file__)))
REPO = os.environ.get('VERIF_REPO', '/repo')
KNOWN = os.path.join(VERIF, 'KNOWN_FINDINGS.txt')


def load_known():
    """lines:  finding: property=<id> key=<glob> <what fails>
               fixed: property=<id> <commit> <what failed>     (suppresses nothing)"""
    out = []
    if not os.path.exists(KNOWN):
        return out
    for line in open(KNOWN):
        line = line.strip()
        if not line.startswith('finding:'):
            continue
        parts = line[len('finding:'):].split(None, 2)
        d = {'property': parts[0].split('=', 1)[1], 'key': parts[1].split('=', 1)[1],
             'what': parts[2] if len(parts) > 2 else ''}
        out.append(d)
    return out


class Ctx:
    def __init__(self, prop, tier='quick', seed=0, level='exploration'):
        self.prop = prop
        self.tier = tier
        self.seed = seed
        self.level = level
        self.t0 = time.time()
        self.violations = []        # dicts: key, what, replay(dict), kind
        self.known_hit = []
        self.evaluations = 0
        self._distinct = set()
        self.samples = []
        self.rules = []
        self.bounds = {}
        self.assumptions = []
        self.proof = {'functions': [], 'obligations': 0, 'discharged': 0, 'by_backend': {},
                      'solver_s': 0.0, 'lean_files': [], 'lean_s': 0.0, 'undecided': [],
                      'vacuity_guards': 0, 'conformance_runs': 0, 'unsupported': []}
        self.sections = {}
        self.exhaustive = None
        self.notes = []

    # ---- bounded tier bookkeeping -------------------------------------------------
    def case(self, key, nontrivial=True, n=1):
        """count one evaluated case; key identifies distinct cases"""
        self.evaluations += n
        if nontrivial:
            if not isinstance(key, (str, bytes)):
                key = repr(key)
            self._distinct.add(hashlib.blake2b(key.encode() if isinstance(key, str) else key,
                                               digest_size=8).digest())

    def sample(self, s, limit=12):
        if len(self.samples) < limit:
            self.samples.append(s)

    def rule(self, text):
        if text not in self.rules:
            self.rules.append(text)

    def assume(self, text):
        if text not in self.assumptions:
            self.assumptions.append(text)

    def section(self, name, **kw):
        self.sections.setdefault(name, {}).update(kw)

    # ---- violations -------------------------------------------------------------
    def violation(self, key, what, replay=None, kind='bounded'):
        for v in self.violations:
            if v['key'] == key:
                v['count'] = v.get('count', 1) + 1
                return
        self.violations.append({'key': key, 'what': what, 'replay': replay or {}, 'kind': kind})

    # ---- finish -----------------------------------------------------------------
    def finish(self):
        known = [k for k in load_known() if k['property'] == self.prop]
        real = []
        for v in self.violations:
            hit = None
            for k in known:
                if fnmatch.fnmatchcase(v['key'], k['key']):
                    hit = k
                    break
            if hit:
                if hit not in self.known_hit:
                    self.known_hit.append(hit)
            else:
                real.append(v)
        for k in self.known_hit:
            print('KNOWN-FINDING: property={} {}'.format(self.prop, k['what']))
        rc = 0
        rdir = os.path.join(os.environ.get('VERIF_EVIDENCE_DIR') or VERIF, 'replay') if os.environ.get('VERIF_EVIDENCE_DIR') else os.path.join(VERIF, 'replay')
        os.makedirs(rdir, exist_ok=True)
        for v in real:
            safe = ''.join(c if c.isalnum() or c in '-_.' else '_' for c in v['key'])[:80]
            path = os.path.join(rdir, '{}_{}.json'.format(self.prop, safe))
            with open(path, 'w') as f:
                json.dump({'property': self.prop, 'key': v['key'], 'what': v['what'], 'kind': v['kind'],
                           'replay': v['replay'], 'repo': REPO}, f, indent=1, default=repr)
            tail = ' no-failing-input-found' if v['kind'] == 'obligation-no-input' else ''
            print('VIOLATION property={} replay={}{}'.format(self.prop, path, tail))
            print('  key={} :: {}'.format(v['key'], v['what'][:400]))
            rc = 1
        self.write_evidence(len(real))
        return rc

    def write_evidence(self, nviol):
        p = self.proof
        cov = {
            'evaluations': self.evaluations,
            'distinct_nontrivial': len(self._distinct),
            'rule': ' | '.join(self.rules) or 'n/a',
            'samples': self.samples or ['(no bounded cases in this run)'],
            'bounds': self.bounds,
            'obligations': p['obligations'],
            'discharged': p['discharged'],
            'discharged_by_backend': p['by_backend'],
            'solver_s': round(p['solver_s'], 3),
            'lean_files': p['lean_files'],
            'lean_s': round(p['lean_s'], 2),
            'functions_under_contract': p['functions'],
            'undecided_obligations': p['undecided'],
            'unsupported_functions': p['unsupported'],
            'vacuity_guards': p['vacuity_guards'],
            'encoding_conformance_runs': p['conformance_runs'],
            'checker_cmd': 'bin/check {} --tier {}'.format(self.prop, self.tier),
            'trusted_base': self.assumptions,
            'explanation': ' '.join(self.notes) or 'see DESIGN.md section 4 ' + self.prop,
            'known_findings_hit': [k['key'] for k in self.known_hit],
            'sections': self.sections,
        }
        if self.exhaustive is not None:
            cov['exhaustive'] = self.exhaustive
        ev = {'property_id': self.prop, 'tier': self.tier, 'seed': self.seed, 'level': self.level,
              'coverage': cov, 'assumptions': self.assumptions,
              'wall_s': round(time.time() - self.t0, 2), 'violations': nviol}
        evdir = os.environ.get('VERIF_EVIDENCE_DIR') or os.path.join(VERIF, 'evidence')
        os.makedirs(evdir, exist_ok=True)
        path = os.path.join(evdir, self.prop + '.json')
        with open(path, 'w') as f:
            json.dump(ev, f, indent=1, default=repr)
        return path


def import_repo():
    """import cnfgen from $VERIF_REPO (never from an installed copy)"""
    if REPO not in sys.path:
        sys.path.insert(0, REPO)
    sys.dont_write_bytecode = True
    import cnfgen  # noqa
    assert os.path.abspath(cnfgen.__file__).startswith(os.path.abspath(REPO)), cnfgen.__file__
    return cnfgen
