"""Command line layer shared by C07 / C17 / C18: process runner, in-process `main()` runner,
strict readers of the three output formats (independent of cnfgen), outcome classification,
file fixtures and the argv grammar.

Nothing at module level imports cnfgen; in-process helpers import it through core.import_repo().
"""
import contextlib
import io
import itertools
import os
import random
import re
import signal
import subprocess
import sys
import tempfile
import traceback
import zlib
from concurrent.futures import ThreadPoolExecutor

from vlib import core

TOOLS = {'cnfgen': 'cnfgen.clitools.cnfgen', 'pbgen': 'cnfgen.clitools.pbgen',
         'cnfshuffle': 'cnfgen.clitools.cnfshuffle', 'kthlist2pebbling': 'cnfgen.clitools.kthlist2pebbling'}
MARK = {'dimacs': 'c ', 'opb': '* ', 'latex': '% '}
DEFAULT_FMT = {'cnfgen': 'dimacs', 'pbgen': 'opb', 'cnfshuffle': 'dimacs', 'kthlist2pebbling': 'dimacs'}
HELP_OPTS = {'-h', '--help', '-V', '--version', '--tutorial', '--help-graph', '--help-bipartite', '--help-dag'}
PY = sys.executable if 'venv312' in sys.executable else os.path.join(core.VERIF, '.venv312', 'bin', 'python')
NPROC = max(2, min(14, (os.cpu_count() or 4) - 2))


# ----------------------------------------------------------------------------------------
# fresh processes
# ----------------------------------------------------------------------------------------
def _launcher(tool):
    # what the console_scripts entry point of setup.py does: `from <module> import main; main()`
    return "import sys; sys.argv[0]={!r}; from {} import main; sys.exit(main())".format(tool, TOOLS[tool])


def run_tool(tool, args, stdin=b'', hashseed='0', cwd=None, timeout=120, repo=None):
    """run one tool in a fresh interpreter; returns dict rc/out/err (bytes->str for err, out bytes)"""
    repo = repo or core.REPO
    env = {'PATH': os.environ.get('PATH', '/usr/bin:/bin'), 'HOME': os.environ.get('HOME', '/tmp'),
           'PYTHONPATH': repo, 'PYTHONDONTWRITEBYTECODE': '1', 'PYTHONWARNINGS': 'ignore',
           'LANG': 'C.UTF-8', 'LC_ALL': 'C.UTF-8'}
    if hashseed is not None:
        env['PYTHONHASHSEED'] = str(hashseed)
    cmd = [PY, '-B', '-c', _launcher(tool)] + [str(a) for a in args]
    if isinstance(stdin, str):
        stdin = stdin.encode()
    try:
        p = subprocess.run(cmd, input=stdin, stdout=subprocess.PIPE, stderr=subprocess.PIPE,
                           cwd=cwd or repo, env=env, timeout=timeout)
        return {'rc': p.returncode, 'out': p.stdout, 'err': p.stderr.decode('utf-8', 'replace'), 'timeout': False}
    except subprocess.TimeoutExpired as e:
        return {'rc': None, 'out': e.stdout or b'', 'err': (e.stderr or b'').decode('utf-8', 'replace'), 'timeout': True}


def run_many(jobs, nthreads=None):
    """jobs: list of kwargs for run_tool; returns results in order (threads; the work is in subprocesses)"""
    with ThreadPoolExecutor(max_workers=nthreads or NPROC) as ex:
        return list(ex.map(lambda kw: run_tool(**kw), jobs))


# ----------------------------------------------------------------------------------------
# in-process main(): same observable protocol as a process (rc, stdout, stderr, escaped exception)
# ----------------------------------------------------------------------------------------
class _Keep(io.StringIO):
    def close(self):      # the tools close sys.stderr on exit
        pass

    def isatty(self):
        return False


class CaseTimeout(BaseException):
    pass


def _alarm(signum, frame):
    raise CaseTimeout()


def _site(tb, repo):
    """innermost frame inside the repo: 'module.function'"""
    site = None
    for fs in traceback.extract_tb(tb):
        fn = os.path.abspath(fs.filename)
        if fn.startswith(os.path.abspath(repo) + os.sep):
            rel = os.path.relpath(fn, repo)
            mod = rel[:-3].replace(os.sep, '.')
            if mod.startswith('cnfgen.'):
                mod = mod[len('cnfgen.'):]
            site = '{}.{}'.format(mod, fs.name)
    return site or 'outside-repo'


def site_from_traceback_text(err, repo=None):
    repo = os.path.abspath(repo or core.REPO)
    site = None
    for m in re.finditer(r'File "([^"]+)", line \d+, in (\S+)', err):
        fn = os.path.abspath(m.group(1))
        if fn.startswith(repo + os.sep):
            mod = os.path.relpath(fn, repo)[:-3].replace(os.sep, '.')
            if mod.startswith('cnfgen.'):
                mod = mod[len('cnfgen.'):]
            site = '{}.{}'.format(mod, m.group(2))
    exc = 'Exception'
    lines = [l for l in err.strip().splitlines() if l and not l.startswith(' ')]
    for l in reversed(lines):
        m = re.match(r'([A-Za-z_][\w.]*)(:|$)', l)
        if m:
            exc = m.group(1).split('.')[-1]
            break
    return exc, site or 'outside-repo'


def inproc_main(tool, args, stdin='', timeout=30, seed_key=None):
    """call the tool's main() inside this process with patched argv/stdio.
    returns dict rc/out/err/exc/site/timeout with the meaning a shell would observe."""
    core.import_repo()
    import importlib
    mod = importlib.import_module(TOOLS[tool])
    from cnfgen.clitools import msg
    msg._prefix = ''                       # a fresh process starts with an empty prefix
    argv = [tool] + [str(a) for a in args]
    random.seed(zlib.crc32((seed_key or repr(argv)).encode()))
    out, err = _Keep(), _Keep()
    old = sys.argv, sys.stdin, sys.stdout, sys.stderr
    oldh = signal.getsignal(signal.SIGINT)
    res = {'rc': 0, 'exc': None, 'site': None, 'timeout': False}
    sys.argv, sys.stdin, sys.stdout, sys.stderr = argv, io.StringIO(stdin), out, err
    if timeout:
        signal.signal(signal.SIGALRM, _alarm)
        signal.setitimer(signal.ITIMER_REAL, timeout)
    try:
        try:
            mod.main()
        finally:
            if timeout:
                signal.setitimer(signal.ITIMER_REAL, 0)
    except SystemExit as e:
        c = e.code
        res['rc'] = 0 if c is None else (c & 0xFF if isinstance(c, int) else 1)
        if c is not None and not isinstance(c, int):
            err.write(str(c) + '\n')
    except CaseTimeout:
        res['timeout'] = True
        res['rc'] = None
    except BaseException as e:  # what python prints as a traceback, status 1
        res['rc'] = 1
        res['exc'] = type(e).__name__
        res['site'] = _site(e.__traceback__, core.REPO)
        err.write('Traceback (most recent call last):\n' + ''.join(traceback.format_tb(e.__traceback__)[-3:]))
        err.write('{}: {}\n'.format(type(e).__name__, e))
    finally:
        sys.argv, sys.stdin, sys.stdout, sys.stderr = old
        try:
            signal.signal(signal.SIGINT, oldh)
        except Exception:
            pass
    res['out'] = out.getvalue().encode('utf-8', 'replace')
    res['err'] = err.getvalue()
    return res


# ----------------------------------------------------------------------------------------
# strict readers (written from the format definitions, not from cnfgen's writers)
# ----------------------------------------------------------------------------------------
def strict_dimacs(text):
    """returns (ok, why, nvars, clauses).  Comment lines `c...` anywhere, exactly one `p cnf N M`
    line before any clause, clauses = integer tokens closed by 0, |literal| <= N, exactly M clauses."""
    nvars = nclauses = None
    clauses, cur = [], []
    for ln, line in enumerate(text.split('\n'), 1):
        if line == '' or line.isspace():
            continue
        if line == 'c' or line.startswith('c ') or line.startswith('c\t'):
            continue
        if line.startswith('p'):
            if nvars is not None:
                return False, 'line {}: second problem line'.format(ln), None, None
            m = re.fullmatch(r'p\s+cnf\s+(\d+)\s+(\d+)\s*', line)
            if not m:
                return False, 'line {}: bad problem line {!r}'.format(ln, line), None, None
            nvars, nclauses = int(m.group(1)), int(m.group(2))
            continue
        if nvars is None:
            return False, 'line {}: text before the problem line: {!r}'.format(ln, line[:60]), None, None
        for tok in line.split():
            if not re.fullmatch(r'-?\d+', tok):
                return False, 'line {}: token {!r}'.format(ln, tok), None, None
            v = int(tok)
            if v == 0:
                clauses.append(cur)
                cur = []
            else:
                if abs(v) > nvars:
                    return False, 'line {}: literal {} exceeds {} variables'.format(ln, v, nvars), None, None
                cur.append(v)
    if nvars is None:
        return False, 'no problem line', None, None
    if cur:
        return False, 'last clause not closed by 0', None, None
    if len(clauses) != nclauses:
        return False, 'header says {} clauses, body has {}'.format(nclauses, len(clauses)), None, None
    return True, '', nvars, clauses


_OPB_TERM = re.compile(r'([+-]?\d+)\s+(~?)x(\d+)')


def strict_opb(text):
    """returns (ok, why, nvars, constraints); constraints as [(coef, lit)..., op, value]"""
    lines = text.split('\n')
    if not lines or not re.fullmatch(r'\* #variable= (\d+) #constraint= (\d+)\s*', lines[0]):
        return False, 'first line is not the OPB size header: {!r}'.format(lines[0][:60] if lines else ''), None, None
    m = re.fullmatch(r'\* #variable= (\d+) #constraint= (\d+)\s*', lines[0])
    nvars, ncons = int(m.group(1)), int(m.group(2))
    cons = []
    for ln, line in enumerate(lines[1:], 2):
        if line == '' or line.isspace() or line.startswith('*'):
            continue
        body = line.strip()
        if body.endswith(';'):
            body = body[:-1].rstrip()
        m = re.fullmatch(r'(.*?)\s*(>=|=)\s*([+-]?\d+)', body)
        if not m:
            return False, 'line {}: not a constraint: {!r}'.format(ln, line[:60]), None, None
        lhs, op, val = m.group(1), m.group(2), int(m.group(3))
        pos, terms = 0, []
        lhs = lhs.strip()
        while pos < len(lhs):
            t = _OPB_TERM.match(lhs, pos)
            if not t:
                return False, 'line {}: bad term at {!r}'.format(ln, lhs[pos:pos + 20]), None, None
            v = int(t.group(3))
            if v < 1 or v > nvars:
                return False, 'line {}: variable x{} outside 1..{}'.format(ln, v, nvars), None, None
            terms.append((int(t.group(1)), -v if t.group(2) else v))
            pos = t.end()
            while pos < len(lhs) and lhs[pos].isspace():
                pos += 1
        cons.append(terms + [op, val])
    if len(cons) != ncons:
        return False, 'header says {} constraints, body has {}'.format(ncons, len(cons)), None, None
    return True, '', nvars, cons


def strict_latex(text):
    """a complete LaTeX document: only % comments before \\documentclass, one document environment,
    environments properly nested, braces balanced outside verbatim listings, nothing after \\end{document}"""
    lines = text.split('\n')
    i = 0
    while i < len(lines) and (lines[i].strip() == '' or lines[i].startswith('%')):
        i += 1
    if i == len(lines) or not lines[i].startswith('\\documentclass'):
        return False, 'does not start with \\documentclass (after comments)'
    stack, verbatim, depth = [], False, 0
    ended = False
    for ln in range(i, len(lines)):
        line = lines[ln]
        if ended and line.strip() and not line.startswith('%'):
            return False, 'text after \\end{document}'
        if verbatim:
            if line.startswith('\\end{lstlisting}'):
                verbatim = False
                if not stack or stack.pop() != 'lstlisting':
                    return False, 'unbalanced lstlisting'
            continue
        for m in re.finditer(r'\\(begin|end)\{([^}]*)\}', line):
            if m.group(1) == 'begin':
                stack.append(m.group(2))
                if m.group(2) == 'lstlisting':
                    verbatim = True
            else:
                if not stack or stack.pop() != m.group(2):
                    return False, 'line {}: \\end{{{}}} does not match'.format(ln + 1, m.group(2))
                if m.group(2) == 'document':
                    ended = True
        if not verbatim:
            s = re.sub(r'\\verb\|[^|]*\|', '', line)
            s = re.sub(r'\\[{}\\]', '', s)
            s = re.sub(r'(?<!\\)%.*', '', s)
            depth += s.count('{') - s.count('}')
            if depth < 0:
                return False, 'line {}: unbalanced }}'.format(ln + 1)
    if stack or not ended:
        return False, 'document environment not closed ({})'.format(stack)
    if depth != 0:
        return False, 'unbalanced braces'
    return True, ''


def accepts(fmt, text):
    if fmt == 'dimacs':
        ok, why, _, _ = strict_dimacs(text)
    elif fmt == 'opb':
        ok, why, _, _ = strict_opb(text)
    else:
        ok, why = strict_latex(text)
    return ok, why


# ----------------------------------------------------------------------------------------
# outcome classification (C18)
# ----------------------------------------------------------------------------------------
def chosen_format(tool, args):
    """the output format chosen by the global options of an argument vector; None if undeterminable"""
    if tool in ('cnfshuffle', 'kthlist2pebbling'):
        return 'dimacs'
    fmt, out = None, None
    i = 0
    bad = False
    while i < len(args):
        a = args[i]
        if a in ('-of', '--output-format'):
            if i + 1 < len(args):
                if fmt is not None:
                    bad = True
                fmt = args[i + 1]
                i += 1
            else:
                bad = True
        elif a.startswith('--output-format='):
            fmt = a.split('=', 1)[1]
        elif a in ('-l', '--latex'):
            if fmt is not None:
                bad = True
            fmt = 'latex'
        elif a in ('-o', '--output'):
            if i + 1 < len(args):
                out = args[i + 1]
                i += 1
        elif not a.startswith('-'):
            break              # the sub-command: global options end here
        i += 1
    if bad:
        return None
    if fmt is None:
        if tool == 'pbgen':
            return 'opb'
        ext = os.path.splitext(out)[-1][1:] if out else ''
        return {'tex': 'latex', 'opb': 'opb'}.get(ext, 'dimacs')
    if fmt not in ('latex', 'opb') + (('dimacs',) if tool == 'cnfgen' else ()):
        return None
    return fmt


def classify(tool, args, res, fmt='auto', outfile=None, repo=None, group=''):
    """None if the outcome is one the property allows, else (key, text).
    res: dict from run_tool / inproc_main.  outfile: path given to -o (content read by caller into res['file'])"""
    if res.get('timeout'):
        return None            # budget, reported separately
    if fmt == 'auto':
        fmt = chosen_format(tool, args)
    rc, out, err = res['rc'], res['out'], res['err']
    text = out.decode('utf-8', 'replace') if isinstance(out, bytes) else out
    if 'Traceback (most recent call last)' in err or res.get('exc'):
        if res.get('exc'):
            exc, site = res['exc'], res['site']
        else:
            exc, site = site_from_traceback_text(err, repo)
        last = err.strip().splitlines()[-1] if err.strip() else ''
        return ('crash:{}@{}'.format(exc, site), 'unhandled {} at {} (exit {}): {}'.format(exc, site, rc, last[:200]))
    if 'INTERNAL ERROR' in err:
        return ('internal-bug:' + tool, 'InternalBug reported (exit {}): {}'.format(rc, ' / '.join(err.strip().splitlines()[:4])[:200]))
    if rc is not None and rc < 0:
        return ('killed-by-signal:' + tool, 'exit status {}'.format(rc))
    if rc == 0:
        if any(a in HELP_OPTS for a in args):
            return None        # help / version / tutorial text
        body = res.get('file') if outfile else text
        if body is None:
            return ('success-without-formula:{}:{}'.format(tool, group.split(':')[0]),
                    'exit 0 but no formula was written to {} (stderr: {!r})'.format(outfile, err[:100]))
        if outfile and text.strip():
            return ('stray-stdout:' + tool, 'formula sent to a file but stdout has {!r}'.format(text[:80]))
        fmts = [fmt] if fmt else ['dimacs', 'opb', 'latex']
        whys = []
        for f in fmts:
            ok, why = accepts(f, body)
            if ok:
                return None
            whys.append(why)
        if body.strip() == '':
            return ('success-without-formula:{}:{}'.format(tool, group.split(':')[0]),
                    'exit status 0 and empty output; stderr: {!r}'.format(err[:160]))
        return ('bad-formula:{}:{}'.format(tool, fmt), 'exit 0 but the strict {} reader rejects the output: {}'.format(fmt, '; '.join(whys)))
    # error exit
    if text.strip():
        looks = any(re.match(r'(p cnf|\* #variable|\\documentclass|-?\d+( -?\d+)* 0$)', l) for l in text.split('\n'))
        if looks:
            return ('partial-formula:{}'.format(tool),
                    'exit {} with {} bytes of unshielded text on stdout: {!r}'.format(rc, len(text), text[:80]))
        # text on stdout that is no part of a formula (e.g. a message printed by pydot) is not what the property
        # forbids ("without writing a partial formula"); it is not reported
    if not err.strip():
        return ('silent-error:' + tool, 'exit {} without any message'.format(rc))
    marks = [MARK[fmt]] if fmt else list(MARK.values())
    for line in err.split('\n'):
        if line == '':
            continue
        if not any(line.startswith(m) or line == m.strip() for m in marks):
            got = 'none'
            for name, m in (('c', 'c '), ('star', '* '), ('percent', '% ')):
                if line.startswith(m):
                    got = name
            return ('error-prefix:{}:{}:got-{}'.format(tool, fmt, got),
                    'error message line {!r} is not prefixed with {!r}'.format(line[:80], marks[0]))
    return None


# ----------------------------------------------------------------------------------------
# fixtures: files used by graph / formula arguments.  Deterministic content.
# ----------------------------------------------------------------------------------------
GOOD_FILES = {
    'g.kthlist': "c simple graph\n4\n1 : 2 3 0\n2 : 3 0\n3 : 4 0\n4 : 0\n",
    'g.dimacs': "c graph\np edge 4 3\ne 1 2\ne 2 3\ne 3 4\n",
    'g.gml': 'graph [\n  node [\n    id 0\n    label "0"\n  ]\n  node [\n    id 1\n    label "1"\n  ]\n  node [\n    id 2\n    label "2"\n  ]\n  edge [\n    source 0\n    target 1\n  ]\n  edge [\n    source 1\n    target 2\n  ]\n]\n',
    'g.dot': 'graph G {\n0 -- 1;\n1 -- 2;\n2 -- 0;\n}\n',
    'b.kthlist': "c bipartite\n3\n1 : 4 5 0\n2 : 5 6 0\n3 : 4 6 0\n",
    'b.matrix': "3 4\n1 1 0 0\n0 1 1 0\n0 0 1 1\n",
    'b.dimacs': "p edge 5 4\ne 1 4\ne 1 5\ne 2 5\ne 3 4\n",
    'd.kthlist': "c dag\n4\n1 : 0\n2 : 0\n3 : 1 2 0\n4 : 3 0\n",
    'd.dimacs': "p edge 4 3\ne 1 3\ne 2 3\ne 3 4\n",
    'd.gml': 'graph [\n  directed 1\n  node [\n    id 0\n    label "0"\n  ]\n  node [\n    id 1\n    label "1"\n  ]\n  node [\n    id 2\n    label "2"\n  ]\n  edge [\n    source 0\n    target 2\n  ]\n  edge [\n    source 1\n    target 2\n  ]\n]\n',
    'f.cnf': "c formula\np cnf 3 3\n1 -2 0\n2 3 0\n-1 -3 0\n",
}

BAD_FILES = {
    'empty.kthlist': "", 'empty.dimacs': "", 'empty.matrix': "", 'empty.gml': "", 'empty.dot': "", 'empty.cnf': "",
    'nosize.kthlist': "c only a comment\n",
    'nosize2.kthlist': "1 : 2 0\n2 : 0\n",
    'neg.kthlist': "-3\n1 : 0\n",
    'short.kthlist': "3\n1 : 2 0\n",
    'noterm.kthlist': "3\n1 : 2 3\n2 : 3 0\n",
    'big.kthlist': "3\n1 : 7 0\n",
    'word.kthlist': "3\n1 : x 0\n",
    'zero.kthlist': "0\n",
    'dup.kthlist': "4\n1 : 3 0\n1 : 4 0\n",
    'cycle.kthlist': "2\n1 : 2 0\n2 : 1 0\n",
    'selfloop.kthlist': "2\n1 : 1 0\n2 : 0\n",
    'nocolon.kthlist': "2\n1 2 0\n2 0\n",
    'unsorted.kthlist': "3\n3 : 0\n1 : 3 0\n2 : 0\n",
    'blank.dimacs': "p edge 2 1\n\ne 1 2\n",
    'nop.dimacs': "e 1 2\n",
    'twop.dimacs': "p edge 2 1\np edge 2 1\ne 1 2\n",
    'count.dimacs': "p edge 3 5\ne 1 2\n",
    'range.dimacs': "p edge 2 1\ne 1 9\n",
    'word.dimacs': "p edge 2 1\ne a b\n",
    'shortp.dimacs': "p edge 2\ne 1 2\n",
    'shorte.dimacs': "p edge 2 1\ne 1\n",
    'loop.dimacs': "p edge 2 1\ne 1 1\n",
    'neg.dimacs': "p edge -2 1\ne 1 2\n",
    'zero.dimacs': "p edge 0 0\n",
    'junk.dimacs': "p edge 2 1\nz 1 2\n",
    'ragged.matrix': "2 3\n1 0\n0 1 1\n",
    'nohead.matrix': "1 0\n0 1\n",
    'two.matrix': "2 2\n1 2\n0 1\n",
    'word.matrix': "2 2\n1 x\n0 1\n",
    'short.matrix': "3 2\n1 1\n",
    'long.matrix': "1 2\n1 1\n1 1\n",
    'neg.matrix': "-1 2\n",
    'zero.matrix': "0 0\n",
    'onenum.matrix': "2\n1 1\n",
    'bad.gml': "graph [\n node [ id 0\n",
    'bad.dot': "graph G {\n0 -- \n",
    'digraph.dot': 'digraph G {\n0 -> 1;\n}\n',
    'directed.gml': GOOD_FILES['d.gml'],
    'nop.cnf': "1 2 0\n",
    'count.cnf': "p cnf 2 5\n1 2 0\n",
    'range.cnf': "p cnf 2 1\n1 7 0\n",
    'noterm.cnf': "p cnf 2 1\n1 2\n",
    'word.cnf': "p cnf 2 1\n1 x 0\n",
    'shortp.cnf': "p cnf 2\n1 2 0\n",
    'negp.cnf': "p cnf -2 1\n1 2 0\n",
    'twop.cnf': "p cnf 2 1\np cnf 2 1\n1 2 0\n",
    'wrongp.cnf': "p dnf 2 1\n1 2 0\n",
    'onlyp.cnf': "p cnf 0 0\n",
    'pct.cnf': "p cnf 2 1\n1 2 0\n%\n0\n",
    'g.txt': GOOD_FILES['g.kthlist'],
    'noext': GOOD_FILES['g.kthlist'],
}


def make_fixtures(d):
    """write all fixtures into directory d; returns the list of names"""
    for name, content in list(GOOD_FILES.items()) + list(BAD_FILES.items()):
        with open(os.path.join(d, name), 'w') as f:
            f.write(content)
    with open(os.path.join(d, 'binary.kthlist'), 'wb') as f:
        f.write(bytes(range(256)) * 2)
    with open(os.path.join(d, 'binary.cnf'), 'wb') as f:
        f.write(b'p cnf 2 1\n\xff\xfe 1 0\n')
    with open(os.path.join(d, 'binary.matrix'), 'wb') as f:
        f.write(b'2 2\n\xff\xfe\n1 1\n')
    os.makedirs(os.path.join(d, 'dir.kthlist'), exist_ok=True)
    os.makedirs(os.path.join(d, 'dir.cnf'), exist_ok=True)
    os.makedirs(os.path.join(d, 'rodir'), exist_ok=True)
    return sorted(os.listdir(d))


def subst(args, d, out=None):
    """replace the placeholder {D} by the fixture directory ({D}/out by a private output directory)"""
    if out is None:
        out = os.path.join(d, 'out', 'p{}'.format(os.getpid()))
    os.makedirs(out, exist_ok=True)
    return [a.replace('{D}/out', out).replace('{D}', d) if isinstance(a, str) else a for a in args]


# ----------------------------------------------------------------------------------------
# the argv grammar
# ----------------------------------------------------------------------------------------
JUNK_INT = ['-1', '0', '1', '2', '3', 'x', '1.5', '1e1', '', '+2', ' 2', '2 ', '0x2', '\u0663', '--', '-x']
SIMPLE_FMT = ['kthlist', 'dimacs', 'gml', 'dot']

# one or more *valid small* instances per formula sub-command, tokens that are numbers are mutated
FORMULA_BASE = {
    'and': [['2', '1'], ['0', '0']],
    'or': [['2', '1'], ['0', '0']],
    'true': [[]],
    'false': [[]],
    'bphp': [['3', '2'], ['1', '1']],
    'php': [['2'], ['3', '2'], ['3', '3', '2'], ['--functional', '--onto', '3', '2'], ['0'], ['0', '0'],
            ['complete', '2', '2'], ['glrd', '3', '3', '2'], ['--onto', 'shift', '3', '3', '0', '1']],
    'cliquecoloring': [['4', '3', '2'], ['0', '1', '1']],
    'count': [['4', '2'], ['0', '1'], ['5', '3']],
    'parity': [['4'], ['0'], ['3']],
    'cpls': [['2', '2', '2'], ['1', '1', '1']],
    'ram': [['3', '3', '4'], ['1', '1', '0']],
    'ptn': [['6'], ['0']],
    'vdw': [['5', '2', '3'], ['4', '2', '2', '2'], ['0', '1', '1']],
    'rphp': [['2', '3', '2'], ['0', '0', '0']],
    'randkcnf': [['2', '4', '3'], ['-p', '3', '4', '2'], ['1', '1', '0']],
    'randkxor': [['2', '4', '3'], ['--plant', '3', '4', '2'], ['1', '1', '0']],
    'pitfall': [['6', '3', '2', '2', '2']],
    'op': [['3'], ['4', '3'], ['--total', '3'], ['--smart', '3'], ['--knuth2', '3'], ['--knuth3', '-p', '3'],
           ['complete', '3'], ['-t', 'gnm', '4', '3'], ['1'], ['0']],
    'tseitin': [['6'], ['4', '3'], ['first', 'complete', '3'], ['random', 'gnm', '4', '3'],
                ['randomodd', 'grid', '2', '2'], ['randomeven', 'torus', '3'], ['zero', 'empty', '2'], ['one', 'gnd', '4', '2']],
    'subsetcard': [['3'], ['4', '3'], ['-e', '3'], ['complete', '2', '2'], ['--equal', 'glrm', '3', '3', '5']],
    'kcolor': [['2', 'complete', '3'], ['3', 'gnp', '4', '.5']],
    'ec': [['torus', '3'], ['gnd', '4', '2']],
    'domset': [['1', 'complete', '3'], ['-a', '2', 'grid', '2', '2'], ['2', 'gnm', '4', '2']],
    'tiling': [['grid', '2', '2'], ['empty', '1']],
    'iso': [['complete', '3'], ['grid', '2', '2', '-e', 'torus', '4'], ['gnm', '3', '1', '-e', 'complete', '3']],
    'kclique': [['2', 'complete', '3'], ['--no-symmetry-breaking', '2', 'gnm', '4', '3'], ['0', 'empty', '2'], ['5', 'complete', '3']],
    'kcliquebin': [['2', 'complete', '3'], ['0', 'empty', '2'], ['3', 'gnm', '4', '3'], ['5', 'complete', '3']],
    'ramlb': [['2', '2', 'complete', '3'], ['0', '0', 'empty', '2'], ['3', '2', 'gnp', '4', '.5']],
    'subgraph': [['-G', 'complete', '3', '-H', 'grid', '2'], ['-G', 'empty', '2', '-H', 'complete', '3']],
    'matching': [['complete', '4'], ['gnd', '4', '3'], ['empty', '1']],
    'peb': [['pyramid', '2'], ['path', '0'], ['tree', '1'], ['{D}/d.kthlist']],
    'stone': [['2', 'pyramid', '1'], ['3', 'path', '2', '--sparse', '2'], ['1', 'tree', '1']],
    'dimacs': [['{D}/f.cnf'], []],
}

TRANSFORM_BASE = {
    'none': [[]], 'flip': [[]], 'ite': [[]], 'shuffle': [[], ['-p'], ['-v', '-c'], ['-p', '-v', '-c']],
    'or': [['2']], 'xor': [['2']], 'eq': [['2']], 'neq': [['2']], 'maj': [['3']], 'one': [['2']], 'lift': [['2']],
    'atleast': [['3', '2']], 'atmost': [['3', '1']], 'exact': [['3', '2']], 'anybut': [['3', '1']],
    'xorcomp': [['3'], ['4', '2'], ['glrd', '2', '3', '2'], ['complete', '2', '2']],
    'majcomp': [['3'], ['4', '2'], ['glrd', '2', '3', '2'], ['complete', '2', '2']],
}

GRAPH_CONS = {
    'simple': {'gnp': 2, 'gnm': 2, 'gnd': 2, 'grid': 2, 'torus': 2, 'complete': 1, 'empty': 1},
    'bipartite': {'glrp': 3, 'glrm': 3, 'glrd': 3, 'regular': 3, 'shift': 3, 'complete': 2, 'empty': 2},
    'dag': {'path': 1, 'tree': 1, 'pyramid': 1},
}
GRAPH_OPTS = {'simple': {'plantclique': 1, 'addedges': 1, 'splitedges': 1},
              'bipartite': {'plantbiclique': 2, 'addedges': 1}, 'dag': {}}
# how a graph of each type is consumed (prefix tokens, then the graph spec)
CONSUMERS = {
    'simple': [['kcolor', '2'], ['ec'], ['domset', '1'], ['tiling'], ['iso'], ['kclique', '2'], ['kcliquebin', '2'],
               ['ramlb', '2', '2'], ['matching'], ['tseitin', 'first'], ['tseitin', 'randomodd'], ['op'],
               ['domset', '-a', '2'], ['kclique', '3'], ['subgraph', '-H', 'complete', '2', '-G']],
    'bipartite': [['php'], ['php', '--functional', '--onto'], ['subsetcard'], ['subsetcard', '-e']],
    'dag': [['peb'], ['stone', '2'], ['stone', '2', '--sparse', '1']],
}
NUMPOOL = {'n': ['-1', '0', '1', '2', '3', '4'], 'g': ['-1', '0', '1', '2', '3'],
           'p': ['0', '1', '.5', '-0.1', '1.5', 'nan', '1e-1']}


def _mutations(tokens):
    """single-point mutations of a token list: replace each numeric token, delete, duplicate, append, inject option"""
    out = []
    for i, t in enumerate(tokens):
        if re.fullmatch(r'[\d.]+', t):
            for j in JUNK_INT:
                if j != t:
                    out.append(tokens[:i] + [j] + tokens[i + 1:])
        out.append(tokens[:i] + tokens[i + 1:])                  # missing argument
        out.append(tokens[:i] + ['--bogus'] + tokens[i:])        # unknown option in each position
    out.append(tokens + ['2'])
    out.append(tokens + ['x'])
    out.append(tokens + ['--bogus'])
    out.append(tokens + ['-h'])
    out.append(tokens + tokens)
    return out


def _pairs(tokens, rng, k):
    """k random two-point numeric mutations"""
    idx = [i for i, t in enumerate(tokens) if re.fullmatch(r'[\d.]+', t)]
    out = []
    if len(idx) < 2:
        return out
    for _ in range(k):
        i, j = rng.sample(idx, 2)
        t = list(tokens)
        t[i] = rng.choice(JUNK_INT[:7] + ['4', '5', '6'])
        t[j] = rng.choice(JUNK_INT[:7] + ['4', '5', '6'])
        out.append(t)
    return out


def graph_specs(gtype, thorough, rng):
    """graph specifications: every construction with 0..arity+1 numbers drawn around the legal range, options"""
    out = []
    for c, ar in GRAPH_CONS[gtype].items():
        pools = []
        for nargs in range(0, ar + 2):
            if c in ('gnp', 'glrp'):
                pos_p = 1 if c == 'gnp' else 2
                pools = [NUMPOOL['p'] if i == pos_p else NUMPOOL['n'] for i in range(nargs)]
            elif c in ('grid', 'torus'):
                pools = [NUMPOOL['g']] * nargs
            else:
                pools = [NUMPOOL['n']] * nargs
            combos = list(itertools.product(*pools))
            cap = 1300 if thorough else (70 if nargs <= ar else 16)
            if len(combos) > cap:
                combos = rng.sample(combos, cap)
            for t in combos:
                out.append([c] + list(t))
    return out


def graph_option_specs(gtype, rng, thorough):
    base = {'simple': [['gnp', '4', '.5'], ['complete', '3'], ['empty', '3'], ['grid', '2', '2'], ['gnm', '4', '2']],
            'bipartite': [['glrp', '3', '3', '.5'], ['complete', '2', '2'], ['empty', '2', '3'], ['glrd', '3', '3', '1']],
            'dag': [['pyramid', '1']]}[gtype]
    out = []
    vals = ['-1', '0', '1', '2', '3', '4', '7', '100', 'x', '1.5']
    for b in base:
        for o, ar in GRAPH_OPTS[gtype].items():
            for nargs in range(0, ar + 2):
                for t in itertools.product(vals, repeat=nargs):
                    if nargs > 1 and rng.random() < (0.5 if thorough else 0.9):
                        continue
                    out.append(b + [o] + list(t))
        # two options, repeated options, options in both orders
        os_ = list(GRAPH_OPTS[gtype])
        for o1, o2 in itertools.product(os_, repeat=2):
            a1 = ['1'] * GRAPH_OPTS[gtype][o1]
            a2 = ['2'] * GRAPH_OPTS[gtype][o2]
            out.append(b + [o1] + a1 + [o2] + a2)
        out.append(b + ['save'])
        out.append(b + ['save', 'kthlist'])
        out.append(b + ['save', '{D}/out/saved.kthlist'])
        out.append(b + ['save', 'kthlist', '{D}/out/saved2'])
        out.append(b + ['save', '{D}/out/noext'])
        out.append(b + ['save', 'bogusfmt', '{D}/out/saved3'])
        out.append(b + ['save', '{D}/nonexistent-dir/x.kthlist'])
        out.append(b + ['save', '{D}/out/a.kthlist', 'save', '{D}/out/b.kthlist'])
        out.append(b + ['save', '{D}/out/a.matrix'])
        out.append(b + ['save', '{D}/out/a.dimacs', 'addedges', '1'])
        out.append(b + ['gnp', '3', '.5'])
        out.append(b + ['bogusoption', '1'])
        out.append(b + ['-x'])
    return out


def graph_file_specs(gtype):
    out = []
    fmts = {'simple': ['kthlist', 'dimacs', 'gml', 'dot'], 'bipartite': ['kthlist', 'matrix', 'dimacs', 'gml', 'dot'],
            'dag': ['kthlist', 'dimacs', 'gml', 'dot']}[gtype]
    names = sorted(GOOD_FILES) + sorted(BAD_FILES) + ['binary.kthlist', 'binary.matrix', 'dir.kthlist', 'missing.kthlist', 'missing', '-']
    for n in names:
        if n.endswith('.cnf') and n not in ('f.cnf', 'empty.cnf'):
            continue
        p = n if n == '-' else '{D}/' + n
        out.append([p])
        ext = os.path.splitext(n)[-1][1:]
        for f in fmts:
            if n in GOOD_FILES or f == ext or n in ('-', 'noext', 'g.txt', 'missing', 'binary.kthlist', 'dir.kthlist'):
                out.append([f, p])
    for f in fmts + ['matrix', 'bogus']:
        out.append([f])
    return out


def cnfgen_vectors(tier, seed, tool='cnfgen'):
    """list of dicts {tool, args(with {D}), stdin, group}; deterministic"""
    thorough = tier == 'thorough'
    rng = random.Random(seed * 7919 + (1 if thorough else 0))
    V = []

    def add(group, args, stdin='', t=tool):
        V.append({'tool': t, 'args': list(args), 'stdin': stdin, 'group': group})

    fmts_of = [[], ['-of', 'opb'], ['-of', 'latex']] if tool == 'cnfgen' else [[], ['-of', 'latex']]
    # (1) global options alone
    for g in [[], ['-h'], ['--help'], ['-V'], ['--version'], ['--tutorial'], ['--help-graph'], ['--help-bipartite'], ['--help-dag'],
              ['-q'], ['-v'], ['-q', '-v'], ['--seed'], ['--seed', 'x'], ['--seed', '1.5'], ['-S', '3'], ['-of'], ['-of', 'bogus'],
              ['-of', 'dimacs'], ['-of', 'opb', '-l'], ['-l'], ['-o'], ['--bogus'], ['bogusformula'], ['-T'], ['-T', 'shuffle'],
              ['--varnames']]:
        add('global', g)
    for g in [['-o', '{D}/rodir/nonexistent/x.cnf', 'php', '2'], ['-o', '{D}/dir.cnf', 'php', '2'],
              ['-o', '/dev/full', 'php', '2'], ['-o', '/proc/nonexistent/x', 'php', '2']]:
        add('output-unwritable', g)
    for g in [['-o', '{D}/out/o1.cnf', 'php', '2'], ['-o', '{D}/out/o2.opb', 'php', '2'], ['-o', '{D}/out/o3.tex', 'php', '2'],
              ['-o', '{D}/out/o4.tex', '-of', 'opb', 'php', '2'], ['-o', '{D}/out/o5.opb', 'php'], ['-o', '{D}/out/o6.tex', 'php', 'x'],
              ['--output', '-', 'php', '2'], ['-o', '{D}/out/o7', '-q', 'php', '2', '-T', 'xor', '2']]:
        add('output-file', g)
    for g in [['-q'], ['-v'], ['--varnames'], ['-q', '--varnames'], ['--seed', '0'], ['--seed', '-7'], ['-S', '1099511627776'],
              ['-l'], ['--latex', '-q'], ['--output-format', 'opb'], ['--output-format=latex']]:
        for fam, rest in (('php', ['3', '2']), ('randkcnf', ['2', '4', '3']), ('and', ['1', '1']), ('false', [])):
            if tool == 'pbgen' and ('opb' in ' '.join(g)):
                pass
            add('global', g + [fam] + rest)
    # (2) every sub-command: base instances and their mutations, in every output format
    fams = sorted(FORMULA_BASE)
    for fam in fams:
        for bi, base in enumerate(FORMULA_BASE[fam]):
            stdin = GOOD_FILES['f.cnf'] if fam == 'dimacs' else ''
            for of in fmts_of:
                add('base', of + [fam] + base, stdin)
            add('base', ['-q', '--varnames', fam] + base, stdin)
            muts = _mutations(base) + _pairs(base, rng, 12 if thorough else 4)
            for mi, m in enumerate(muts):
                of = fmts_of[(mi + bi) % len(fmts_of)] if not thorough else None
                for o in ([of] if of is not None else fmts_of):
                    add('mutation', o + [fam] + m, stdin)
        add('help', [fam, '-h'])
        add('help', [fam, '--help'])
        add('mutation', [fam])
    # (3) transformations (cnfgen only): base, mutations, chains
    if tool == 'cnfgen':
        carriers = [['php', '2', '1'], ['and', '1', '1'], ['true'], ['false'], ['or', '0', '0']]
        for t in sorted(TRANSFORM_BASE):
            for bi, base in enumerate(TRANSFORM_BASE[t]):
                for ci, c in enumerate(carriers):
                    of = fmts_of[(bi + ci) % 3]
                    add('transformation', of + c + ['-T', t] + base)
                muts = _mutations(base)
                for mi, m in enumerate(muts):
                    add('transformation-mutation', fmts_of[mi % 3] + carriers[mi % 2] + ['-T', t] + m)
            add('help', ['php', '2', '-T', t, '-h'])
        ts = sorted(TRANSFORM_BASE)
        chains = list(itertools.product(ts, repeat=2))
        if not thorough:
            chains = rng.sample(chains, 80)
        for a, b in chains:
            add('chain', ['and', '1', '1', '-T', a] + TRANSFORM_BASE[a][0] + ['-T', b] + TRANSFORM_BASE[b][0])
        add('chain', ['php', '2', '1', '-T'])
        add('chain', ['php', '2', '1', '-T', '-T', 'flip'])
        add('chain', ['php', '2', '1', '-T', 'flip', '-T'])
        add('chain', ['-T', 'flip', 'php', '2', '1'])
        add('chain', ['php', '2', '1', '-T', 'xor', '2', '-T', 'xor', '2', '-T', 'xor', '2'])
        add('chain', ['php', '2', '1', '-T', 'php', '2'])
        add('chain', ['php', '2', '1', '-T', 'xorcomp', '{D}/b.matrix'])
        add('chain', ['php', '2', '1', '-T', 'majcomp', '{D}/b.kthlist'])
        add('chain', ['php', '2', '1', '-T', 'xorcomp', '{D}/missing.matrix'])
        add('chain', ['php', '2', '1', '-T', 'xorcomp', '1'])
        add('chain', ['php', '2', '1', '-T', 'xorcomp', '1', '5'])
        add('chain', ['php', '2', '1', '-T', 'majcomp', '2', '2', '2'])
    # (4) graph specifications through consumer families
    for gtype in ('simple', 'bipartite', 'dag'):
        specs = graph_specs(gtype, thorough, rng)
        cons = CONSUMERS[gtype]
        for si, s in enumerate(specs):
            picks = cons if thorough and len(specs) < 4000 else [cons[si % len(cons)], cons[(si * 7 + 3) % len(cons)]]
            for ci, c in enumerate(picks):
                add('graph:' + gtype, fmts_of[(si + ci) % len(fmts_of)] + c + s)
        for si, s in enumerate(graph_option_specs(gtype, rng, thorough)):
            c = cons[si % len(cons)]
            add('graphopt:' + gtype, fmts_of[si % len(fmts_of)] + c + s)
        for si, s in enumerate(graph_file_specs(gtype)):
            for c in (cons if thorough else [cons[si % len(cons)], cons[0]]):
                st = GOOD_FILES['g.kthlist'] if s[-1] == '-' else ''
                add('graphfile:' + gtype, c + s, st)
                if s[-1] == '-':
                    add('graphfile:' + gtype, c + s, '')
    # (5) formula files
    names = [n for n in sorted(BAD_FILES) if n.endswith('.cnf')] + ['f.cnf', 'binary.cnf', 'dir.cnf', 'missing.cnf', 'g.kthlist']
    for n in names:
        add('dimacsfile', ['dimacs', '{D}/' + n])
        if tool == 'cnfgen':
            add('dimacsfile', ['-of', 'opb', 'dimacs', '{D}/' + n, '-T', 'xor', '2'])
    for n, content in sorted(BAD_FILES.items()):
        if n.endswith('.cnf'):
            add('dimacsfile', ['dimacs'], content)
            add('dimacsfile', ['dimacs', '-'], content)
    # (6) cheap large numbers
    for a in [['randkcnf', '3', '1000000', '3'], ['randkxor', '3', '1000000', '2'], ['randkcnf', '1000000', '5', '1'],
              ['vdw', '3', '1000000', '2'], ['or', '1000', '1000'], ['and', '1000', '0'], ['php', '1000', '0'],
              ['ram', '1000000', '1000000', '3'], ['kclique', '100', 'complete', '3'], ['kcolor', '2', 'gnm', '1000', '0'],
              ['randkcnf', '2', '3', '100'], ['cliquecoloring', '0', '1000', '1'], ['stone', '2', 'path', '1', '--sparse', '1000000'],
              ['tseitin', '1000000', '1000001'], ['op', '1000000', '1000001'], ['subsetcard', '3', '1000000']]:
        add('large', a)
    return V


def small_tool_vectors(tier, seed):
    """cnfshuffle and kthlist2pebbling"""
    V = []

    def add(tool, group, args, stdin=''):
        V.append({'tool': tool, 'args': list(args), 'stdin': stdin, 'group': group})

    cnf = GOOD_FILES['f.cnf']
    for g in [[], ['-q'], ['-p'], ['-v'], ['-c'], ['-p', '-v', '-c'], ['--seed', '0'], ['--seed', 'abc'], ['-S', '5', '-q'],
              ['--no-polarity-flips'], ['--no-variables-permutation', '--no-clauses-permutation']]:
        add('cnfshuffle', 'shuffle', g, cnf)
        add('cnfshuffle', 'shuffle', g + ['-i', '{D}/f.cnf'])
    for g in [['-h'], ['--help'], ['--bogus'], ['extra'], ['-i'], ['-o'], ['-i', '{D}/missing.cnf'], ['-i', '{D}/dir.cnf'],
              ['-o', '{D}/nonexistent-dir/x.cnf'], ['--seed'], ['-i', '{D}/binary.cnf']]:
        add('cnfshuffle', 'shuffle-error', g, cnf)
    add('cnfshuffle', 'output-unwritable', ['-o', '/dev/full'], cnf)
    add('cnfshuffle', 'output-file', ['-o', '{D}/out/s1.cnf'], cnf)
    for n, content in sorted(BAD_FILES.items()):
        if n.endswith('.cnf'):
            add('cnfshuffle', 'shuffle-file', ['-i', '{D}/' + n])
            add('cnfshuffle', 'shuffle-file', [], content)
    add('cnfshuffle', 'shuffle-file', [], '')
    dag = GOOD_FILES['d.kthlist']
    ts = sorted(TRANSFORM_BASE)
    for g in [[], ['-q'], ['-i', '{D}/d.kthlist'], ['-q', '-i', '{D}/d.kthlist']]:
        add('kthlist2pebbling', 'k2p', g, dag)
    for t in ts:
        for base in TRANSFORM_BASE[t]:
            add('kthlist2pebbling', 'k2p-transformation', [t] + base, dag)
            add('kthlist2pebbling', 'k2p-transformation', ['-i', '{D}/d.kthlist', t] + base)
            for m in _mutations(base)[:12]:
                add('kthlist2pebbling', 'k2p-mutation', [t] + m, dag)
        add('kthlist2pebbling', 'help', [t, '-h'], dag)
    for g in [['-h'], ['--help'], ['--bogus'], ['bogus'], ['-i'], ['-o'], ['-i', '{D}/missing.kthlist'], ['-i', '{D}/dir.kthlist'],
              ['-o', '{D}/nonexistent-dir/x.cnf'], ['-i', '{D}/binary.kthlist'], ['-T', 'xor', '2'], ['xor', '2', '-T', 'xor', '2']]:
        add('kthlist2pebbling', 'k2p-error', g, dag)
    add('kthlist2pebbling', 'output-unwritable', ['-o', '/dev/full'], dag)
    add('kthlist2pebbling', 'output-file', ['-o', '{D}/out/k1.cnf', 'xor', '2'], dag)
    for n, content in sorted(BAD_FILES.items()) + sorted(GOOD_FILES.items()):
        if n.endswith('.kthlist'):
            add('kthlist2pebbling', 'k2p-file', ['-i', '{D}/' + n])
            add('kthlist2pebbling', 'k2p-file', [], content)
            add('kthlist2pebbling', 'k2p-file', ['xor', '2'], content)
    return V


def all_vectors(tier, seed):
    """cnfgen: the whole grammar.  pbgen shares helpers and graph arguments with cnfgen but has its own
    cli(): whole grammar in the thorough tier, every third mutation/graph vector in the quick tier."""
    V = cnfgen_vectors(tier, seed, 'cnfgen')
    P = [v for v in cnfgen_vectors(tier, seed, 'pbgen') if '-T' not in v['args']]
    if tier != 'thorough':
        P = [v for i, v in enumerate(P) if v['group'] in ('global', 'base', 'help', 'dimacsfile', 'large', 'output-unwritable', 'output-file') or i % 3 == 0]
    for a in [['php', '2', '1', '-T', 'xor', '2'], ['-T'], ['-of', 'latex', 'php', '2', '-T', 'flip'], ['-T', 'php', '2']]:
        P.append({'tool': 'pbgen', 'args': a, 'stdin': '', 'group': 'chain'})
    return V + P + small_tool_vectors(tier, seed)


# ----------------------------------------------------------------------------------------
# evaluation of one vector (used by pool workers and by replay)
# ----------------------------------------------------------------------------------------
_FIXDIR = None


def worker_init(fixdir):
    global _FIXDIR
    _FIXDIR = fixdir
    core.import_repo()


def eval_vector_inproc(v):
    """returns (index, verdict or None, timeout flag, rc)"""
    args = subst(v['args'], _FIXDIR)
    res = inproc_main(v['tool'], args, v.get('stdin', ''), timeout=v.get('timeout', 25), seed_key=repr((v['tool'], v['args'])))
    outfile = None
    for i, a in enumerate(args):
        if a in ('-o', '--output') and i + 1 < len(args):
            outfile = args[i + 1]
    if outfile and outfile != '-':
        return v['i'], 'needs-process', False, res['rc']
    bad = classify(v['tool'], v['args'], res, group=v.get('group', ''))
    return v['i'], bad, bool(res.get('timeout')), res['rc']


def eval_vector_process(v, fixdir, hashseed='0', cwd=None):
    os.makedirs(os.path.join(fixdir, 'out'), exist_ok=True)
    args = subst(v['args'], fixdir, tempfile.mkdtemp(dir=os.path.join(fixdir, 'out')))
    outfile = None
    for i, a in enumerate(args):
        if a in ('-o', '--output') and i + 1 < len(args):
            outfile = args[i + 1]
    if outfile == '-':
        outfile = None
    if outfile and os.path.isfile(outfile) and not outfile.startswith('/dev/'):
        os.unlink(outfile)
    res = run_tool(v['tool'], args, stdin=v.get('stdin', ''), hashseed=hashseed, cwd=cwd, timeout=v.get('timeout', 60))
    if outfile:
        try:
            if os.path.isfile(outfile):
                with open(outfile, encoding='utf-8', errors='replace') as f:
                    res['file'] = f.read()
            else:
                res['file'] = None
        except OSError:
            res['file'] = None
    return classify(v['tool'], v['args'], res, outfile=outfile, group=v.get('group', '')), res


def replay_vector(tool, args, stdin='', key=None):
    """fresh fixtures, fresh process; True iff the outcome is one the property allows"""
    with tempfile.TemporaryDirectory() as d:
        make_fixtures(d)
        os.makedirs(os.path.join(d, 'out'), exist_ok=True)
        group = key.split(':')[2] if key and key.startswith('success-without-formula:') and key.count(':') >= 2 else ''
        bad, res = eval_vector_process({'tool': tool, 'args': args, 'stdin': stdin, 'group': group}, d)
        if bad:
            print('  ', bad[0], '::', bad[1])
        if key is not None:
            return bad is None or bad[0] != key
        return bad is None
