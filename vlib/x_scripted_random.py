"""A scripted ("demonic") drop-in for the functions of the standard `random` module.

Purpose (C13, C15): samplers in cnfgen have a *sparse* strategy (sample, retry on collision) and a
*dense* fallback; which one runs depends on the outcomes of the random draws.  With a real seed the
collision / fallback paths are taken with tiny probability.  Here every primitive random decision is
one *draw* with a finite number `arity` of outcomes; the outcomes come from

    script (a finite list of ints, used first; value v means outcome  v mod arity)
    tail   (after the script is exhausted):
             'low'            always outcome 0            (forces collisions: same sample every time)
             'high'           always outcome arity-1
             'random'         a private random.Random(tail_seed)   (fair: every loop terminates)
             ('cycle', [..])  the list repeated for ever

Every outcome sequence produced this way is a possible outcome sequence of the real generator
(random() is kept strictly inside (0,1)), so a property promised "for all outcomes of the random
choices" must hold under any script.  A run that would not terminate (e.g. a `while` retry loop
under tail 'low') exceeds the draw budget and raises DrawBudgetExceeded, which callers treat as
"not an outcome of the real generator" (skipped, never a violation).

Usage
    with scripted_random(script=[0, 0, 1], tail='low') as rng:
        F = RandomKCNF(2, 3, 4)
    rng.trace     # [(arity, outcome), ...] of all draws made

    for prefix, tail, value in explore(run, depth=4, tails=('low', 'high')):   # systematic
        ...          # run(prefix, tail) -> (value, rng.trace)

The patch replaces attributes of the *module* `random` (random.sample, ...), which is how cnfgen
calls it (`import random; random.sample(...)`).  networkx draws from `random._inst` bound methods
and is deliberately not affected.  Nothing here imports cnfgen.
"""
import contextlib
import random as _random
from collections.abc import Sequence as _Sequence

PATCHED = ('random', 'randint', 'randrange', 'choice', 'choices', 'sample', 'shuffle', 'getrandbits',
           'uniform', 'seed')

_FLOAT_RESOLUTION = 8      # random() takes the values (i + .5)/8


class DrawBudgetExceeded(Exception):
    """the scripted run made more draws than allowed: treated as a non terminating script"""


class ScriptedRandom:
    def __init__(self, script=(), tail='random', tail_seed=0, budget=20000):
        self.script = list(script)
        self.tail = tail
        self._tail_rng = _random.Random(tail_seed)
        self._probe = _random.Random(0)       # only used to reproduce error behaviour of the real module
        self.budget = budget
        self.trace = []                       # (arity, outcome)
        self.calls = {}                       # function name -> number of calls
        self.seed_calls = 0

    # ---- the only source of outcomes ----------------------------------------------
    def _draw(self, arity):
        if arity <= 0:
            raise ValueError('scripted draw with no outcomes')
        pos = len(self.trace)
        if pos >= self.budget:
            raise DrawBudgetExceeded('more than {} draws'.format(self.budget))
        if pos < len(self.script):
            out = int(self.script[pos]) % arity
        elif self.tail == 'low':
            out = 0
        elif self.tail == 'high':
            out = arity - 1
        elif self.tail == 'random':
            out = self._tail_rng.randrange(arity)
        elif isinstance(self.tail, (tuple, list)) and self.tail[0] == 'cycle':
            cyc = self.tail[1]
            out = int(cyc[(pos - len(self.script)) % len(cyc)]) % arity
        else:
            raise ValueError('unknown tail policy {!r}'.format(self.tail))
        self.trace.append((arity, out))
        return out

    def _count(self, name):
        self.calls[name] = self.calls.get(name, 0) + 1

    # ---- drop-ins ----------------------------------------------------------------------
    def seed(self, *args, **kw):
        self.seed_calls += 1

    def random(self):
        self._count('random')
        return (self._draw(_FLOAT_RESOLUTION) + 0.5) / _FLOAT_RESOLUTION

    def uniform(self, a, b):
        self._count('uniform')
        return a + (b - a) * ((self._draw(_FLOAT_RESOLUTION) + 0.5) / _FLOAT_RESOLUTION)

    def randrange(self, start, stop=None, step=1):
        self._count('randrange')
        if stop is None:
            start, stop = 0, start
        r = range(start, stop, step)
        if len(r) == 0:
            raise ValueError('empty range in randrange({}, {}, {})'.format(start, stop, step))
        return r[self._draw(len(r))]

    def randint(self, a, b):
        self._count('randint')
        if b < a:
            raise ValueError('empty range in randrange({}, {})'.format(a, b + 1))
        return a + self._draw(b - a + 1)

    def getrandbits(self, k):
        self._count('getrandbits')
        if k < 0:
            raise ValueError('number of bits must be non-negative')
        return self._draw(1 << k) if k else 0

    def choice(self, seq):
        self._count('choice')
        if not len(seq):
            raise IndexError('Cannot choose from an empty sequence')
        return seq[self._draw(len(seq))]

    def choices(self, population, weights=None, *, cum_weights=None, k=1):
        self._count('choices')
        if weights is not None or cum_weights is not None:
            raise NotImplementedError('scripted random.choices with weights')
        n = len(population)
        if not n and k > 0:           # like the real one: only an actual pick from nothing fails
            raise IndexError('list index out of range')
        return [population[self._draw(n)] for _ in range(k)]

    def sample(self, population, k, *, counts=None):
        self._count('sample')
        if counts is not None:
            raise NotImplementedError('scripted random.sample with counts')
        if not isinstance(population, _Sequence):
            # whatever the running Python does with a non-sequence population (>= 3.11: TypeError)
            return self._probe.sample(population, k)
        n = len(population)
        if not 0 <= k <= n:
            raise ValueError('Sample larger than population or is negative')
        pool = list(population)
        out = []
        for _ in range(k):
            out.append(pool.pop(self._draw(len(pool))))
        return out

    def shuffle(self, x):
        self._count('shuffle')
        for i in reversed(range(1, len(x))):
            j = self._draw(i + 1)
            x[i], x[j] = x[j], x[i]


@contextlib.contextmanager
def scripted_random(script=(), tail='random', tail_seed=0, budget=20000):
    """patch the module-level functions of `random` with a ScriptedRandom for the duration"""
    rng = ScriptedRandom(script, tail, tail_seed, budget)
    saved = {name: getattr(_random, name) for name in PATCHED}
    try:
        for name in PATCHED:
            setattr(_random, name, getattr(rng, name))
        yield rng
    finally:
        for name, f in saved.items():
            setattr(_random, name, f)


def explore(run, depth, tails=('low', 'high'), max_runs=2000):
    """systematic exploration of outcome sequences.

    run(prefix, tail) must execute the code under test inside `scripted_random(prefix, tail, ...)`
    and return (value, trace) with trace = rng.trace.  Prefixes are all outcome sequences of length
    <= depth that the program can actually consume (the arity of draw i is read off the trace of the
    run with the first i outcomes fixed; the program is deterministic given the outcomes).
    Yields (prefix, tail, value).  Deterministic; at most max_runs runs.
    """
    runs = 0
    stack = [()]
    while stack:
        prefix = stack.pop()
        arity_here = None
        for tail in tails:
            if runs >= max_runs:
                return
            runs += 1
            value, trace = run(list(prefix), tail)
            if len(trace) > len(prefix):
                arity_here = trace[len(prefix)][0]
            yield list(prefix), tail, value
        if len(prefix) < depth and arity_here:
            for v in reversed(range(arity_here)):
                stack.append(prefix + (v,))
