"""Formulas for the serialisation checks (C06, C12): JSON-able specs -> cnfgen objects.

A spec is a dict (so that it can sit in a replay file):
  {'kind': 'cnf', 'n': N, 'clauses': [[..]..], 'description': str|None, 'names': [entry..]}
  {'kind': 'opb', 'n': N, 'constraints': [[[c,l],.., op, degree]..], 'description':.., 'names':..}
  {'kind': 'family', 'name': <catalogue key>, 'cls': 'cnf'|'opb', 'chain': [[transf, arg..]..]}
name entries (variables are allocated in this order, before clauses are added):
  ['var', label]              one variable with that literal name
  ['block', [r1,r2..], fmt]   r1*r2*.. variables, named fmt.format(i1,i2,..) in lexicographic order
  ['anon', k]                 k unnamed variables
build(spec) returns (F, exp) where exp = {'n', 'rows', 'names'}: what the driver expects, computed
here from the spec alone for hand-built formulas (names is None when only cnfgen knows them).
"""
import itertools

from vlib import core


def _cls(which):
    core.import_repo()
    from cnfgen.formula.cnf import CNF
    from cnfgen.formula.opb import OPB
    return {'cnf': CNF, 'opb': OPB}[which]


def expected_names(entries, n, default):
    """names of variables 1..n as the documentation defines them (own computation)"""
    out = []
    for e in entries or []:
        if e[0] == 'var':
            out.append(e[1])
        elif e[0] == 'block':
            for idx in itertools.product(*[range(1, r + 1) for r in e[1]]):
                out.append(e[2].format(*idx))
        elif e[0] == 'anon':
            for _ in range(e[1]):
                out.append(default.format(len(out) + 1))
    while len(out) < n:
        out.append(default.format(len(out) + 1))
    return out


def _allocate(F, entries):
    for e in entries or []:
        if e[0] == 'var':
            F.new_variable(label=e[1])
        elif e[0] == 'block':
            F.new_block(*e[1], label=e[2])
        elif e[0] == 'anon':
            F.update_variable_number(F.number_of_variables() + e[1])
        else:
            raise ValueError(e)


def _named_count(entries):
    c = 0
    for e in entries or []:
        if e[0] == 'var':
            c += 1
        elif e[0] == 'block':
            k = 1
            for r in e[1]:
                k *= r
            c += k
        else:
            c += e[1]
    return c


def build(spec):
    kind = spec['kind']
    if kind == 'family':
        return build_family(spec)
    C = _cls(kind)
    F = C(description=spec.get('description')) if spec.get('description') is not None else C()
    entries = spec.get('names')
    _allocate(F, entries)
    F.update_variable_number(spec.get('n', 0))
    n = max(spec.get('n', 0), _named_count(entries))
    if kind == 'cnf':
        rows = [list(c) for c in spec['clauses']]
        for c in rows:
            F.add_clause(list(c))
            n = max([n] + [abs(l) for l in c])
    else:
        rows = []
        for con in spec['constraints']:
            con = [tuple(t) if isinstance(t, (list, tuple)) else t for t in con]
            F.add_constraint(list(con))
            if con[-2] in ('>=', '==') and all(c >= 0 for c, _ in con[:-2]):
                rows.append(con)                      # already in the stored form: own reference
            else:
                rows.append(list(F[len(F) - 1]))      # the in-memory (normalised) constraint
            n = max([n] + [abs(l) for _, l in con[:-2]])
    exp = {'n': n, 'rows': rows, 'names': (lambda d: expected_names(entries, n, d))}
    return F, exp


# ------------------------------------------------------------------------------------
# families (public constructors only)
# ------------------------------------------------------------------------------------
C4 = [(1, 2), (2, 3), (3, 4), (1, 4)]
K4 = [(u, v) for u in range(1, 5) for v in range(u + 1, 5)]
P3 = [(1, 2), (2, 3)]


def _catalogue():
    cg = core.import_repo()
    from cnfgen import Graph, DirectedGraph, BipartiteGraph

    def G(n, edges):
        g = Graph(n)
        for u, v in edges:
            g.add_edge(u, v)
        return g

    def D(n, edges):
        g = DirectedGraph(n)
        for u, v in edges:
            g.add_edge(u, v)
        return g

    def B(l, r, edges):
        g = BipartiteGraph(l, r)
        for u, v in edges:
            g.add_edge(u, v)
        return g
    c = cg
    return {
        'php_3_2': lambda fc: c.PigeonholePrinciple(3, 2, formula_class=fc),
        'php_4_3_fo': lambda fc: c.PigeonholePrinciple(4, 3, functional=True, onto=True, formula_class=fc),
        'php_0_0': lambda fc: c.PigeonholePrinciple(0, 0, formula_class=fc),
        'php_2_0': lambda fc: c.PigeonholePrinciple(2, 0, formula_class=fc),
        'gphp': lambda fc: c.GraphPigeonholePrinciple(B(3, 2, [(1, 1), (2, 1), (2, 2), (3, 2)]), formula_class=fc),
        'gphp_isolated': lambda fc: c.GraphPigeonholePrinciple(B(2, 2, [(1, 1)]), formula_class=fc),
        'bphp_3_2': lambda fc: c.BinaryPigeonholePrinciple(3, 2, formula_class=fc),
        'bphp_5_4': lambda fc: c.BinaryPigeonholePrinciple(5, 4, formula_class=fc),
        'rphp_3_4_2': lambda fc: c.RelativizedPigeonholePrinciple(3, 4, 2, formula_class=fc),
        'rphp_2_2_1': lambda fc: c.RelativizedPigeonholePrinciple(2, 2, 1, formula_class=fc),
        'count_4_2': lambda fc: c.CountingPrinciple(4, 2, formula_class=fc),
        'count_5_3': lambda fc: c.CountingPrinciple(5, 3, formula_class=fc),
        'matching_c4': lambda fc: c.PerfectMatchingPrinciple(G(4, C4), formula_class=fc),
        'matching_k4': lambda fc: c.PerfectMatchingPrinciple(G(4, K4), formula_class=fc),
        'kcolor_c4_2': lambda fc: c.GraphColoringFormula(G(4, C4), 2, formula_class=fc),
        'kcolor_k4_3': lambda fc: c.GraphColoringFormula(G(4, K4), 3, formula_class=fc),
        'ec_c4': lambda fc: c.EvenColoringFormula(G(4, C4), formula_class=fc),
        'ec_k5': lambda fc: c.EvenColoringFormula(G(5, [(u, v) for u in range(1, 6) for v in range(u + 1, 6)]), formula_class=fc),
        'domset_c4_2': lambda fc: c.DominatingSet(G(4, C4), 2, formula_class=fc),
        'domset_k4_alt': lambda fc: c.DominatingSet(G(4, K4), 1, alternative=True, formula_class=fc),
        'tiling_c4': lambda fc: c.Tiling(G(4, C4), formula_class=fc),
        'tiling_p3': lambda fc: c.Tiling(G(3, P3), formula_class=fc),
        'iso': lambda fc: c.GraphIsomorphism(G(3, [(1, 2)]), G(3, [(2, 3)]), formula_class=fc),
        'auto': lambda fc: c.GraphAutomorphism(G(3, [(1, 2)]), formula_class=fc),
        'op_3': lambda fc: c.OrderingPrinciple(3, formula_class=fc),
        'op_4_total': lambda fc: c.OrderingPrinciple(4, total=True, formula_class=fc),
        'gop_c4': lambda fc: c.GraphOrderingPrinciple(G(4, C4), formula_class=fc),
        'gop_p3': lambda fc: c.GraphOrderingPrinciple(G(3, P3), formula_class=fc),
        'peb_pyr': lambda fc: c.PebblingFormula(D(3, [(1, 3), (2, 3)]), formula_class=fc),
        'peb_path': lambda fc: c.PebblingFormula(D(4, [(1, 2), (2, 3), (3, 4)]), formula_class=fc),
        'stone_pyr_2': lambda fc: c.StoneFormula(D(3, [(1, 3), (2, 3)]), 2, formula_class=fc),
        'stone_path_3': lambda fc: c.StoneFormula(D(3, [(1, 2), (2, 3)]), 3, formula_class=fc),
        'ram_3_3_5': lambda fc: c.RamseyNumber(3, 3, 5, formula_class=fc),
        'ram_2_3_4': lambda fc: c.RamseyNumber(2, 3, 4, formula_class=fc),
        'ptn_13': lambda fc: c.PythagoreanTriples(13, formula_class=fc),
        'ptn_5': lambda fc: c.PythagoreanTriples(5, formula_class=fc),
        'vdw_5_2_3': lambda fc: c.VanDerWaerden(5, 2, 3, formula_class=fc),
        'vdw_6_3_3_2': lambda fc: c.VanDerWaerden(6, 3, 3, 2, formula_class=fc),
        'randkcnf_3_6_10': lambda fc: c.RandomKCNF(3, 6, 10, seed=7, formula_class=fc),
        'randkcnf_unused': lambda fc: c.RandomKCNF(2, 10, 1, seed=3, formula_class=fc),
        'randkxor_3_5_4': lambda fc: c.RandomKXOR(3, 5, 4, seed=5, formula_class=fc),
        'clique_c4_3': lambda fc: c.CliqueFormula(G(4, C4), 3, formula_class=fc),
        'clique_k4_2': lambda fc: c.CliqueFormula(G(4, K4), 2, formula_class=fc),
        'binclique_k4_3': lambda fc: c.BinaryCliqueFormula(G(4, K4), 3, formula_class=fc),
        'ramwit_c4': lambda fc: c.RamseyWitnessFormula(G(4, C4), 2, 2, formula_class=fc),
        'subgraph_c4_p3': lambda fc: c.SubgraphFormula(G(4, C4), G(3, P3), formula_class=fc),
        'subsetcard_3_3': lambda fc: c.SubsetCardinalityFormula(B(3, 3, [(1, 1), (1, 2), (2, 2), (2, 3), (3, 1), (3, 3)]), formula_class=fc),
        'subsetcard_eq': lambda fc: c.SubsetCardinalityFormula(B(2, 3, [(1, 1), (1, 2), (1, 3), (2, 2), (2, 3)]), equalities=True, formula_class=fc),
        'tseitin_c4': lambda fc: c.TseitinFormula(G(4, C4), formula_class=fc),
        'tseitin_k4': lambda fc: c.TseitinFormula(G(4, K4), [1, 0, 0, 0], formula_class=fc),
        'cliquecoloring_4_3_2': lambda fc: c.CliqueColoring(4, 3, 2, formula_class=fc),
        'cpls_2_2_2': lambda fc: c.CPLSFormula(2, 2, 2, formula_class=fc),
        'pitfall': lambda fc: c.PitfallFormula(4, 2, 2, 2, 2, formula_class=fc),
    }


FAMILY_NAMES = None


def family_names():
    global FAMILY_NAMES
    if FAMILY_NAMES is None:
        FAMILY_NAMES = sorted(_catalogue())
    return FAMILY_NAMES


def _transform(F, step):
    cg = core.import_repo()
    name, args = step[0], step[1:]
    if name == 'flip':
        return cg.FlipPolarity(F)
    if name == 'xor':
        return cg.XorSubstitution(F, *args)
    if name == 'or':
        return cg.OrSubstitution(F, *args)
    if name == 'one':
        return cg.ExactlyOneSubstitution(F, *args)
    if name == 'maj':
        return cg.MajoritySubstitution(F, *args)
    if name == 'neq':
        return cg.NotAllEqualSubstitution(F, *args)
    if name == 'ite':
        return cg.IfThenElseSubstitution(F)
    if name == 'lift':
        return cg.FormulaLifting(F, *args)
    if name == 'shuffle':
        n, m = F.number_of_variables(), len(F)
        return cg.Shuffle(F, polarity_flips=[1 if i % 2 else -1 for i in range(n)],
                          variables_permutation=list(range(n, 0, -1)),
                          clauses_permutation=list(range(m - 1, -1, -1)))
    raise ValueError(step)


TRANSFORMATIONS = [['flip'], ['xor', 2], ['or', 2], ['one', 2], ['maj', 3], ['neq', 3], ['ite'], ['lift', 2], ['shuffle']]


def build_family(spec):
    C = _cls(spec['cls'])
    F = _catalogue()[spec['name']](C)
    for step in spec.get('chain') or []:
        F = _transform(F, step)
    rows = [list(r) for r in F]
    exp = {'n': F.number_of_variables(), 'rows': rows,
           'names': (lambda d, F=F: list(F.all_variable_labels(default_label_format=d)))}
    return F, exp


# ------------------------------------------------------------------------------------
# unusual text
# ------------------------------------------------------------------------------------
UNUSUAL = ['', ' ', 'c', 'c ', 'p cnf 1 1', 'p cnf', '%', '0', '1 0', '-1 2 0', '{}', '{0}', '{', '}}', '\t', 'tab\there',
           'été ∀x', '中', '*', '* #variable= 1 #constraint= 1', '+1 x1 >= 1', '\\', '$', '#', '&', '~x1', "quote'\"",
           'a\nb', '\nb', 'a\n', 'a\n1 0', 'a\np cnf 2 1', 'a\n\nb', 'a\r\nb', 'a\rb', 'a\n+1 x1 >= 1', 'a\n* b', 'a\nc b',
           'a\x0bb', 'a\x0cb', 'a b', 'a\x85b', 'x' * 300]
