"""C19 - transformations leave their inputs untouched and record provenance; builders and generators
leave graph / list arguments unchanged.

bounded part (deep snapshots through the public interface, vlib/x_transform.snap_*):
  transformations : every transformation (all substitutions, lifting, flip, both compressions, Shuffle with
                    default / 'fixed' / explicit / invalid arguments) on plain, named, generator-made and
                    already transformed formulas: input snapshot identical before/after; result is a new object
                    that does not share header or clause storage with the input (each side is then modified
                    through the public API and the other re-inspected); explicit argument lists and the
                    compression graph unchanged; header: earlier entries kept in order, original description
                    kept, exactly one new 'transformation i' entry with the next number;
  chains          : all chains of <= 3 steps over an alphabet of transformations: entries 1..len in order,
                    visible in the DIMACS comment lines;
  builders        : every constraint builder of CNF and OPB with list arguments (all operators, constants),
                    constructor / add_clause(s) / add_constraint(s): the argument equals its deep copy afterwards;
  generators      : every formula family taking a graph (cnfgen and networkx objects), charges, patterns:
                    all public views of the graph / the list are unchanged.
"""
import copy
import io
import itertools
import random
import re

from vlib import core
from vlib import x_transform as xt
from vlib.replay import generic_replay

LEVEL = 'exploration'
OPNAME = {'<': 'lt', '>': 'gt', '<=': 'le', '>=': 'ge', '==': 'eq', '!=': 'ne'}


# ------------------------------------------------------------------ inputs
def make_formula(fs):
    """fs: {'kind':'build', clauses, nvars, naming, description?, extra?} | {'kind':'gen','name':..}"""
    core.import_repo()
    if fs['kind'] == 'build':
        F = xt.build_formula(fs['clauses'], fs['nvars'], fs.get('naming', 'plain'), fs.get('description'))
    else:
        import cnfgen
        from cnfgen.graphs import Graph
        name = fs['name']
        if name == 'php':
            F = cnfgen.PigeonholePrinciple(3, 2)
        elif name == 'op':
            F = cnfgen.OrderingPrinciple(3)
        elif name == 'tseitin':
            G = Graph(3)
            for e in [(1, 2), (2, 3), (1, 3)]:
                G.add_edge(*e)
            F = cnfgen.TseitinFormula(G)
        elif name == 'bphp':
            F = cnfgen.BinaryPigeonholePrinciple(3, 2)
        else:
            raise ValueError(name)
    for k, v in fs.get('extra', []):
        F.header[k] = v
    return F


def run_step(F, step):
    """returns (result, [(argument name, before deep copy, object)])"""
    core.import_repo()
    t = step['t']
    if t == 'shuffle':
        from cnfgen.transformations.shuffle import Shuffle
        args = [copy.deepcopy(step.get(x, 'shuffle')) for x in ('flips', 'vperm', 'cperm')]
        if step.get('shape') == 'tuple':
            args = [tuple(a) if isinstance(a, list) else a for a in args]
        watched = [(n, copy.deepcopy(a), a) for n, a in zip(('flips', 'vperm', 'cperm'), args)]
        random.seed(step.get('seed', 0))
        try:
            return Shuffle(F, *args), watched, None
        except Exception as e:
            return None, watched, e
    from checks import C05
    if t in ('xorcomp', 'majcomp'):
        from cnfgen.transformations import substitutions as S
        L = step['L'] if step.get('L') is not None else F.number_of_variables()
        edges = step['edges'] if step.get('edges') is not None else [(u, 1 + (u + j) % step['R']) for u in range(1, L + 1) for j in range(2)]
        B = xt.bipartite(L, step['R'], [tuple(e) for e in edges], step.get('gkind', 'cnfgen'))
        before = xt.snap_graph(B)
        try:
            R = S.VariableCompression(F, B, 'xor' if t == 'xorcomp' else 'maj')
        except Exception as e:
            return None, [('graph', before, B)], e
        return R, [('graph', before, B)], None
    try:
        return C05._apply(F, step), [], None
    except Exception as e:
        return None, [], e


def _arg_now(obj):
    try:
        return xt.snap_graph(obj)
    except TypeError:
        return obj


TRANS_RE = re.compile(r'^transformation (\d+)$')


def header_problem(before_items, R):
    """before_items: list of (key, value) of the input header; R the result.  None or text"""
    after = list(R.header.items())
    bkeys = [k for k, _ in before_items]
    new = [(k, v) for k, v in after if k not in bkeys]
    kept = [(k, v) for k, v in after if k in bkeys]
    if [k for k, _ in kept] != bkeys:
        return 'earlier header entries lost or reordered: {} -> {}'.format(bkeys, [k for k, _ in after])
    for (k, v0), (_, v1) in zip(before_items, kept):
        if k == 'description':
            if not (isinstance(v1, str) and str(v0) in v1):
                return 'original description {!r} not kept: {!r}'.format(v0, v1)
        elif v0 != v1:
            return 'header entry {!r} changed: {!r} -> {!r}'.format(k, v0, v1)
    nums = [int(TRANS_RE.match(k).group(1)) for k in bkeys if TRANS_RE.match(k)]
    nxt = len(nums) + 1
    if len(new) != 1:
        return 'expected exactly one new header entry, got {}'.format(new)
    k, v = new[0]
    if k != 'transformation {}'.format(nxt):
        return 'new entry is {!r}, expected {!r}'.format(k, 'transformation {}'.format(nxt))
    if not isinstance(v, str) or not v.strip():
        return 'new entry {!r} has no text: {!r}'.format(k, v)
    order = [int(TRANS_RE.match(k).group(1)) for k, _ in after if TRANS_RE.match(k)]
    if nums == list(range(1, len(nums) + 1)) and order != list(range(1, nxt + 1)):
        return 'transformation entries not in order of application: {}'.format(order)
    return None


def comment_problem(R):
    """the numbered entries must be readable, in order, in the comment lines of the DIMACS output"""
    out = io.StringIO()
    R.to_file(out, fileformat='dimacs')
    n, m, cl, comments = xt.parse_dimacs(out.getvalue())
    want = [(k, v) for k, v in R.header.items() if TRANS_RE.match(k)]
    pos = -1
    for k, v in want:
        text = str(v).encode('ascii', errors='replace').decode('ascii')
        hit = [i for i, line in enumerate(comments) if i > pos and k in line and text in line]
        if not hit:
            return 'no comment line after line {} shows {!r}: {!r}; comments {}'.format(pos, k, text, comments)
        pos = hit[0]
    return None


def eval_chain(fs, steps, poke=True):
    """apply the steps one after the other; list of (step index, transformation, kind, text) problems"""
    F = make_formula(fs)
    bad = []
    first_header = list(F.header.items())
    applied = 0
    for i, step in enumerate(steps):
        t = step['t']
        before = xt.snap_formula(F)
        R, watched, exc = run_step(F, step)
        after = xt.snap_formula(F)
        d = xt.first_difference(before, after)
        if d:
            bad.append((i, t, 'input-changed', 'input formula changed by the call{}: {}'.format(' (which raised)' if exc else '', d)))
        for name, was, obj in watched:
            now = _arg_now(obj)
            if now != was:
                bad.append((i, t, 'argument-changed', 'argument {} changed: {}'.format(name, xt.first_difference(was, now))))
        if exc is not None:
            if step.get('invalid'):
                continue
            bad.append((i, t, 'raised', 'raised {}: {}'.format(type(exc).__name__, exc)))
            break
        if step.get('invalid'):
            continue        # accepted although invalid: C09's business
        if R is F:
            bad.append((i, t, 'same-object', 'the input object itself was returned'))
            break
        h = header_problem(before['header'], R)
        if h:
            bad.append((i, t, 'header', h))
        applied += 1
        if poke:
            # the two formulas must be independent objects: change each one through the public API
            R.header['poked by the check'] = 'yes'
            R.add_clause([1] if R.number_of_variables() >= 1 else [])
            R.update_variable_number(R.number_of_variables() + 2)
            d = xt.first_difference(before, xt.snap_formula(F))
            if d:
                bad.append((i, t, 'aliasing', 'modifying the result changed the input: {}'.format(d)))
            F2 = _stage(fs, steps[:i])
            R2, _, exc2 = run_step(F2, step)
            if exc2 is None:
                snapR = xt.snap_formula(R2)
                F2.header['poked input'] = 'yes'
                F2.add_clause([-1] if F2.number_of_variables() >= 1 else [])
                F2.update_variable_number(F2.number_of_variables() + 1)
                d = xt.first_difference(snapR, xt.snap_formula(R2))
                if d:
                    bad.append((i, t, 'aliasing', 'modifying the input changed the result: {}'.format(d)))
            # continue the chain from a fresh, unpoked formula
            F = _stage(fs, steps[:i + 1])
        else:
            F = R
    if applied == len(steps) and not any(s.get('invalid') for s in steps) and F is not None:
        items = list(F.header.items())
        order = [int(TRANS_RE.match(k).group(1)) for k, _ in items if TRANS_RE.match(k)]
        base = len([k for k, _ in first_header if TRANS_RE.match(k)])
        if order != list(range(1, base + len(steps) + 1)):
            bad.append((len(steps) - 1, 'chain', 'header', 'after {} steps the numbered entries are {}'.format(len(steps), order)))
        for k, v in first_header:
            if k not in F.header or (F.header[k] != v and not (k == 'description' and str(v) in str(F.header[k]))):
                bad.append((len(steps) - 1, 'chain', 'header', 'original entry {!r}: {!r} became {!r}'.format(k, v, F.header.get(k))))
        c = comment_problem(F)
        if c:
            bad.append((len(steps) - 1, 'chain', 'comments', c))
    return bad


def _stage(fs, steps):
    F = make_formula(fs)
    for s in steps:
        if not s.get('invalid'):
            F, _, _ = run_step(F, s)
    return F


def replay_chain(fs, steps, poke=True):
    return not eval_chain(fs, steps, poke)


# ------------------------------------------------------------------ transformations: enumeration
def all_steps(N, M):
    out = []
    for k in (1, 2):
        for t in ('xor', 'or', 'maj', 'eq', 'neq', 'eq_invert', 'one'):
            out.append({'t': t, 'k': k})
    for t in ('exact', 'atleast', 'atmost', 'anybut'):
        for c in (0, 1, 3):
            out.append({'t': t, 'k': 2, 'c': c})
    for op in ('==', '<', '>', '<=', '>=', '!='):
        out.append({'t': 'linear', 'k': 3, 'op': op, 'c': 1})
    out += [{'t': 'ite'}, {'t': 'lift', 'k': 1}, {'t': 'lift', 'k': 2}, {'t': 'flip'}]
    for f in ('xorcomp', 'majcomp'):
        for gk in ('cnfgen', 'nx'):
            out.append({'t': f, 'L': None, 'R': 3, 'edges': None, 'gkind': gk})
        out.append({'t': f, 'L': N + 1, 'R': 2, 'edges': [], 'invalid': True})
    rev = list(range(N, 0, -1))
    crev = list(range(M - 1, -1, -1))
    out += [{'t': 'shuffle'}, {'t': 'shuffle', 'seed': 3},
            {'t': 'shuffle', 'flips': 'fixed', 'vperm': 'fixed', 'cperm': 'fixed'},
            {'t': 'shuffle', 'flips': [-1] * N, 'vperm': rev, 'cperm': crev},
            {'t': 'shuffle', 'flips': [-1] * N, 'vperm': rev, 'cperm': crev, 'shape': 'tuple'},
            {'t': 'shuffle', 'flips': [1] * N, 'vperm': 'shuffle', 'cperm': crev},
            {'t': 'shuffle', 'flips': [1] * (N + 1), 'invalid': True},
            {'t': 'shuffle', 'vperm': [1] * N + [1], 'invalid': True},
            {'t': 'shuffle', 'vperm': rev, 'cperm': list(range(1, M + 2)), 'invalid': True},
            {'t': 'xor', 'k': 0, 'invalid': True}, {'t': 'lift', 'k': 0, 'invalid': True},
            {'t': 'linear', 'k': 2, 'op': '=<', 'c': 1, 'invalid': True}]
    return out


def base_formulas(thorough):
    fs = [{'kind': 'build', 'clauses': [[1, -2], [2, 3, 3], [], [-1]], 'nvars': 3, 'naming': nm} for nm in ('plain', 'named', 'gap', 'ctor')]
    fs += [{'kind': 'build', 'clauses': [], 'nvars': 0}, {'kind': 'build', 'clauses': [[]], 'nvars': 2},
           {'kind': 'build', 'clauses': [[1, 2], [-1, -2]], 'nvars': 4, 'naming': 'named',
            'description': 'my {formula} with {braces} and 100%', 'extra': [['note', 'kept {as is}'], ['Transformation', 'not numbered']]},
           {'kind': 'gen', 'name': 'php'}, {'kind': 'gen', 'name': 'tseitin'}, {'kind': 'gen', 'name': 'op'}]
    if thorough:
        fs += [{'kind': 'gen', 'name': 'bphp'},
               {'kind': 'build', 'clauses': [[1, -1], [2, 2], [3], [-3, 4]], 'nvars': 5, 'naming': 'gap'}]
    return fs


def step_name(step):
    t = step['t']
    if t == 'shuffle':
        kinds = ['explicit' if not isinstance(step.get(x, 'shuffle'), str) else step.get(x, 'shuffle') for x in ('flips', 'vperm', 'cperm')]
        t = 'shuffle[{}]'.format(','.join(kinds))
    if t == 'linear':
        t = 'linear[{}]'.format({'<': 'lt', '>': 'gt', '<=': 'le', '>=': 'ge', '==': 'eq', '!=': 'ne'}.get(step['op'], 'bad-operator'))
    if step.get('gkind') == 'nx':
        t += '[networkx]'
    if step.get('invalid'):
        t += '[rejected]'
    return t


def _report_chain(ctx, fs, steps, bad, prefix):
    for i, t, kind, text in bad:
        name = step_name(steps[i]) if t != 'chain' else 'chain'
        ctx.violation('{}:{}:{}'.format(prefix, name, kind),
                      'formula {} steps {} (step {}): {}'.format(fs, [step_name(s) for s in steps], i, text),
                      {'fn': 'checks.C19:replay_chain', 'args': dict(fs=fs, steps=steps)})


def bounded_transformations(ctx):
    thorough = ctx.tier == 'thorough'
    fss = base_formulas(thorough)
    ctx.bounds['transformations'] = ('{} input formulas (plain / named / gap / constructor-made, empty, custom description and header entries, '
                                     'pigeonhole, Tseitin, ordering) x every transformation and argument form ({} per formula), also applied '
                                     'to the result of a first transformation').format(len(fss), len(all_steps(3, 3)))
    ctx.rule('C19 bounded: one case = (input formula, chain of transformation steps) or (builder, class, literal list, operator, constant) or '
             '(generator, graph, graph representation); non-trivial iff the formula / list / graph is non-empty')
    for fs in fss:
        F = make_formula(fs)
        N, M = F.number_of_variables(), len(F)
        for step in all_steps(N, M):
            ctx.case(('single', repr(fs), repr(step)), nontrivial=M > 0)
            _report_chain(ctx, fs, [step], eval_chain(fs, [step]), 'transformation')
        # second step on an already transformed formula (header already has entries, variables come from blocks)
        for first in ({'t': 'or', 'k': 2}, {'t': 'shuffle', 'seed': 1}, {'t': 'ite'}):
            F1, _, _ = run_step(make_formula(fs), first)
            N1, M1 = F1.number_of_variables(), len(F1)
            if N1 > 14 or M1 > 400:
                continue
            for step in all_steps(N1, M1):
                if step['t'] in ('linear', 'exact', 'atleast', 'atmost', 'anybut') and M1 > 40:
                    continue
                ctx.case(('double', repr(fs), repr(first), repr(step)), nontrivial=M > 0)
                _report_chain(ctx, fs, [first, step], eval_chain(fs, [first, step]), 'transformation')
    ctx.sample({'input': 'PigeonholePrinciple(3,2)', 'step': 'FormulaLifting(F,2)',
                'checked': 'snapshot(F) before == after; header = old entries + "transformation 1"; F and result independent'})


def bounded_chains(ctx):
    thorough = ctx.tier == 'thorough'
    alphabet = [{'t': 'xor', 'k': 2}, {'t': 'or', 'k': 1}, {'t': 'flip'}, {'t': 'shuffle', 'seed': 2}, {'t': 'lift', 'k': 1},
                {'t': 'ite'}, {'t': 'majcomp', 'L': None, 'R': 2, 'edges': None}, {'t': 'atleast', 'k': 2, 'c': 1},
                {'t': 'shuffle', 'flips': 'fixed', 'vperm': 'fixed', 'cperm': 'fixed'}]
    if thorough:
        alphabet += [{'t': 'neq', 'k': 2}, {'t': 'one', 'k': 2}, {'t': 'xorcomp', 'L': None, 'R': 3, 'edges': None, 'gkind': 'nx'},
                     {'t': 'linear', 'k': 2, 'op': '!=', 'c': 1}]
    fss = [{'kind': 'build', 'clauses': [[1, -2], [2]], 'nvars': 2, 'naming': 'named', 'description': 'start {here}'},
           {'kind': 'gen', 'name': 'php'}]
    ctx.bounds['chains'] = 'all chains of 1..3 steps over {} transformations on {} formulas; header and DIMACS comment lines after the chain'.format(len(alphabet), len(fss))
    for fs in fss:
        for ln in (1, 2, 3):
            for steps in itertools.product(alphabet, repeat=ln):
                if fs['kind'] == 'gen' and ln == 3 and not thorough:
                    continue
                steps = [dict(s) for s in steps]
                ctx.case(('chain', repr(fs), repr(steps)))
                _report_chain(ctx, fs, steps, eval_chain(fs, steps, poke=False), 'chain')
    ctx.sample({'chain': ['xor 2', 'shuffle', 'lift 1'], 'expected header': ['description (kept)', '...', 'transformation 1', 'transformation 2', 'transformation 3']})


# ------------------------------------------------------------------ builders
class SpyList(list):
    """a list that counts the writes made into it"""
    writes = 0

    def __setitem__(self, i, v):
        self.writes += 1
        list.__setitem__(self, i, v)


def _cls(name):
    core.import_repo()
    from cnfgen.formula.cnf import CNF
    from cnfgen.formula.opb import OPB
    return {'cnf': CNF, 'opb': OPB}[name]


def builder_calls(cls):
    """(name, callable(F, lits, op, k), needs)"""
    calls = [('cardinality_geq', lambda F, l, op, k: F.cardinality_geq(l, k), 'k'),
             ('cardinality_leq', lambda F, l, op, k: F.cardinality_leq(l, k), 'k'),
             ('cardinality_eq', lambda F, l, op, k: F.cardinality_eq(l, k), 'k'),
             ('cardinality_neq', lambda F, l, op, k: F.cardinality_neq(l, k), 'k'),
             ('add_parity', lambda F, l, op, k: F.add_parity(l, k % 2), 'k'),
             ('add_loose_majority', lambda F, l, op, k: F.add_loose_majority(l), ''),
             ('add_loose_minority', lambda F, l, op, k: F.add_loose_minority(l), ''),
             ('add_strict_majority', lambda F, l, op, k: F.add_strict_majority(l), ''),
             ('add_strict_minority', lambda F, l, op, k: F.add_strict_minority(l), ''),
             ('add_clause', lambda F, l, op, k: F.add_clause(l), ''),
             ('add_clause[check=False]', lambda F, l, op, k: F.add_clause(l, check=False), '')]
    if cls == 'cnf':
        calls.append(('add_linear', lambda F, l, op, k: F.add_linear(l, op, k), 'opk'))
        calls.append(('add_linear[check=False]', lambda F, l, op, k: F.add_linear(l, op, k, check=False), 'opk'))
    return calls


def eval_builder(cls, name, lits, op, k):
    F = _cls(cls)()
    F.update_variable_number(max([abs(x) for x in lits] + [0]))
    arg = SpyList(lits)
    fn = dict((n, f) for n, f, _ in builder_calls(cls))[name]
    exc = None
    try:
        fn(F, arg, op, k)
    except Exception as e:
        exc = e
    if list(arg) != list(lits):
        return 'literal list {} became {}{}'.format(lits, list(arg), ' (call raised {!r})'.format(exc) if exc else ''), arg.writes
    return None, arg.writes


def replay_builder(cls, name, lits, op, k):
    return eval_builder(cls, name, lits, op, k)[0] is None


def eval_rows(cls, how, rows):
    """lists of clauses / constraints handed to the constructor or to add_*_from"""
    C = _cls(cls)
    arg = copy.deepcopy(rows)
    try:
        if how == 'constructor':
            C(arg)
        elif how == 'add_clauses_from':
            C().add_clauses_from(arg)
        elif how == 'add_constraints_from':
            C().add_constraints_from(arg)
        elif how == 'add_constraint':
            F = C()
            for r in arg:
                F.add_constraint(r)
        else:
            raise ValueError(how)
    except Exception as e:
        if arg != rows:
            return 'argument {} became {} (call raised {!r})'.format(rows, arg, e)
        return None
    if arg != rows:
        return 'argument {} became {}'.format(rows, arg)
    return None


def replay_rows(cls, how, rows):
    rows = [[tuple(x) if isinstance(x, list) else x for x in r] if cls == 'opb' and how != 'add_clauses_from' else r for r in rows]
    return eval_rows(cls, how, rows) is None


def bounded_builders(ctx):
    thorough = ctx.tier == 'thorough'
    maxn = 5 if thorough else 4
    lists = []
    for n in range(maxn + 1):
        for signs in itertools.product([1, -1], repeat=n):
            lists.append([s * (i + 1) for i, s in enumerate(signs)])
    lists += [[2, 2], [1, -1], [3, -1, 2], [-4, 2], [1, 1, -1]]
    ctx.bounds['builders'] = ('CNF and OPB: cardinality_geq/leq/eq/neq, add_parity, the four majority/minority builders, add_clause, add_linear '
                              '(6 operators, with and without check) on every literal list over <= {} variables (all polarity patterns, some with '
                              'repeated/opposite literals), constants -1..n+1; constructor / add_clauses_from / add_constraint(s_from) on lists of rows'
                              ).format(maxn)
    writers = {}
    for cls in ('cnf', 'opb'):
        for name, fn, needs in builder_calls(cls):
            for lits in lists:
                ops = ['<=', '>=', '<', '>', '==', '!='] if 'op' in needs else [None]
                ks = range(-1, len(lits) + 2) if 'k' in needs else [0]
                for op in ops:
                    for k in ks:
                        ctx.case(('builder', cls, name, tuple(lits), op, k), nontrivial=len(lits) > 0)
                        bad, writes = eval_builder(cls, name, lits, op, k)
                        if writes:
                            key = '{}.{}{}'.format(cls, name, '[{}]'.format(op) if op else '')
                            writers[key] = writers.get(key, 0) + 1
                        if bad:
                            ctx.violation('builder:{}:{}{}:argument-changed'.format(cls, name, '[{}]'.format(OPNAME[op]) if op else ''),
                                          '{}.{}({}, {}, {}): {}'.format(cls, name, lits, op, k, bad),
                                          {'fn': 'checks.C19:replay_builder', 'args': dict(cls=cls, name=name, lits=lits, op=op, k=k)})
    # observation only (D11): builders that write into the caller's list and restore it afterwards
    ctx.section('builders', write_then_restore_observed=sorted(writers))
    rows_cnf = [[], [[]], [[1, -2], [2, 3, 3], []], [[1], [1]], [[-3, 1]]]
    for rows in rows_cnf:
        for cls, how in (('cnf', 'constructor'), ('cnf', 'add_clauses_from'), ('opb', 'add_clauses_from')):
            ctx.case(('rows', cls, how, repr(rows)), nontrivial=bool(rows))
            bad = eval_rows(cls, how, rows)
            if bad:
                ctx.violation('builder:{}:{}:argument-changed'.format(cls, how), bad,
                              {'fn': 'checks.C19:replay_rows', 'args': dict(cls=cls, how=how, rows=rows)})
    cons = []
    for op in ('>=', '<=', '<', '>', '=='):
        for v in (-1, 0, 1, 2):
            cons.append([(1, 1), (-2, 2), (3, -3), op, v])
            cons.append([(-1, -1), (2, 2), op, v])
            cons.append([op, v])
    for how in ('constructor', 'add_constraints_from', 'add_constraint'):
        for rows in [cons] + [[c] for c in cons]:
            ctx.case(('rows', 'opb', how, repr(rows)))
            bad = eval_rows('opb', how, rows)
            if bad:
                ctx.violation('builder:opb:{}:argument-changed'.format(how), bad,
                              {'fn': 'checks.C19:replay_rows', 'args': dict(cls='opb', how=how, rows=rows)})
    ctx.sample({'builder': 'cnf.add_linear', 'lits': [1, -2, 3], 'op': '!=', 'k': 2, 'checked': 'list equals its copy after the call'})


# ------------------------------------------------------------------ generators taking graphs, charges, patterns
def make_graph(g, kind):
    """g = ('simple', n, edges) | ('dag', n, edges) | ('bip', L, R, edges)"""
    core.import_repo()
    from cnfgen import graphs
    import networkx
    if g[0] == 'bip':
        return xt.bipartite(g[1], g[2], [tuple(e) for e in g[3]], kind)
    n, edges = g[1], [tuple(e) for e in g[2]]
    if kind == 'nx':
        G = networkx.DiGraph() if g[0] == 'dag' else networkx.Graph()
        G.add_nodes_from(range(1, n + 1))
        G.add_edges_from(edges)
        return G
    G = graphs.DirectedGraph(n) if g[0] == 'dag' else graphs.Graph(n)
    for u, v in edges:
        G.add_edge(u, v)
    return G


def generator_table():
    """name -> (graph argument types, callable(graph objects, extra list or None, formula class))"""
    core.import_repo()
    import cnfgen as c
    T = {
        'GraphColoringFormula': (['simple'], lambda g, x, fc: c.GraphColoringFormula(g[0], 3, formula_class=fc)),
        'GraphColoringFormula[nonfunctional]': (['simple'], lambda g, x, fc: c.GraphColoringFormula(g[0], 2, functional=False, formula_class=fc)),
        'EvenColoringFormula': (['simple'], lambda g, x, fc: c.EvenColoringFormula(g[0], formula_class=fc)),
        'DominatingSet': (['simple'], lambda g, x, fc: c.DominatingSet(g[0], 2, formula_class=fc)),
        'DominatingSet[alternative]': (['simple'], lambda g, x, fc: c.DominatingSet(g[0], 1, alternative=True, formula_class=fc)),
        'Tiling': (['simple'], lambda g, x, fc: c.Tiling(g[0], formula_class=fc)),
        'GraphIsomorphism': (['simple', 'simple'], lambda g, x, fc: c.GraphIsomorphism(g[0], g[1], formula_class=fc)),
        'GraphAutomorphism': (['simple'], lambda g, x, fc: c.GraphAutomorphism(g[0], formula_class=fc)),
        'GraphOrderingPrinciple': (['simple'], lambda g, x, fc: c.GraphOrderingPrinciple(g[0], formula_class=fc)),
        'GraphOrderingPrinciple[smart,plant,knuth]': (['simple'], lambda g, x, fc: c.GraphOrderingPrinciple(g[0], total=True, smart=True, plant=True, knuth=2, formula_class=fc)),
        'PebblingFormula': (['dag'], lambda g, x, fc: c.PebblingFormula(g[0], formula_class=fc)),
        'StoneFormula': (['dag'], lambda g, x, fc: c.StoneFormula(g[0], 2, formula_class=fc)),
        'SparseStoneFormula': (['dag', 'bipL'], lambda g, x, fc: c.SparseStoneFormula(g[0], g[1], formula_class=fc)),
        'GraphPigeonholePrinciple': (['bip'], lambda g, x, fc: c.GraphPigeonholePrinciple(g[0], formula_class=fc)),
        'GraphPigeonholePrinciple[functional,onto]': (['bip'], lambda g, x, fc: c.GraphPigeonholePrinciple(g[0], functional=True, onto=True, formula_class=fc)),
        'SubgraphFormula': (['simple', 'simple'], lambda g, x, fc: c.SubgraphFormula(g[0], g[1], formula_class=fc)),
        'SubgraphFormula[induced,symbreak]': (['simple', 'simple'], lambda g, x, fc: c.SubgraphFormula(g[0], g[1], induced=True, symbreak=True, formula_class=fc)),
        'CliqueFormula': (['simple'], lambda g, x, fc: c.CliqueFormula(g[0], 2, formula_class=fc)),
        'BinaryCliqueFormula': (['simple'], lambda g, x, fc: c.BinaryCliqueFormula(g[0], 2, formula_class=fc)),
        'RamseyWitnessFormula': (['simple'], lambda g, x, fc: c.RamseyWitnessFormula(g[0], 2, 2, formula_class=fc)),
        'SubsetCardinalityFormula': (['bip'], lambda g, x, fc: c.SubsetCardinalityFormula(g[0], formula_class=fc)),
        'SubsetCardinalityFormula[equalities]': (['bip'], lambda g, x, fc: c.SubsetCardinalityFormula(g[0], equalities=True, formula_class=fc)),
        'TseitinFormula': (['simple'], lambda g, x, fc: c.TseitinFormula(g[0], formula_class=fc)),
        'TseitinFormula[charges]': (['simple'], lambda g, x, fc: c.TseitinFormula(g[0], charges=x, formula_class=fc)),
        'PerfectMatchingPrinciple': (['simple'], lambda g, x, fc: c.PerfectMatchingPrinciple(g[0], formula_class=fc)),
        'new_graph_edges': (['simple'], lambda g, x, fc: fc().new_graph_edges(g[0])),
        'new_digraph_edges': (['dag'], lambda g, x, fc: fc().new_digraph_edges(g[0])),
        'new_bipartite_edges': (['bip'], lambda g, x, fc: fc().new_bipartite_edges(g[0])),
        'new_sparse_mapping+force': (['bip'], _sparse_mapping),
    }
    return T


def _sparse_mapping(g, x, fc):
    F = fc()
    f = F.new_sparse_mapping(g[0])
    for kind in ('complete', 'functional', 'surjective', 'injective', 'nondecreasing'):
        getattr(F, 'force_{}_mapping'.format(kind))(f)
    return F


def eval_generator(name, gspecs, kind, cls, extra=None):
    """gspecs: list of graph specs (see make_graph); returns (problem or None, exception text or None)"""
    types, fn = generator_table()[name]
    gs = [make_graph(g, kind) for g in gspecs]
    x = SpyList(extra) if extra is not None else None
    before = [xt.snap_graph(G) for G in gs]
    exc = None
    try:
        fn(gs, x, _cls(cls))
    except Exception as e:
        exc = '{}: {}'.format(type(e).__name__, e)
    for i, (G, b) in enumerate(zip(gs, before)):
        d = xt.first_difference(b, xt.snap_graph(G))
        if d:
            return 'graph argument {} changed: {}'.format(i, d), exc
    if extra is not None and list(x) != list(extra):
        return 'list argument {} became {}'.format(extra, list(x)), exc
    return None, exc


def replay_generator(name, gspecs, kind, cls, extra=None):
    return eval_generator(name, gspecs, kind, cls, extra)[0] is None


def eval_pattern(N, M, pattern):
    core.import_repo()
    from cnfgen.graphs import bipartite_shift
    arg = list(pattern)
    try:
        bipartite_shift(N, M, arg)
    except Exception:
        pass
    if arg != list(pattern):
        return 'pattern {} became {}'.format(pattern, arg)
    return None


def replay_pattern(N, M, pattern):
    return eval_pattern(N, M, pattern) is None


def graph_specs(thorough, rng):
    from vlib import enumerate as en
    simple = []
    for n in range(0, 5 if thorough else 4):
        simple += [('simple', n, e) for _, e in en.simple_graphs(n)]
    if not thorough:
        simple += [('simple', 4, e) for e in ([(1, 2), (2, 3), (3, 4), (1, 4)], [(1, 2), (1, 3), (1, 4), (2, 3), (2, 4), (3, 4)],
                                             [(1, 4), (2, 4)], [(2, 3)], [(1, 2), (3, 4)], [(1, 3), (2, 3), (3, 4), (1, 2)])]
    simple.append(('simple', 5, [(5, 1), (4, 2), (3, 5), (1, 2), (2, 3)]))
    dags = []
    for n in range(0, 5 if thorough else 4):
        dags += [('dag', n, e) for _, e in en.dags(n)]
    if not thorough:
        dags += [('dag', 4, e) for e in ([(1, 3), (2, 3), (3, 4)], [(1, 2), (2, 3), (3, 4)], [(1, 4), (2, 4), (3, 4)], [(1, 2), (1, 3), (2, 4), (3, 4)])]
    bips = []
    for L, R in [(0, 0), (1, 1), (2, 2), (2, 3), (3, 2), (0, 2), (2, 0)] + ([(3, 3)] if thorough else []):
        bips += [('bip', L, R, e) for _, _, e in en.bipartite_graphs(L, R)]
    if not thorough:
        for _ in range(20):
            bips.append(('bip', 3, 3, [(u, v) for u in (1, 2, 3) for v in (1, 2, 3) if rng.random() < .6]))
    return simple, dags, bips


def bounded_generators(ctx):
    thorough = ctx.tier == 'thorough'
    rng = random.Random(ctx.seed + 5)
    simple, dags, bips = graph_specs(thorough, rng)
    ctx.bounds['generators'] = ('{} families/variable-group builders taking graphs x simple graphs on <= {} vertices ({}), DAGs ({}), bipartite graphs ({}) '
                                'x given as cnfgen or networkx objects x CNF and OPB; Tseitin charges lists; bipartite_shift patterns: all lists over '
                                '0..3 of length <= 3').format(len(generator_table()), 4 if thorough else 3, len(simple), len(dags), len(bips))
    raised = {}
    evaluated = {}
    for name, (types, fn) in generator_table().items():
        pools = []
        for t in types:
            pools.append({'simple': simple, 'dag': dags, 'bip': bips, 'bipL': None}[t])
        if len(types) == 2 and types[1] == 'simple':
            pairs = [(a, b) for a in simple[::3] for b in simple[1::7]]
        elif len(types) == 2:   # dag + bipartite graph with as many left vertices
            pairs = [(d, ('bip', d[1], 2, [(u, 1 + u % 2) for u in range(1, d[1] + 1)] + ([(1, 2)] if d[1] else []))) for d in dags]
        else:
            pairs = [(a,) for a in pools[0]]
        heavy = name in ('GraphIsomorphism', 'GraphAutomorphism', 'SubgraphFormula', 'SubgraphFormula[induced,symbreak]', 'RamseyWitnessFormula')
        for gsp in pairs:
            if heavy and max(g[1] for g in gsp) > 4:
                continue
            for kind in ('cnfgen', 'nx'):
                if kind == 'nx' and name.startswith('new_'):
                    continue           # the variable-group builders document cnfgen graph objects only
                for cls in ('cnf', 'opb'):
                    if cls == 'opb' and (len(gsp[0][-1]) % 3 != 0):
                        continue       # OPB on a third of the graphs
                    extras = [None]
                    if name == 'TseitinFormula[charges]':
                        n = gsp[0][1]
                        extras = [[], [1] * n, [True, False] * n, [0, 2, 5][:max(n - 1, 0)]]
                    for extra in extras:
                        ctx.case(('generator', name, repr(gsp), kind, cls, repr(extra)), nontrivial=any(len(g[-1]) > 0 for g in gsp))
                        bad, exc = eval_generator(name, [list(g) for g in gsp], kind, cls, extra)
                        evaluated[name] = evaluated.get(name, 0) + 1
                        if exc:
                            raised[name] = raised.get(name, 0) + 1
                        if bad:
                            ctx.violation('generator:{}:{}:argument-changed'.format(name, 'networkx' if kind == 'nx' else 'cnfgen'),
                                          '{}({}, as {}, {}, extra={}): {}'.format(name, gsp, kind, cls, extra, bad),
                                          {'fn': 'checks.C19:replay_generator',
                                           'args': dict(name=name, gspecs=[list(g) for g in gsp], kind=kind, cls=cls, extra=extra)})
    # a generator that refuses a graph (precondition) is not C19's business; families whose every call raised are listed in the
    # evidence (their arguments were still compared before/after)
    never = sorted(name for name, n in evaluated.items() if raised.get(name, 0) == n)
    ctx.section('generators', never_built=never)
    ctx.section('generators', calls=evaluated, calls_that_raised=raised)
    for ln in range(0, 4):
        for pat in itertools.product(range(0, 4), repeat=ln):
            for N, M in ((3, 4), (1, 1)):
                ctx.case(('pattern', N, M, pat), nontrivial=ln > 0)
                bad = eval_pattern(N, M, list(pat))
                if bad:
                    ctx.violation('graph:bipartite_shift:pattern-changed', 'bipartite_shift({}, {}, {}): {}'.format(N, M, list(pat), bad),
                                  {'fn': 'checks.C19:replay_pattern', 'args': dict(N=N, M=M, pattern=list(pat))})
    ctx.sample({'generator': 'SparseStoneFormula', 'graphs': ['dag 1->3,2->3,3->4', 'bipartite 4x2'], 'given as': 'networkx',
                'checked': 'nodes, edges, attributes of both graphs identical after the call'})
    ctx.sample({'function': 'bipartite_shift', 'pattern': [3, 1, 2], 'checked': 'the list is still [3, 1, 2] after the call'})


def run(ctx):
    from checks import proofs
    proofs.run_group(ctx, 'C19')
    only = getattr(ctx, 'only', None)
    state = random.getstate()
    try:
        if not only or 'trans' in only:
            bounded_transformations(ctx)
        if not only or 'chain' in only:
            bounded_chains(ctx)
        if not only or 'build' in only:
            bounded_builders(ctx)
        if not only or 'gen' in only:
            bounded_generators(ctx)
    finally:
        random.setstate(state)
    ctx.assume('snapshots read formulas and graphs through their public interface (iteration, counts, labels, header, neighbour lists), '
               'plus the length/range of the variable groups')
    ctx.assume("the description may be extended by a transformation (Shuffle appends ' (reshuffled)') as long as the original text is kept")
    ctx.assume('a list that is written into and restored before the call returns counts as unchanged (recorded in the evidence, not a violation)')


def replay(ctx, data):
    return generic_replay(data)
