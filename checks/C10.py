"""C10 - every formula mentions only variables it owns, and allocates them freshly.

bounded part: a runtime *ghost monitor* wraps the only insertion points (add_clause / add_constraint of the
base classes, which add_clauses_from and all linear builders go through) and the only allocation point
(VariablesManager._add_variable_group).  Per formula object it records `mentioned` = largest variable
mentioned by any inserted clause/constraint so far; a group that is handed an identifier <= mentioned is a
freshness failure.  While the monitor is on, every family of the catalogue (vlib/x_families.py) is built
through the library (both classes) and the command line tools (cnfgen, pbgen) at small and realistic sizes,
and every transformation chain of length <= 2 through 'cnfgen -T'.  At the end an independent scan of the
returned formula checks that every literal is a non-zero integer with 1 <= |lit| <= number_of_variables()
and that the declared number of variables equals the documented one.
Histories interleaving group creation, clause insertion (checked and unchecked) and update_variable_number
exercise the allocation contract directly.
"""
import itertools
import random
import tempfile

from vlib import core
from vlib import x_families as xf
from vlib.replay import generic_replay

LEVEL = 'exploration'


# ---------------------------------------------------------------------------------
# ghost monitor
# ---------------------------------------------------------------------------------
class Monitor:
    """context manager; .events collects freshness failures as strings"""
    active = None

    def __init__(self):
        self.events = []
        self.formulas = 0
        self.insertions = 0
        self.groups = 0

    def __enter__(self):
        core.import_repo()
        from cnfgen.formula.basecnf import BaseCNF
        from cnfgen.formula.baseopb import BaseOPB
        from cnfgen.formula.variables import VariablesManager
        assert Monitor.active is None
        Monitor.active = self
        mon = self
        self._saved = [(BaseCNF, 'add_clause', BaseCNF.add_clause), (BaseOPB, 'add_clause', BaseOPB.add_clause),
                       (BaseOPB, 'add_constraint', BaseOPB.add_constraint),
                       (VariablesManager, '_add_variable_group', VariablesManager._add_variable_group)]
        orig_cnf_add = BaseCNF.add_clause
        orig_opb_add = BaseOPB.add_clause
        orig_opb_con = BaseOPB.add_constraint
        orig_group = VariablesManager._add_variable_group

        def note(F, lits):
            mon.insertions += 1
            m = 0
            for l in lits:
                if isinstance(l, int) and not isinstance(l, bool):
                    a = -l if l < 0 else l
                    if a > m:
                        m = a
            if m > F.__dict__.get('_verif_mentioned', 0):
                F.__dict__['_verif_mentioned'] = m

        def cnf_add_clause(self, clause, check=True):
            data = list(clause)
            note(self, data)
            return orig_cnf_add(self, data, check=check)

        def opb_add_clause(self, clause, check=True):
            data = list(clause)
            note(self, data)
            return orig_opb_add(self, data, check=check)

        def opb_add_constraint(self, constraint, check=True):
            data = list(constraint)
            try:
                note(self, [t[1] for t in data[:-2]])
            except (TypeError, IndexError):
                pass
            return orig_opb_con(self, data, check=check)

        def add_group(self, vg):
            mon.groups += 1
            F = self._formula
            mentioned = F.__dict__.get('_verif_mentioned', 0)
            if len(vg) > 0 and vg[0] <= mentioned:
                mon.events.append('{} created with identifiers {}..{} although variable {} was already mentioned by a clause'.format(
                    type(vg).__name__, vg[0], vg[-1], mentioned))
            return orig_group(self, vg)

        BaseCNF.add_clause = cnf_add_clause
        BaseOPB.add_clause = opb_add_clause
        BaseOPB.add_constraint = opb_add_constraint
        VariablesManager._add_variable_group = add_group
        return self

    def __exit__(self, *a):
        for cls, name, fn in self._saved:
            setattr(cls, name, fn)
        Monitor.active = None


def scan(F):
    """independent final scan: description of the first bad literal, or None"""
    n = F.number_of_variables()
    if not isinstance(n, int) or isinstance(n, bool) or n < 0:
        return 'number_of_variables() = {!r}'.format(n)
    opb = hasattr(F, 'number_of_constraints')
    for i, row in enumerate(F):
        lits = [t[1] for t in row[:-2]] if opb else row
        for l in lits:
            if not isinstance(l, int) or isinstance(l, bool) or l == 0 or not (1 <= abs(l) <= n):
                return '{} number {} = {} mentions literal {!r} but the formula declares {} variables'.format(
                    'constraint' if opb else 'clause', i, row if len(row) < 12 else row[:12] + ['...'], l, n)
    return None


def _classes():
    core.import_repo()
    from cnfgen.formula.cnf import CNF
    from cnfgen.formula.opb import OPB
    return {'cnf': CNF, 'opb': OPB}


# ---------------------------------------------------------------------------------
# families
# ---------------------------------------------------------------------------------
def eval_entry(entry, via, cls, transformations=(), seed=0):
    """build one catalogue entry with the monitor on.
    via: 'lib' (library call with formula class cls) | 'cli' (cnfgen if cls == 'cnf', pbgen if cls == 'opb')
    returns list of (aspect, description)"""
    core.import_repo()
    problems = []
    random.seed(seed * 7919 + 13)
    with tempfile.TemporaryDirectory(prefix='verif_c10_') as td, Monitor() as mon:
        try:
            if via == 'lib':
                F = xf.library_call(entry, _classes()[cls])
            else:
                argv = xf.concrete_argv(entry, td)
                if cls == 'cnf':
                    from cnfgen.clitools.cnfgen import cli
                    full = ['cnfgen', '-q'] + argv
                    for t in transformations:
                        full += ['-T'] + [str(x) for x in t]
                else:
                    from cnfgen.clitools.pbgen import cli
                    full = ['pbgen', '-q'] + argv
                F = cli(full, mode='formula')
        except AssertionError as e:
            return [('build', 'assertion failed while building: {!r}'.format(e))]
        except Exception as e:
            # input rejected / unrelated crash: no formula was returned, C10 says nothing (C18 owns clean errors)
            return [('skipped', '{}: {}'.format(type(e).__name__, str(e)[:100]))]
        events = list(mon.events)
    for ev in events:
        problems.append(('fresh', ev))
    bad = scan(F)
    if bad:
        problems.append(('owns', bad))
    want = entry['nvars']
    if want is not None:
        for argv_t, fn in [(t, _tfun(t)) for t in transformations]:
            want = fn(want)
        if F.number_of_variables() != want:
            problems.append(('numvar', 'declares {} variables, documentation promises {}'.format(F.number_of_variables(), want)))
    # the formula's own name list has exactly one name per declared variable
    try:
        nlab = sum(1 for _ in F.all_variable_labels())
    except Exception as e:
        nlab = 'raised {}'.format(type(e).__name__)
    if nlab != F.number_of_variables():
        problems.append(('names', 'all_variable_labels() yields {} names for {} variables'.format(nlab, F.number_of_variables())))
    return problems


def _tfun(t):
    for argv_t, fn in xf.TRANSFORMATIONS:
        if [str(x) for x in argv_t] == [str(x) for x in t]:
            return fn
    raise KeyError(t)


def replay_entry(entry, via, cls, transformations=(), seed=0):
    return not [p for p in eval_entry(entry, via, cls, [list(t) for t in transformations], seed) if p[0] != 'skipped']


def _worker(task):
    entry, via, cls, trs, seed = task
    return eval_entry(entry, via, cls, trs, seed)


def _map(tasks):
    import multiprocessing as mp
    import os
    if len(tasks) < 8:
        return [_worker(t) for t in tasks]
    with mp.get_context('fork').Pool(min(12, os.cpu_count() or 2)) as pool:
        return pool.map(_worker, tasks, chunksize=4)


def _report(ctx, tasks, results, label):
    skipped = 0
    sk = ctx.sections.setdefault('refused_builds', {})
    # transformations that already fail when applied alone: a failing chain containing one of them is filed under it
    alone = set()
    for (entry, via, cls, trs, seed), problems in zip(tasks, results):
        if len(trs) == 1:
            for aspect, what in problems:
                if aspect != 'skipped':
                    alone.add((aspect, str(trs[0][0])))
    for (entry, via, cls, trs, seed), problems in zip(tasks, results):
        tkey = '+'.join(str(t[0]) for t in trs)
        ctx.case((label, entry['id'], via, cls, tkey), nontrivial=(entry['nvars'] or 1) > 0)
        for aspect, what in problems:
            if aspect == 'skipped':
                skipped += 1
                sk['{} {} {}'.format(via, cls, ' '.join(map(str, entry['argv'])))] = what
                continue
            if trs:
                culprit = [str(t[0]) for t in trs if (aspect, str(t[0])) in alone]
                key = '{}:transformation:{}'.format(aspect, culprit[0] if culprit else tkey)
            else:
                key = '{}:{}:{}:{}'.format(aspect, entry['family'], via, cls)
            ctx.violation(key, '{} {} {} {} {}: {}'.format(via, cls, ' '.join(map(str, entry['argv'])),
                                                           ('-T ' + ' -T '.join(' '.join(map(str, t)) for t in trs)) if trs else '',
                                                           [(g['type'], g.get('cli') or g['edges']) for g in entry['graphs']] or '', what),
                          {'fn': 'checks.C10:replay_entry', 'args': dict(entry=entry, via=via, cls=cls, transformations=[list(t) for t in trs], seed=seed)})
    return skipped


def bounded_families(ctx):
    thorough = ctx.tier == 'thorough'
    small = xf.small_entries(thorough)
    real = xf.real_entries(thorough)
    tasks = []
    for e in small:
        for cls in ('cnf', 'opb'):
            if e['lib'][0] is not None:
                tasks.append((e, 'lib', cls, [], ctx.seed))
            tasks.append((e, 'cli', cls, [], ctx.seed))
    for e in real:
        for cls in ('cnf', 'opb'):
            tasks.append((e, 'cli', cls, [], ctx.seed))
    res = _map(tasks)
    skipped = _report(ctx, tasks, res, 'family')
    fams = sorted(set(e['family'] for e in small + real))
    ctx.bounds['families'] = ('{} small instances (library with CNF and OPB + cnfgen + pbgen) and {} realistic instances (cnfgen + pbgen; e.g. php 40 30, '
                              'peb pyramid 20, op 25, vdw 60 3 4, kcolor 3 gnp 60 .1, cpls 4 8 4, pitfall 20 4 5 5 4) of the families {}; {} builds refused their input'
                              ).format(len(small), len(real), fams, skipped)
    ctx.section('families', instances_small=len(small), instances_real=len(real), builds=len(tasks), refused=skipped)
    ctx.rule('C10 families: one case = (catalogue instance, library or command line, formula class, transformation chain); the ghost monitor runs during the '
             'build, the returned formula is scanned literal by literal and its variable count compared with the documented closed form; '
             'non-trivial iff the instance has at least one variable')
    ctx.sample({'instance': 'php 40 30', 'via': 'cli', 'class': 'opb', 'documented variables': 1200})
    ctx.sample({'instance': 'pitfall 20 4 5 5 4', 'via': 'cli', 'class': 'cnf', 'documented variables': 392})


def bounded_transformations(ctx):
    thorough = ctx.tier == 'thorough'
    ids = ('php-3-2', 'php-2-2', 'peb-G0:d3m2', 'and-2-1', 'true', 'false', 'or-0-0', 'or-1-1')
    bases = [e for e in xf.small_entries(False) if e['id'] in ids]
    assert len(bases) >= 6, [e['id'] for e in bases]
    # bases have clauses of width <= 2; to keep the blow-up of two nested substitutions bounded, one of the two
    # steps is always "light" (at most two clauses per substituted literal, arity <= 2)
    ts = xf.TRANSFORMATIONS
    name = lambda t: ' '.join(map(str, t[0]))
    light2 = [t for t in ts if name(t) in ('none', 'flip', 'shuffle', 'or 1', 'xor 1', 'or 2', 'xor 2', 'ite', 'lift 2', 'eq 2')]
    light1 = [t for t in ts if name(t) in ('none', 'flip', 'shuffle', 'or 1', 'xor 1')]
    chains = [[t[0]] for t in ts]
    for a_ in ts:
        for b_ in ts:
            if (b_ in light2) or (a_ in light1):
                if thorough or a_ in light2 or b_ in light1 or name(b_) in ('flip', 'shuffle', 'xor 2', 'lift 2'):
                    chains.append([a_[0], b_[0]])
    tasks = []
    for e in bases:
        for ch in chains:
            tasks.append((e, 'cli', 'cnf', [list(t) for t in ch], ctx.seed))
    # bases read from DIMACS files: variables that occur in no clause, an empty clause, no clause at all
    sparse = [e for e in xf.small_entries(False) if e['family'] == 'dimacs']
    assert len(sparse) == 4
    for e in sparse:
        for ch in chains:
            if len(ch) == 1 or (ch[0] in [t[0] for t in light1] and ch[1] in [t[0] for t in light2]):
                tasks.append((e, 'cli', 'cnf', [list(t) for t in ch], ctx.seed))
    res = _map(tasks)
    _report(ctx, tasks, res, 'chain')
    ctx.bounds['transformations'] = 'cnfgen -T chains of length 1 and 2 over {} on the bases {}: {} chains'.format(
        [' '.join(map(str, t[0])) for t in ts], [b['id'] for b in bases], len(tasks))


# ---------------------------------------------------------------------------------
# histories: allocation contract
# ---------------------------------------------------------------------------------
H_OPS = ['clause_checked_up', 'clause_unchecked_inside', 'clause_inside', 'update_up', 'variable', 'block', 'mapping', 'binary_mapping',
         'graph_edges', 'combinations', 'linear_unchecked_inside', 'linear_checked_up', 'empty_group']


def eval_history(cls, ops):
    """ghost model: numvar (declared) and mentioned (largest variable in any inserted clause).
    After each step: a new group must start at an identifier > mentioned and > previous numvar, be contiguous,
    and the declared count must be max(previous, what the operation documents)."""
    core.import_repo()
    from cnfgen.graphs import Graph
    C = _classes()[cls]
    problems = []
    with Monitor() as mon:
        F = C()
        numvar = 0
        mentioned = 0
        for step, op in enumerate(ops):
            try:
                g = None
                if op == 'clause_checked_up':
                    F.add_clause([-(numvar + 2), 1])
                    mentioned = max(mentioned, numvar + 2)
                    numvar += 2
                elif op == 'clause_unchecked_inside':
                    # "check=False trusts the caller": a legal caller mentions declared variables only
                    if numvar >= 1:
                        F.add_clause([numvar, -1] if numvar > 1 else [-1], check=False)
                        mentioned = max(mentioned, numvar)
                elif op == 'linear_unchecked_inside':
                    if numvar >= 2:
                        if cls == 'cnf':
                            F.add_linear([numvar - 1, -numvar], '>=', 1, check=False)
                        else:
                            F.add_constraint([(1, numvar - 1), (2, -numvar), '>=', 1], check=False)
                        mentioned = max(mentioned, numvar)
                elif op == 'linear_checked_up':
                    if cls == 'cnf':
                        F.add_linear([numvar + 1, -(numvar + 3)], '<=', 1)
                    else:
                        F.add_constraint([(2, numvar + 1), (-1, numvar + 3), '<=', 1])
                    mentioned = max(mentioned, numvar + 3)
                    numvar += 3
                elif op == 'clause_inside':
                    F.add_clause([max(numvar, 1) if numvar else 1] if numvar else [])
                    if numvar:
                        mentioned = max(mentioned, numvar)
                elif op == 'update_up':
                    F.update_variable_number(numvar + 2)
                    numvar += 2
                elif op == 'variable':
                    v = F.new_variable('V{}'.format(step))
                    g = [v]
                elif op == 'block':
                    g = list(F.new_block(2, 2))
                elif op == 'empty_group':
                    g = list(F.new_block(3, 0))
                elif op == 'mapping':
                    g = list(F.new_mapping(2, 3))
                elif op == 'binary_mapping':
                    g = list(F.new_binary_mapping(3, 4))
                elif op == 'graph_edges':
                    G = Graph(3)
                    G.add_edge(1, 2)
                    G.add_edge(2, 3)
                    g = list(F.new_graph_edges(G))
                elif op == 'combinations':
                    g = list(F.new_combinations(3, 2))
                else:
                    raise ValueError(op)
            except ValueError as e:
                if g is None and op in ('variable', 'block', 'mapping', 'binary_mapping', 'graph_edges', 'combinations', 'empty_group') and mentioned > numvar:
                    # refusing to allocate over mentioned-but-undeclared variables is a legitimate way to stay fresh
                    continue
                problems.append(('history:raised:' + op, 'after {}: {} raised ValueError: {}'.format(ops[:step], op, e)))
                break
            except Exception as e:
                problems.append(('history:raised:' + op, 'after {}: {} raised {}: {}'.format(ops[:step], op, type(e).__name__, e)))
                break
            if g is not None:
                expected_len = {'variable': 1, 'block': 4, 'empty_group': 0, 'mapping': 6, 'binary_mapping': 6, 'graph_edges': 2, 'combinations': 3}[op]
                if len(g) != expected_len or (g and g != list(range(g[0], g[0] + len(g)))):
                    problems.append(('history:contiguous:' + op, 'after {}: {} got identifiers {}'.format(ops[:step], op, g)))
                    break
                if g:
                    if g[0] <= mentioned:
                        problems.append(('history:fresh:' + op, 'after {} (declared {}, mentioned {}): {} was given identifiers {} although a clause already mentions variable {}'.format(
                            ops[:step], numvar, mentioned, op, g, mentioned)))
                        break
                    if g[0] <= numvar:
                        problems.append(('history:fresh:' + op, 'after {}: {} was given identifiers {} overlapping the {} declared variables'.format(ops[:step], op, g, numvar)))
                        break
                    numvar = max(numvar, g[-1])
            if F.number_of_variables() < numvar or (mentioned <= numvar and F.number_of_variables() != numvar):
                problems.append(('history:count:' + op, 'after {}: number_of_variables() = {} expected {}'.format(ops[:step + 1], F.number_of_variables(), numvar)))
                break
            numvar = max(numvar, F.number_of_variables())
        if not problems:
            for ev in mon.events:
                problems.append(('history:fresh:monitor', '{}: {}'.format(ops, ev)))
            bad = scan(F)
            if bad:
                problems.append(('history:owns', '{}: {}'.format(ops, bad)))
    return problems


def replay_history(cls, ops):
    return not eval_history(cls, ops)


def bounded_histories(ctx):
    thorough = ctx.tier == 'thorough'
    maxlen = 4 if thorough else 3
    n = 0
    for cls in ('cnf', 'opb'):
        for L in range(1, maxlen + 1):
            for ops in itertools.product(H_OPS, repeat=L):
                if L == maxlen and not thorough and not any(o.startswith('clause') or o.startswith('linear') for o in ops):
                    continue
                n += 1
                ctx.case(('history', cls, ops))
                for aspect, what in eval_history(cls, list(ops)):
                    ctx.violation(aspect, cls + ' ' + what, {'fn': 'checks.C10:replay_history', 'args': dict(cls=cls, ops=list(ops))})
    ctx.bounds['histories'] = 'all histories of length <= {} over {} on CNF and OPB ({} histories)'.format(maxlen, H_OPS, n)
    ctx.sample({'history': ['linear_checked_up', 'variable', 'clause_unchecked_inside', 'block'], 'class': 'cnf'})


def eval_reuse(cls, steps):
    """one graph object per kind serves several formulas in a row (and two groups of one formula); every formula built
    on it must mention only its own variables, allocate fresh identifiers, and be the same formula as when built on a
    fresh copy of the graph.  steps: list of step names.  Returns a description of the first problem or None"""
    core.import_repo()
    from cnfgen.graphs import BipartiteGraph, DirectedGraph, Graph
    from cnfgen import GraphPigeonholePrinciple, SubsetCardinalityFormula, SparseStoneFormula, TseitinFormula, PebblingFormula
    C = _classes()[cls]

    def mk():
        B = BipartiteGraph(4, 3)
        for u, v in [(1, 1), (1, 3), (2, 2), (3, 1), (3, 2), (4, 3)]:
            B.add_edge(u, v)
        D = DirectedGraph(4)
        for u, v in [(1, 3), (2, 3), (3, 4)]:
            D.add_edge(u, v)
        G = Graph(4)
        for u, v in [(1, 2), (2, 3), (3, 4), (1, 4)]:
            G.add_edge(u, v)
        return B, D, G

    def build(step, B, D, G):
        if step == 'gphp':
            return GraphPigeonholePrinciple(B, formula_class=C)
        if step == 'subsetcard':
            return SubsetCardinalityFormula(B, formula_class=C)
        if step == 'sparsestone':
            return SparseStoneFormula(D, B, formula_class=C)
        if step == 'tseitin':
            return TseitinFormula(G, formula_class=C)
        if step == 'peb':
            return PebblingFormula(D, formula_class=C)
        if step.startswith('manual'):
            F = C()
            X = F.new_block(2, 2)
            F.add_clause([X(1, 1), -X(2, 2)])
            e1 = F.new_bipartite_edges(B)
            F.add_clause(list(e1(1, None)))
            e2 = F.new_sparse_mapping(B)
            F.add_clause([-l for l in e2(None, 1)])
            g1 = F.new_graph_edges(G)
            F.add_clause(list(g1()))
            d1 = F.new_digraph_edges(D)
            F.add_clause(list(d1()))
            return F
        raise ValueError(step)

    B, D, G = mk()
    for i, step in enumerate(steps):
        with Monitor() as mon:
            F = build(step, B, D, G)
        if mon.events:
            return 'step {} ({}) on reused graph objects: {}'.format(i, step, mon.events[0])
        bad = scan(F)
        if bad:
            return 'step {} ({}) on reused graph objects: {}'.format(i, step, bad)
        Fref = build(step, *mk())
        if F.number_of_variables() != Fref.number_of_variables() or list(F) != list(Fref):
            return 'step {} ({}): the formula differs from the one built on fresh graph objects'.format(i, step)
    return None


def replay_reuse(cls, steps):
    return eval_reuse(cls, steps) is None


def bounded_reuse(ctx):
    import itertools
    names = ['gphp', 'subsetcard', 'sparsestone', 'tseitin', 'peb', 'manual']
    seqs = [list(p) for p in itertools.permutations(names, 2)] + [names, names[::-1], ['manual', 'manual'], ['gphp', 'gphp']]
    ctx.bounds['graph object reuse'] = '{} sequences of formulas built one after the other on the same graph objects, both classes'.format(len(seqs))
    for cls in ('cnf', 'opb'):
        for steps in seqs:
            ctx.case(('reuse', cls, tuple(steps)))
            bad = eval_reuse(cls, steps)
            if bad:
                ctx.violation('reuse:{}'.format(steps[-1] if len(steps) == 2 else 'chain'), '{} {}: {}'.format(cls, steps, bad),
                              {'fn': 'checks.C10:replay_reuse', 'args': dict(cls=cls, steps=steps)})
    ctx.sample({'graph object reuse': ['gphp', 'sparsestone'], 'class': 'opb'})


def _bits(m):
    b = 0
    while (1 << b) < m:
        b += 1
    return b


def eval_boundary(cls, what, a, b, pre=0):
    """boundary sizes (0 and 1) of binary mappings and the families built on them: the documented variable count
    n * ceil(log2 m) (no bit for an empty or singleton range) and WF"""
    core.import_repo()
    C = _classes()[cls]
    from cnfgen import BinaryPigeonholePrinciple, BinaryCliqueFormula
    from cnfgen.graphs import Graph
    try:
        if what == 'new_binary_mapping':
            F = C()
            F.update_variable_number(pre)
            g = list(F.new_binary_mapping(a, b))
            if len(g) != a * _bits(b) or g != list(range(pre + 1, pre + 1 + len(g))):
                return 'new_binary_mapping({},{}) after {} variables got identifiers {} (documented: {} fresh consecutive ones)'.format(a, b, pre, g, a * _bits(b))
            want = pre + a * _bits(b)
        elif what == 'bphp':
            F = BinaryPigeonholePrinciple(a, b, formula_class=C)
            want = a * _bits(b)
        else:
            F = BinaryCliqueFormula(Graph(a), b, formula_class=C)
            want = b * _bits(a)
    except Exception as e:
        return '{}({},{}) raised {}: {}'.format(what, a, b, type(e).__name__, e)
    if F.number_of_variables() != want:
        return '{}({},{}) declares {} variables, documented {}'.format(what, a, b, F.number_of_variables(), want)
    return scan(F)


def replay_boundary(cls, what, a, b, pre=0):
    return eval_boundary(cls, what, a, b, pre) is None


def bounded_boundary(ctx):
    n = 0
    for cls in ('cnf', 'opb'):
        for what in ('new_binary_mapping', 'bphp', 'kcliquebin'):
            for a in range(0, 4):
                for b in range(0, 6):
                    for pre in ((0, 3) if what == 'new_binary_mapping' else (0,)):
                        n += 1
                        ctx.case(('boundary', cls, what, a, b, pre), nontrivial=True)
                        bad = eval_boundary(cls, what, a, b, pre)
                        if bad:
                            ctx.violation('boundary:{}:{}'.format(what, 'zero' if 0 in (a, b) else 'count'), '{} {}'.format(cls, bad),
                                          {'fn': 'checks.C10:replay_boundary', 'args': dict(cls=cls, what=what, a=a, b=b, pre=pre)})
    ctx.bounds['boundary sizes'] = '{} calls of new_binary_mapping / BinaryPigeonholePrinciple / BinaryCliqueFormula with sizes 0..5 incl. empty domain and range'.format(n)


def run(ctx):
    from checks import proofs
    proofs.run_group(ctx, 'C10')
    core.import_repo()
    bounded_boundary(ctx)
    bounded_reuse(ctx)
    bounded_families(ctx)
    bounded_transformations(ctx)
    bounded_histories(ctx)
    ctx.assume('C10: add_clause / add_constraint of BaseCNF and BaseOPB are the only insertion points and _add_variable_group the only allocation point '
               '(checked by reading: no other code appends to _clauses/_constraints); the monitor wraps exactly these')
    ctx.assume('C10: documented variable counts are the closed forms written in vlib/x_families.py from the docstrings of the families')


def replay(ctx, data):
    return generic_replay(data)
