"""C15 - graph constructions on the command line deliver the structure they name.

bounded part (this file)
  library : make_graph_from_spec(type, tokens) for every construction with numeric arguments at, inside
            and just outside the documented range, modifiers (plantclique / plantbiclique / addedges /
            splitedges) alone and combined, `save` in every format; 30 seeds (thorough 300);
  scripted: the cnfgen-native samplers (glrp glrm glrd regular, t-partite gnp, the modifiers) under a
            scripted random module (vlib/x_scripted_random.py): every outcome prefix of length <= D
            followed by the tails low / high / random, which drives the retry loops into their
            exhausted / dense-fallback branches deterministically;
  cli     : cnfgen kcolor 1 <simple> | php <bipartite> | peb <dag>  (in process), the graph decoded from
            the formula must be the one `save` wrote, refusals must be CLIError.
Oracle: vlib/x_graphspec_oracle.py (named graphs from their definitions, predicates, strict readers of
the saved files) - independent of cnfgen; isomorphism by networkx VF2.
Verdict per case: 'accept' (documented legal request: a graph with the structure, no exception),
'refuse' (request that cannot be met / outside the documented range: ValueError resp. CLIError and nothing
else), 'either' (not determined by the documentation: only "ValueError or a graph of the right shape").
"""
import contextlib
import itertools
import math
import multiprocessing
import os
import random
import tempfile

from vlib import core
from vlib.replay import generic_replay
from vlib.x_scripted_random import scripted_random, DrawBudgetExceeded, explore
from vlib import x_graphspec_oracle as orc

LEVEL = 'exploration'
TMP = '{tmp}'


# ------------------------------------------------------------------ observation of cnfgen graphs
def extract(G, gt):
    """cnfgen graph object -> (plain dict, problem or None) through the public API only"""
    try:
        if gt == 'bipartite':
            if not G.is_bipartite():
                return None, 'not a bipartite graph object'
            L, R = G.left_order(), G.right_order()
            E = [tuple(e) for e in G.edges()]
            g = {'t': 'bipartite', 'L': L, 'R': R, 'E': set(E)}
            if any(not (1 <= u <= L and 1 <= v <= R) for u, v in E):
                return g, 'edge outside the vertex ranges: {}'.format(E)
            if G.number_of_vertices() != L + R:
                return g, 'number_of_vertices() = {} with sides ({},{})'.format(G.number_of_vertices(), L, R)
        else:
            directed = gt in ('dag', 'digraph')
            if G.is_bipartite() or bool(G.is_directed()) != directed:
                return None, 'graph object of the wrong kind for type {}'.format(gt)
            n = G.number_of_vertices()
            E = [tuple(e) for e in G.edges()]
            if any(not (1 <= u <= n and 1 <= v <= n) for u, v in E):
                return None, 'edge outside 1..{}: {}'.format(n, E)
            if directed:
                g = {'t': 'dag', 'n': n, 'E': set(E), 'is_dag': bool(G.is_dag())}
            else:
                if any(u == v for u, v in E):
                    return None, 'self loop in {}'.format(E)
                g = {'t': 'simple', 'n': n, 'E': {(min(u, v), max(u, v)) for u, v in E}}
        if len(E) != len(g['E']) or G.number_of_edges() != len(E):
            return g, 'edges() lists {} pairs, {} distinct, number_of_edges() = {}'.format(len(E), len(g['E']), G.number_of_edges())
        return g, None
    except AttributeError as e:
        return None, 'not a graph object of type {}: {}'.format(gt, e)


def _run(gt, spec, mode, tmp=None):
    """(status, value, trace): 'ok' graph | 'raised' exception | 'budget'"""
    core.import_repo()
    from cnfgen.clitools.graph_args import make_graph_from_spec
    spec = [s.replace(TMP, tmp) if tmp else s for s in spec]
    if 'seed' in mode:
        random.seed(mode['seed'])
        try:
            return 'ok', make_graph_from_spec(gt, spec), []
        except Exception as e:
            return 'raised', e, []
    with scripted_random(mode['script'], mode['tail'], mode.get('tail_seed', 0)) as rng:
        try:
            return 'ok', make_graph_from_spec(gt, spec), rng.trace
        except DrawBudgetExceeded:
            return 'budget', None, rng.trace
        except Exception as e:
            return 'raised', e, rng.trace


def _mode_str(mode):
    return 'seed={}'.format(mode['seed']) if 'seed' in mode else 'script={} tail={}'.format(mode['script'], mode['tail'])


def _jsonable(g):
    d = dict(g)
    d['E'] = sorted(g['E'])
    return d


# ------------------------------------------------------------------ one case
def eval_spec(gt, spec, expect, feat, preds=(), mods=None, save=None, mode=None):
    """gt: graph type; spec: tokens; expect: accept/refuse/either; feat: key prefix;
    preds: predicates on the result; mods: {'base': tokens, 'plant':..,'add':..,'split':..} relation to the
    base graph built under the same random outcomes; save: [format, file name] to read back.
    returns ((key, what) or None, trace)"""
    mode = mode or {'seed': 0}
    where = "{} '{}' [{}]".format(gt, ' '.join(spec), _mode_str(mode))
    with (tempfile.TemporaryDirectory(prefix='c15_') if any(TMP in t for t in spec) else contextlib.nullcontext()) as tmp:
        status, val, trace = _run(gt, spec, mode, tmp)
        if status == 'budget':
            return None, trace
        if status == 'raised':
            if not isinstance(val, ValueError):
                return (feat + ':wrong-exception:' + type(val).__name__,
                        '{}: {}: {} (expected: {})'.format(where, type(val).__name__, val, expect)), trace
            if expect == 'accept':
                return (feat + ':refuses-legal-request', '{}: ValueError: {}'.format(where, str(val)[:200])), trace
            return None, trace
        if expect == 'refuse':
            g, _ = extract(val, gt)
            return (feat + ':not-refused', '{}: a graph was returned ({})'.format(where, _jsonable(g) if g else val)), trace
        g, problem = extract(val, gt)
        if problem:
            return (feat + ':graph-object', '{}: {}'.format(where, problem)), trace
        if not isinstance(getattr(val, 'name', None), str):
            return (feat + ':graph-object', '{}: the graph has no name'.format(where)), trace
        for p in preds:
            bad = orc.check_pred(g, p)
            if bad:
                return ('{}:{}'.format(feat, p[0]), '{}: {}'.format(where, bad)), trace
        if save:
            fmt, fname = save
            path = os.path.join(tmp, fname)
            if not os.path.exists(path):
                return (feat + ':save:no-file', '{}: nothing was written'.format(where)), trace
            text = open(path).read()
            try:
                h = orc.read_saved(text, 'dag' if gt == 'digraph' else gt, fmt)
            except (orc.BadFile, ValueError, AttributeError, IndexError) as e:
                return ('{}:save:{}:unreadable'.format(feat, fmt), '{}: saved file is not a {} file: {}\n{}'.format(where, fmt, e, text[:300])), trace
            same = all(h.get(k) == g.get(k) for k in ('n', 'L', 'R', 'E'))
            if not same:
                return ('{}:save:{}:differs'.format(feat, fmt), '{}: saved {} but returned {}'.format(where, _jsonable(h), _jsonable(g))), trace
    if mods:
        b1 = _run(gt, mods['base'], mode)
        b2 = _run(gt, mods['base'], mode)
        if b1[0] == 'ok' and b2[0] == 'ok':
            base, p1 = extract(b1[1], gt)
            base2, p2 = extract(b2[1], gt)
            if not p1 and not p2 and base == base2:     # same outcomes, same base: the relation is observable
                if gt == 'simple':
                    bad = orc.check_simple_mods(g, base, mods.get('plant'), mods.get('add'), mods.get('split'))
                else:
                    bad = orc.check_bipartite_mods(g, base, mods.get('plant'), mods.get('add'))
                if bad:
                    return ('{}:{}'.format(feat, bad[0]), '{}: {} (base {})'.format(where, bad[1], _jsonable(base))), trace
    return None, trace


def replay_spec(gt, spec, expect, feat, preds=(), mods=None, save=None, mode=None):
    if mods and mods.get('plant') is not None and isinstance(mods['plant'], list):
        mods = dict(mods, plant=tuple(mods['plant']))
    return eval_spec(gt, spec, expect, feat, preds, mods, save, mode)[0] is None


# ------------------------------------------------------------------ case generators
def T(*xs):
    return [str(x) for x in xs]


def case(gt, spec, expect, feat, preds=(), mods=None, save=None, rnd=False, script=False):
    return {'gt': gt, 'spec': spec, 'expect': expect, 'feat': feat, 'preds': [list(p) for p in preds],
            'mods': mods, 'save': save, 'rnd': rnd, 'script': script}


def _C2(k):
    return k * (k - 1) // 2


def simple_cases(thorough):
    out = []
    N = 7 if thorough else 6
    # gnp N p [t]
    for n in range(-1, 6):
        for p in ('0', '0.5', '1', '.3', '1.0', '-0.1', '1.5'):
            for t in (None, 1, 2, 3, 0, -1):
                if t is not None and n > 3:
                    continue
                spec = T('gnp', n, p) + ([] if t is None else T(t))
                ok = n > 0 and 0 <= float(p) <= 1 and (t is None or t > 0)
                tt = t or 1
                preds = [('order', n * tt)]
                if tt > 1:
                    preds.append(('balanced_multipartite', n, tt))
                if float(p) == 0:
                    preds.append(('edges', 0))
                if float(p) == 1:
                    preds.append(('iso', 'multipartite', [n, tt]) if tt > 1 else ('edges', _C2(n)))
                out.append(case('simple', spec, 'accept' if ok else 'refuse', 'gnp', preds if ok else (),
                                rnd=ok, script=ok and tt > 1 and n <= 2))
    out.append(case('simple', T('gnp', 4), 'refuse', 'gnp'))
    out.append(case('simple', T('gnp', 4, .5, 2, 2), 'refuse', 'gnp'))
    out.append(case('simple', T('gnp', 2.5, .5), 'either', 'gnp', [('order', 2)]))
    # gnm N m
    for n in range(-1, N + 1):
        mx = _C2(n) if n > 0 else 0
        for m in sorted(set([-1, 0, 1, 2, mx // 2, mx - 1, mx, mx + 1, mx + 5])):
            ok = n > 0 and 0 <= m <= mx
            out.append(case('simple', T('gnm', n, m), 'accept' if ok else 'refuse', 'gnm',
                            [('order', n), ('edges', m)] if ok else (), rnd=ok))
    out.append(case('simple', T('gnm', 4), 'refuse', 'gnm'))
    out.append(case('simple', T('gnm', 4, 2, 1), 'refuse', 'gnm'))
    out.append(case('simple', T('gnm', 4, 2.5), 'either', 'gnm', [('order', 4)]))
    # gnd N d : a d-regular graph on N vertices exists iff d <= N-1 and N*d even
    for n in range(-1, N + 2):
        for d in range(-1, n + 3):
            possible = n > 0 and 0 <= d <= n - 1 and (n * d) % 2 == 0
            if possible and d == 0:
                exp = 'either'        # documented range is d > 0; the 0-regular graph exists
            else:
                exp = 'accept' if possible else 'refuse'
            out.append(case('simple', T('gnd', n, d), exp, 'gnd', [('order', n), ('regular', d)] if possible else (), rnd=possible))
    out.append(case('simple', T('gnd', 4), 'refuse', 'gnd'))
    out.append(case('simple', T('gnd', 4, 2, 2), 'refuse', 'gnd'))
    # grid / torus
    dimlists = [[a] for a in range(1, 6)] + [list(t) for t in itertools.product(range(1, 5), repeat=2)] \
        + [list(t) for t in itertools.product(range(1, 4 if thorough else 3), repeat=3)] + [[2, 3, 4], [3, 3, 3], [2, 2, 2, 2]]
    for dims in dimlists:
        out.append(case('simple', T('grid', *dims), 'accept', 'grid', [('order', math.prod(dims)), ('iso', 'grid', dims)]))
        degenerate = any(d == 1 for d in dims)
        out.append(case('simple', T('torus', *dims), 'either' if degenerate else 'accept', 'torus',
                        [('order', math.prod(dims)), ('iso', 'torus', dims)]))
    for name in ('grid', 'torus'):
        for dims in ([0], [2, 0], [-1], [3, -2], [2, 1.5]):
            out.append(case('simple', T(name, *dims), 'refuse', name))
        out.append(case('simple', T(name), 'either', name))
    # complete N [B], empty N
    for n in range(-1, 5):
        out.append(case('simple', T('complete', n), 'accept' if n > 0 else 'refuse', 'complete',
                        [('order', n), ('edges', _C2(n))] if n > 0 else ()))
        out.append(case('simple', T('empty', n), 'accept' if n > 0 else 'refuse', 'empty',
                        [('order', n), ('edges', 0)] if n > 0 else ()))
        for b in range(-1, 4):
            ok = n > 0 and b > 0
            out.append(case('simple', T('complete', n, b), 'accept' if ok else 'refuse', 'complete',
                            [('order', n * b), ('iso', 'multipartite', [n, b])] if ok else ()))
    out.append(case('simple', T('complete'), 'refuse', 'complete'))
    out.append(case('simple', T('complete', 2, 2, 2), 'refuse', 'complete'))
    out.append(case('simple', T('empty'), 'refuse', 'empty'))
    out.append(case('simple', T('empty', 3, 1), 'refuse', 'empty'))
    # constructions of other graph types, unknown words, doubled options
    for spec in (T('glrm', 3, 3, 2), T('path', 3), T('pyramid', 2), T('shift', 3, 3, 1)):
        out.append(case('simple', spec, 'refuse', 'parse'))
    out.append(case('simple', T('gnm', 4, 2, 'gnp', 3, .5), 'refuse', 'parse'))
    out.append(case('simple', T('gnm', 4, 2, 'addedges', 1, 'addedges', 1), 'refuse', 'parse'))
    out.append(case('simple', T('gnm', 4, 2, 'plantbiclique', 1, 1), 'refuse', 'parse'))
    out.append(case('simple', T('gnm', 4, 2, '--foo'), 'refuse', 'parse'))
    out.append(case('simple', T('gnm', 4, 2, 'save'), 'refuse', 'parse'))
    out.append(case('simple', T('gnm', 4, 2, 'save', 'kthlist'), 'refuse', 'parse'))
    out.append(case('simple', T('gnm', 4, 2, 'save', 'matrix', TMP + '/g.matrix'), 'refuse', 'parse'))
    out.append(case('simple', [], 'refuse', 'parse'))
    return out


def _bounds_after(lo, hi, mx, extra):
    return max(lo, extra), min(mx, hi + extra)


def simple_modifier_cases(thorough):
    """base + plantclique k + addedges m + splitedges s (canonical order = order of application)"""
    out = []
    bases = [(T('empty', 1), 1, 0, 0, False), (T('empty', 4), 4, 0, 0, False), (T('complete', 3), 3, 3, 3, False),
             (T('complete', 4), 4, 6, 6, False), (T('grid', 2, 3), 6, 7, 7, False), (T('gnm', 5, 4), 5, 4, 4, True),
             (T('gnm', 4, 6), 4, 6, 6, True), (T('gnp', 5, .5), 5, 0, 10, True), (T('gnd', 6, 3), 6, 9, 9, True)]
    if thorough:
        bases += [(T('empty', 6), 6, 0, 0, False), (T('torus', 3, 3), 9, 18, 18, False), (T('gnm', 7, 10), 7, 10, 10, True)]
    for base, n, lo0, hi0, rnd in bases:
        mx = _C2(n)
        ks = [None, 0, 1, 2, 3, n, n + 1, -1]
        for k in ks:
            adds = [None, 0, 1, 2, mx - hi0, mx - lo0, mx - lo0 + 1, -1]
            if k is not None:
                adds = [None, 0, 1, mx - hi0 - _C2(max(k, 0)), mx - lo0 + 1]
            for m in sorted(set(a for a in adds if a is None or a >= -1), key=lambda x: (x is not None, x)):
                splits = [None, 0, 1, 2, -1] if (k is None or m is None) else [None, 1]
                splits += [lo0 + (m or 0), hi0 + (m or 0) + _C2(max(k or 0, 0)) + 1]
                for s in sorted(set(splits), key=lambda x: (x is not None, x)):
                    if k is None and m is None and s is None:
                        continue
                    spec = list(base)
                    lo, hi = lo0, hi0
                    verdicts = []
                    if k is not None:
                        spec += T('plantclique', k)
                        if 0 <= k <= n:
                            lo, hi = _bounds_after(lo, hi, mx, _C2(k))
                            verdicts.append('accept')
                        else:
                            verdicts.append('refuse')
                    if m is not None:
                        spec += T('addedges', m)
                        if m < 0 or lo + m > mx:
                            verdicts.append('refuse')
                        elif hi + m <= mx:
                            verdicts.append('accept')
                            lo, hi = lo + m, hi + m
                        else:
                            verdicts.append('either')
                            lo, hi = lo + m, mx
                    if s is not None:
                        spec += T('splitedges', s)
                        if s < 0 or s > hi:
                            verdicts.append('refuse')
                        elif s <= lo:
                            verdicts.append('accept')
                        else:
                            verdicts.append('either')
                    exp = 'refuse' if 'refuse' in verdicts else 'either' if 'either' in verdicts else 'accept'
                    feat = '+'.join(x for x, y in (('plantclique', k), ('addedges', m), ('splitedges', s)) if y is not None)
                    preds = [('order', n + (s or 0))]
                    if k is not None and exp != 'refuse' and s is None:
                        preds.append(('has_clique', k))
                    mods = {'base': list(base), 'plant': k, 'add': m, 'split': s}
                    small = n <= 4 and (k or 0) <= 3 and (m or 0) <= 3 and (s or 0) <= 3
                    out.append(case('simple', spec, exp, feat, preds if exp != 'refuse' else (), mods if exp != 'refuse' else None,
                                    rnd=True, script=small and not rnd and exp != 'refuse'))
    # malformed option arguments
    for opt in ('plantclique', 'addedges', 'splitedges'):
        out.append(case('simple', T('empty', 4, opt), 'refuse', opt))
        out.append(case('simple', T('empty', 4, opt, 1, 1), 'refuse', opt))
        out.append(case('simple', T('complete', 4, opt, 1.5), 'either', opt, [('order', 4)]))
    return out


def bipartite_cases(thorough):
    out = []
    M = 5 if thorough else 4
    for L in range(0, 4):
        for R in range(0, 4):
            ok0 = L > 0 and R > 0
            for p in ('0', '1', '0.5', '1.5', '-1'):
                ok = ok0 and 0 <= float(p) <= 1
                preds = [('parts', L, R)]
                if float(p) == 0:
                    preds.append(('edges', 0))
                if float(p) == 1:
                    preds.append(('edges', L * R))
                out.append(case('bipartite', T('glrp', L, R, p), 'accept' if ok else 'refuse', 'glrp', preds if ok else (),
                                rnd=ok, script=ok and L * R <= 4))
            out.append(case('bipartite', T('complete', L, R), 'accept' if ok0 else 'refuse', 'complete',
                            [('parts', L, R), ('edges', L * R)] if ok0 else ()))
            out.append(case('bipartite', T('empty', L, R), 'accept' if ok0 else 'refuse', 'empty',
                            [('parts', L, R), ('edges', 0)] if ok0 else ()))
    for L in range(0, M + 1):
        for R in range(0, M + 1):
            ok0 = L > 0 and R > 0
            for m in range(-1, L * R + 2):
                ok = ok0 and 0 <= m <= L * R
                out.append(case('bipartite', T('glrm', L, R, m), 'accept' if ok else 'refuse', 'glrm',
                                [('parts', L, R), ('edges', m)] if ok else (), rnd=ok, script=ok and L * R <= 6))
            for d in range(-1, R + 2):
                ok = ok0 and 0 <= d <= R
                out.append(case('bipartite', T('glrd', L, R, d), 'accept' if ok else 'refuse', 'glrd',
                                [('parts', L, R), ('left_regular', d), ('edges', L * d)] if ok else (), rnd=ok, script=ok and L * R <= 6))
                ok = ok0 and 0 <= d <= R and (L * d) % R == 0
                out.append(case('bipartite', T('regular', L, R, d), 'accept' if ok else 'refuse', 'regular',
                                [('parts', L, R), ('left_regular', d), ('right_regular', L * d // R if ok else 0), ('edges', L * d)] if ok else (),
                                rnd=ok, script=ok and L * d <= 6))
    for name in ('glrp', 'glrm', 'glrd', 'regular'):
        out.append(case('bipartite', T(name, 3, 3), 'refuse', name))
        out.append(case('bipartite', T(name, 3, 3, 1, 1), 'refuse', name))
    for name in ('complete', 'empty'):
        out.append(case('bipartite', T(name, 3), 'refuse', name))
        out.append(case('bipartite', T(name, 3, 3, 1), 'refuse', name))
    # shift L R v1 v2 ... : left i joined to i+v (wrapping over 1..R); offsets distinct, in 0..R
    for L, R in ((1, 1), (2, 3), (3, 2), (3, 4), (4, 4), (5, 3)):
        pats = [[]] + [[v] for v in range(0, R + 1)] + [list(c) for c in itertools.combinations(range(0, R + 1), 2)]
        pats += [[2, 0, 1][:R + 1], list(range(R, -1, -1))]
        for pat in pats:
            if len(set(pat)) != len(pat) or any(v > R for v in pat):
                continue
            E = sorted({(u, 1 + (u - 1 + v) % R) for u in range(1, L + 1) for v in pat})
            out.append(case('bipartite', T('shift', L, R, *pat), 'accept', 'shift', [('parts', L, R), ('equals', E)]))
        for pat in ([R + 1], [-1], [1, 1], [0, R + 1]):
            out.append(case('bipartite', T('shift', L, R, *pat), 'refuse', 'shift'))
    for spec in (T('shift', 3), T('shift'), T('shift', 0, 3, 1), T('shift', 3, 0), T('shift', -1, 3)):
        out.append(case('bipartite', spec, 'refuse', 'shift'))
    for spec in (T('gnm', 4, 2), T('tree', 2), T('grid', 2, 2)):
        out.append(case('bipartite', spec, 'refuse', 'parse'))
    out.append(case('bipartite', T('empty', 2, 2, 'splitedges', 0), 'refuse', 'parse'))
    out.append(case('bipartite', T('empty', 2, 2, 'plantclique', 1), 'refuse', 'parse'))
    out.append(case('bipartite', T('empty', 2, 2, 'save', 'dimacs', TMP + '/g.dimacs'), 'refuse', 'parse'))
    return out


def bipartite_modifier_cases(thorough):
    out = []
    bases = [(T('empty', 2, 3), 2, 3, 0, 0, False), (T('complete', 2, 2), 2, 2, 4, 4, False), (T('shift', 3, 3, 0), 3, 3, 3, 3, False),
             (T('glrd', 3, 3, 1), 3, 3, 3, 3, True), (T('glrm', 3, 4, 3), 3, 4, 3, 3, True), (T('glrp', 2, 3, .5), 2, 3, 0, 6, True),
             (T('regular', 2, 2, 1), 2, 2, 2, 2, True), (T('empty', 1, 1), 1, 1, 0, 0, False)]
    if thorough:
        bases += [(T('empty', 3, 4), 3, 4, 0, 0, False), (T('glrd', 4, 4, 2), 4, 4, 8, 8, True)]
    for base, L, R, lo0, hi0, rnd in bases:
        mx = L * R
        plants = [None, (0, 0), (1, 1), (L, R), (2, 1), (0, R), (L + 1, 1), (1, R + 1), (-1, 1)]
        for pl in plants:
            adds = [None, 0, 1, 2, mx - hi0, mx - lo0, mx - lo0 + 1, -1]
            if pl is not None:
                adds = [None, 0, 1, mx - hi0 - max(pl[0], 0) * max(pl[1], 0), mx - lo0 + 1]
            for m in sorted(set(a for a in adds if a is None or a >= -1), key=lambda x: (x is not None, x)):
                if pl is None and m is None:
                    continue
                spec = list(base)
                lo, hi = lo0, hi0
                verdicts = []
                if pl is not None:
                    spec += T('plantbiclique', *pl)
                    if 0 <= pl[0] <= L and 0 <= pl[1] <= R:
                        lo, hi = _bounds_after(lo, hi, mx, pl[0] * pl[1])
                        verdicts.append('accept')
                    else:
                        verdicts.append('refuse')
                if m is not None:
                    spec += T('addedges', m)
                    if m < 0 or lo + m > mx:
                        verdicts.append('refuse')
                    elif hi + m <= mx:
                        verdicts.append('accept')
                    else:
                        verdicts.append('either')
                exp = 'refuse' if 'refuse' in verdicts else 'either' if 'either' in verdicts else 'accept'
                feat = '+'.join(x for x, y in (('plantbiclique', pl), ('addedges', m)) if y is not None)
                preds = [('parts', L, R)]
                if pl is not None and exp != 'refuse':
                    preds.append(('has_biclique', pl[0], pl[1]))
                mods = {'base': list(base), 'plant': pl, 'add': m}
                out.append(case('bipartite', spec, exp, feat, preds if exp != 'refuse' else (), mods if exp != 'refuse' else None,
                                rnd=True, script=not rnd and exp != 'refuse' and (m or 0) <= 4))
    for opt in ('plantbiclique', 'addedges'):
        out.append(case('bipartite', T('empty', 3, 3, opt), 'refuse', opt))
        out.append(case('bipartite', T('empty', 3, 3, opt, 1, 1, 1), 'refuse', opt))
    out.append(case('bipartite', T('empty', 3, 3, 'plantbiclique', 2), 'refuse', 'plantbiclique'))
    return out


def dag_cases(thorough):
    out = []
    for gt in ('dag', 'digraph'):
        for l in range(-1, 9 if thorough else 6):
            ok = l >= 0
            out.append(case(gt, T('path', l), 'accept' if ok else 'refuse', 'path',
                            [('order', l + 1), ('edges', l), ('acyclic',), ('is_dag',), ('iso', 'path', [l]), ('sources', 1), ('sink_last',)] if ok else ()))
        for h in range(-1, 7 if thorough else 5):
            ok = h >= 0
            out.append(case(gt, T('tree', h), 'accept' if ok else 'refuse', 'tree',
                            [('order', 2 ** (h + 1) - 1), ('edges', 2 ** (h + 1) - 2), ('acyclic',), ('is_dag',), ('iso', 'tree', [h]),
                             ('sources', 2 ** h), ('sink_last',)] if ok else ()))
        for h in range(-1, 10 if thorough else 6):
            ok = h >= 0
            out.append(case(gt, T('pyramid', h), 'accept' if ok else 'refuse', 'pyramid',
                            [('order', (h + 1) * (h + 2) // 2), ('edges', h * (h + 1)), ('acyclic',), ('is_dag',), ('iso', 'pyramid', [h]),
                             ('sources', h + 1), ('sink_last',)] if ok else ()))
        for name in ('path', 'tree', 'pyramid'):
            out.append(case(gt, T(name), 'refuse', name))
            out.append(case(gt, T(name, 2, 2), 'refuse', name))
            out.append(case(gt, T(name, 1.5), 'either', name))
            out.append(case(gt, T(name, 2, 'addedges', 1), 'refuse', 'parse'))
            out.append(case(gt, T(name, 2, 'plantclique', 1), 'refuse', 'parse'))
        out.append(case(gt, T('gnp', 3, .5), 'refuse', 'parse'))
        out.append(case(gt, T('complete', 3), 'refuse', 'parse'))
    return out


SAVE_FORMATS = {'simple': ['kthlist', 'gml', 'dot', 'dimacs'], 'dag': ['kthlist', 'gml', 'dot', 'dimacs'],
                'digraph': ['kthlist', 'gml', 'dot', 'dimacs'], 'bipartite': ['kthlist', 'gml', 'dot', 'matrix']}


def save_cases(thorough):
    """`save` comes last: the file must hold the graph that is returned (after all modifiers)"""
    out = []
    specs = {'simple': [T('gnm', 5, 4), T('empty', 3), T('complete', 1), T('grid', 2, 2, 'plantclique', 3),
                        T('gnm', 5, 4, 'addedges', 2), T('complete', 4, 'splitedges', 2),
                        T('empty', 5, 'plantclique', 3, 'addedges', 2, 'splitedges', 2)],
             'bipartite': [T('glrd', 3, 4, 2), T('empty', 2, 2), T('complete', 2, 3), T('glrm', 4, 4, 3, 'addedges', 2),
                           T('empty', 3, 3, 'plantbiclique', 2, 2, 'addedges', 1), T('shift', 3, 4, 0, 2)],
             'dag': [T('path', 0), T('path', 3), T('tree', 2), T('pyramid', 3)],
             'digraph': [T('pyramid', 2), T('tree', 1)]}
    for gt, lst in specs.items():
        for spec in lst:
            for fmt in SAVE_FORMATS[gt]:
                for explicit in (True, False):
                    fname = 'g.' + fmt if not explicit else 'saved_graph.txt'
                    tail = ['save', fmt, TMP + '/' + fname] if explicit else ['save', TMP + '/' + fname]
                    rnd = spec[0] in ('gnm', 'gnp', 'glrd', 'glrm') or len(spec) > 4
                    out.append(case(gt, spec + tail, 'accept', 'save', [], None, [fmt, fname], rnd=rnd))
        out.append(case(gt, lst[0] + ['save', TMP + '/g.unknownext'], 'refuse', 'save'))
        out.append(case(gt, lst[0] + ['save', SAVE_FORMATS[gt][0], TMP + '/g.x', 'save', TMP + '/h.kthlist'], 'refuse', 'save'))
    return out


def all_cases(thorough):
    return (simple_cases(thorough) + simple_modifier_cases(thorough) + bipartite_cases(thorough)
            + bipartite_modifier_cases(thorough) + dag_cases(thorough) + save_cases(thorough))


# ------------------------------------------------------------------ command line
def decode_formula(F, gt):
    """graph read off the formula (documented encodings, labels through the public API)"""
    labels = list(F.all_variable_labels())
    clauses = [list(c) for c in F]
    if gt == 'simple':          # kcolor 1: x_{v1} per vertex; clause (x_v); (-x_u v -x_v) per edge
        n = len(labels)
        vert = {}
        for i, lab in enumerate(labels, 1):
            if not (lab.startswith('x_{') and lab.endswith('1}')):
                raise orc.BadFile('unexpected variable ' + lab)
            vert[i] = int(lab[3:-2])
        E = set()
        for c in clauses:
            if len(c) == 2 and c[0] < 0 and c[1] < 0:
                u, v = vert[-c[0]], vert[-c[1]]
                E.add((min(u, v), max(u, v)))
            elif not (len(c) == 1 and c[0] > 0):
                raise orc.BadFile('unexpected clause {}'.format(c))
        return {'t': 'simple', 'n': n, 'E': E}
    if gt == 'dag':             # peb: x(v); (-p1 ... -pk v) for every vertex with predecessors p; (-sink)
        n = len(labels)
        vert = {i: int(lab[2:-1]) for i, lab in enumerate(labels, 1)}
        E = set()
        for c in clauses:
            pos = [l for l in c if l > 0]
            if len(pos) == 1:
                for l in c:
                    if l < 0:
                        E.add((vert[-l], vert[pos[0]]))
            elif not (len(c) == 1 and c[0] < 0):
                raise orc.BadFile('unexpected clause {}'.format(c))
        return {'t': 'dag', 'n': n, 'E': E}
    E = set()                   # php: one variable p_{u,v} per edge
    for lab in labels:
        u, v = lab[3:-1].split(',')
        E.add((int(u), int(v)))
    return {'t': 'bipartite', 'E': E}


CLI_FORMULA = {'simple': ['kcolor', '1'], 'bipartite': ['php'], 'dag': ['peb']}


def eval_cli(gt, spec, expect, feat, preds, save, seed):
    core.import_repo()
    from cnfgen.clitools.cnfgen import cli
    from cnfgen.clitools.cmdline import CLIError
    with tempfile.TemporaryDirectory(prefix='c15_') as tmp:
        argv = ['cnfgen', '-q'] + CLI_FORMULA[gt] + [s.replace(TMP, tmp) for s in spec]
        where = "'{}' [seed={}]".format(' '.join(['cnfgen', '-q'] + CLI_FORMULA[gt] + spec), seed)
        random.seed(seed)
        try:
            F = cli(argv, mode='formula')
        except CLIError as e:
            if expect == 'accept':
                return 'cli:' + feat + ':refuses-legal-request', '{}: {}'.format(where, str(e).splitlines()[0])
            return None
        except Exception as e:
            return 'cli:{}:wrong-exception:{}'.format(feat, type(e).__name__), '{}: {}: {} (expected: {})'.format(where, type(e).__name__, e, expect)
        if expect == 'refuse':
            return 'cli:' + feat + ':not-refused', '{}: a formula was built'.format(where)
        g = decode_formula(F, gt)
        if gt == 'bipartite' and not save:
            return None
        if save:
            fmt, fname = save
            path = os.path.join(tmp, fname)
            if not os.path.exists(path):
                return 'cli:{}:save:no-file'.format(feat), where
            try:
                h = orc.read_saved(open(path).read(), gt, fmt)
            except (orc.BadFile, ValueError, AttributeError, IndexError) as e:
                return 'cli:{}:save:{}:unreadable'.format(feat, fmt), '{}: {}'.format(where, e)
            if gt == 'bipartite':
                g['L'], g['R'] = h['L'], h['R']      # the formula names only the edges
            if any(h.get(k) != g.get(k) for k in ('n', 'L', 'R', 'E')):
                return 'cli:{}:save:{}:differs'.format(feat, fmt), '{}: saved {} but the formula is built on {}'.format(where, _jsonable(h), _jsonable(g))
        for p in preds:
            if p[0] == 'is_dag':
                continue
            bad = orc.check_pred(g, p)
            if bad:
                return 'cli:{}:{}'.format(feat, p[0]), '{}: {}'.format(where, bad)
    return None


def replay_cli(gt, spec, expect, feat, preds, save, seed):
    return eval_cli(gt, spec, expect, feat, preds, save, seed) is None


MANUAL = {'empty 5 plantclique 3 addedges 2 splitedges 2': [['order', 7], ['edges', 7]],
          'gnm 5 4 addedges 3': [['order', 5], ['edges', 7]],
          'complete 4 splitedges 3': [['order', 7], ['edges', 9]],
          'empty 3 3 plantbiclique 2 2 addedges 1': [['parts', 3, 3], ['edges', 5], ['has_biclique', 2, 2]]}


def cli_cases(thorough):
    """a thin slice of the library cases, pushed through the whole command line, always with `save`"""
    out = []
    pick = {'simple': [T('gnp', 4, .5), T('gnp', 2, 1, 2), T('gnm', 5, 4), T('gnm', 4, 6), T('gnd', 6, 3), T('grid', 2, 3), T('torus', 3, 3),
                       T('complete', 4), T('complete', 2, 3), T('empty', 3), T('empty', 5, 'plantclique', 3, 'addedges', 2, 'splitedges', 2),
                       T('gnm', 5, 4, 'addedges', 3), T('complete', 4, 'splitedges', 3)],
            'bipartite': [T('glrp', 3, 3, .5), T('glrm', 4, 4, 3), T('glrm', 3, 3, 8), T('glrd', 3, 4, 2), T('regular', 4, 2, 1),
                          T('shift', 3, 4, 0, 2), T('complete', 2, 3), T('empty', 3, 3, 'plantbiclique', 2, 2, 'addedges', 1)],
            'dag': [T('path', 3), T('tree', 2), T('pyramid', 3), T('path', 0)]}
    lib = {(c['gt'], tuple(c['spec'])): c for c in all_cases(thorough)}
    for gt, lst in pick.items():
        for i, spec in enumerate(lst):
            c = lib.get((gt, tuple(spec)))
            preds = c['preds'] if c else MANUAL.get(' '.join(spec), [])
            feat = c['feat'] if c else 'combo'
            fmts = SAVE_FORMATS[gt] if (thorough or i < 2) else [SAVE_FORMATS[gt][i % 4]]
            for fmt in fmts:
                out.append({'gt': gt, 'spec': spec + ['save', fmt, TMP + '/saved.txt'], 'expect': 'accept', 'feat': feat,
                            'preds': preds, 'save': [fmt, 'saved.txt'], 'rnd': True})
    refuse = {'simple': [T('gnd', 4, 4), T('gnd', 3, 3), T('gnm', 4, 7), T('gnp', 4, 2), T('grid', 2, 0), T('complete', 0), T('empty', 3, 'addedges', 4),
                         T('complete', 3, 'plantclique', 4), T('empty', 3, 'splitedges', 1), T('glrm', 3, 3, 2), T('gnm', 4, 2, 'save')],
              'bipartite': [T('glrm', 3, 3, 10), T('glrd', 3, 3, 4), T('regular', 3, 2, 1), T('shift', 3, 3, 4), T('empty', 0, 3),
                            T('empty', 2, 2, 'plantbiclique', 3, 1), T('complete', 2, 2, 'addedges', 1), T('gnm', 4, 2)],
              'dag': [T('path', -1), T('tree', -1), T('pyramid'), T('gnm', 4, 2)]}
    for gt, lst in refuse.items():
        for spec in lst:
            c = lib.get((gt, tuple(spec)))
            out.append({'gt': gt, 'spec': spec, 'expect': 'refuse', 'feat': c['feat'] if c else 'parse', 'preds': [], 'save': None, 'rnd': False})
    return out


# ------------------------------------------------------------------ workers
def _args(c, mode):
    return dict(gt=c['gt'], spec=c['spec'], expect=c['expect'], feat=c['feat'], preds=c['preds'], mods=c['mods'], save=c['save'], mode=mode)


def _seeded_task(t):
    c, seeds = t
    bad = []
    for s in seeds:
        r, _ = eval_spec(**_args(c, {'seed': s}))
        if r:
            bad.append((r, {'seed': s}))
    return bad, len(seeds)


def _scripted_task(t):
    c, depth, max_runs = t
    bad = []
    runs = [0, 0]

    def run(prefix, tail):
        r, trace = eval_spec(**_args(c, {'script': prefix, 'tail': tail}))
        runs[0] += 1
        if len(trace) >= 20000:
            runs[1] += 1
        if r:
            bad.append((r, {'script': prefix, 'tail': tail}))
        return r, trace
    for _ in explore(run, depth, tails=('low', 'high', 'random'), max_runs=max_runs):
        pass
    return bad, runs[0], runs[1]


def _cli_task(t):
    c, seeds = t
    bad = []
    for s in seeds:
        r = eval_cli(c['gt'], c['spec'], c['expect'], c['feat'], c['preds'], c['save'], s)
        if r:
            bad.append((r, s))
    return bad, len(seeds)


def _pool():
    return multiprocessing.get_context('fork').Pool(min(16, multiprocessing.cpu_count()))


def _nontrivial(c):
    return c['expect'] != 'refuse'


def bounded_library(ctx, pool, cases):
    thorough = ctx.tier == 'thorough'
    nseeds = 300 if thorough else 30
    ctx.bounds['library'] = ('make_graph_from_spec: {} specifications (every construction, numeric arguments from -1 to just above '
                             'the documented maximum, wrong arity, modifiers alone and combined, save in every format); random ones under seeds 0..{}'
                             ).format(len(cases), nseeds - 1)
    ctx.rule('C15: one case = (graph type, specification tokens, seed or outcome script); the verdict accept/refuse/either and the structure '
             'predicates come from the documentation (x_graphspec_oracle); non-trivial iff a graph must be delivered')
    tasks = [(c, list(range(nseeds)) if c['rnd'] else [0]) for c in cases]
    for (c, seeds), (bad, n) in zip(tasks, pool.imap(_seeded_task, tasks, chunksize=4)):
        for s in seeds:
            ctx.case((c['gt'], c['spec'], s), nontrivial=_nontrivial(c))
        for (key, what), mode in bad:
            ctx.violation(key, what, {'fn': 'checks.C15:replay_spec', 'args': _args(c, mode)})
    ctx.sample({'type': 'simple', 'spec': 'gnd 6 3', 'seed': 4, 'expect': '6 vertices, 3-regular'})
    ctx.sample({'type': 'bipartite', 'spec': 'regular 4 2 1', 'seed': 0, 'expect': 'left degrees 1, right degrees 2'})
    ctx.sample({'type': 'simple', 'spec': 'empty 5 plantclique 3 addedges 2 splitedges 2 save dot FILE', 'seed': 7,
                'expect': '7 vertices, 7 edges, smoothing the 2 new vertices leaves a 3-clique + 2 edges; file == graph'})
    ctx.sample({'type': 'dag', 'spec': 'pyramid 3', 'expect': '10 vertices, 12 edges, isomorphic to the pyramid, sources 1..4'})


def bounded_scripted(ctx, pool, cases):
    thorough = ctx.tier == 'thorough'
    depth = 7 if thorough else 4
    max_runs = 4000 if thorough else 240
    sel = [c for c in cases if c['script']]
    ctx.bounds['scripted'] = ('{} specifications using the cnfgen-native samplers, each under every outcome prefix of length <= {} '
                              '(<= {} runs) x tails low/high/random of the scripted random module').format(len(sel), depth, max_runs)
    tasks = [(c, depth, max_runs) for c in sel]
    total = nonterm = 0
    for (c, _, _), (bad, runs, nt) in zip(tasks, pool.imap(_scripted_task, tasks, chunksize=2)):
        total += runs
        nonterm += nt
        ctx.case(('scripted', c['gt'], c['spec']), nontrivial=_nontrivial(c), n=runs)
        for (key, what), mode in bad:
            ctx.violation(key, what, {'fn': 'checks.C15:replay_spec', 'args': _args(c, mode)})
    ctx.section('scripted', runs=total, specifications=len(sel), runs_cut_by_draw_budget=nonterm)
    ctx.sample({'type': 'bipartite', 'spec': 'regular 2 2 2', 'script': [], 'tail': 'high',
                'expect': 'left and right degrees 2 whatever the draws'})


def bounded_cli(ctx, pool, thorough):
    cases = cli_cases(thorough)
    seeds = list(range(1, 6 if thorough else 3))
    ctx.bounds['cli'] = '{} command lines (kcolor 1 <simple> / php <bipartite> / peb <dag>, with save) x seeds {}'.format(len(cases), seeds)
    tasks = [(c, seeds if c['rnd'] else seeds[:1]) for c in cases]
    for (c, sds), (bad, n) in zip(tasks, pool.imap(_cli_task, tasks, chunksize=2)):
        for s in sds:
            ctx.case(('cli', c['gt'], c['spec'], s), nontrivial=_nontrivial(c))
        for (key, what), s in bad:
            ctx.violation(key, what, {'fn': 'checks.C15:replay_cli',
                                      'args': dict(gt=c['gt'], spec=c['spec'], expect=c['expect'], feat=c['feat'], preds=c['preds'], save=c['save'], seed=s)})
    ctx.sample({'cli': 'cnfgen -q peb pyramid 3 save kthlist FILE', 'expect': 'edges read off the pebbling clauses == edges in FILE == pyramid'})


def run(ctx):
    from checks import proofs
    proofs.run_group(ctx, 'C15')
    thorough = ctx.tier == 'thorough'
    only = getattr(ctx, 'only', None)
    cases = all_cases(thorough)
    with _pool() as pool:
        if not only or only in 'library':
            bounded_library(ctx, pool, cases)
        if not only or only in 'scripted':
            bounded_scripted(ctx, pool, cases)
        if not only or only in 'cli':
            bounded_cli(ctx, pool, thorough)
    ctx.assume('oracle vlib/x_graphspec_oracle.py: named graphs from their definitions, strict readers for kthlist/dimacs/matrix/gml/dot, networkx VF2 isomorphism')
    ctx.assume('vlib/x_scripted_random.py: every scripted outcome sequence is a possible outcome of the real generator; runs cut by the draw budget are ignored')
    ctx.assume('modifier relations are judged against the base graph rebuilt under the same random outcomes (used only when two rebuilds agree)')
    ctx.assume('networkx samplers (gnp, gnm, gnd) are exercised with seeds only (they draw from random._inst, not through the patched module functions)')


def replay(ctx, data):
    return generic_replay(data)
