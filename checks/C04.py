"""C04 - linear, parity and mapping builders mean what their names say.

proof part : pyvc obligations on the real builders (contracts/c04_*.py) + Lean lemmas
bounded part: every literal list <= 5 (quick 4) x shape x operator x constant x both classes,
              all assignments, against the arithmetic meaning (independent numpy truth tables)
"""
import itertools

import numpy as np

from vlib import core, sat
from vlib.replay import generic_replay

LEVEL = 'proof'

CMP = {'<=': lambda c, k: c <= k, '>=': lambda c, k: c >= k, '<': lambda c, k: c < k,
       '>': lambda c, k: c > k, '==': lambda c, k: c == k, '!=': lambda c, k: c != k}


def _classes():
    core.import_repo()
    from cnfgen.formula.cnf import CNF
    from cnfgen.formula.opb import OPB
    return {'cnf': CNF, 'opb': OPB}


def _shape(lits, shape):
    if shape == 'list':
        return list(lits)
    if shape == 'tuple':
        return tuple(lits)
    if shape == 'generator':
        return (l for l in lits)
    if shape == 'range':
        return range(lits[0], lits[0] + len(lits)) if lits else range(1, 1)
    raise ValueError(shape)


def _table(F, n):
    return sat.formula_table(F, n)


# ---------------------------------------------------------------------------------
def eval_linear(cls, lits, shape, op, k, nvars):
    """returns None if the constraint means what it says, else a description"""
    C = _classes()[cls]
    F = C()
    F.update_variable_number(nvars)
    arg = _shape(lits, shape)
    before = list(lits)
    try:
        if cls == 'cnf':
            F.add_linear(arg, op, k)
        else:
            m = {'<=': 'cardinality_leq', '>=': 'cardinality_geq', '==': 'cardinality_eq', '!=': 'cardinality_neq'}
            if op in m:
                getattr(F, m[op])(arg, k)
            else:
                F.add_constraint([(1, l) for l in lits] + [op, k])
    except Exception as e:  # any exception on a legal input is a violation of "for all literal lists"
        return 'raised {}: {}'.format(type(e).__name__, e)
    if shape == 'list' and arg != before:
        return 'literal list changed to {}'.format(arg)
    if F.number_of_variables() != nvars:
        return 'variable count became {}'.format(F.number_of_variables())
    cols = sat.columns(nvars)
    want = CMP[op](sat.count_table(cols, nvars, lits), k)
    got = _table(F, nvars)
    if not np.array_equal(want, got):
        a = int(np.flatnonzero(want != got)[0])
        return 'assignment {} : formula says {}, arithmetic says {}'.format(
            sat.assignment_of(a, nvars), bool(got[a]), bool(want[a]))
    if cls == 'opb':
        for con in F:
            if con[-2] not in ('>=', '==') or any(c <= 0 for c, _ in con[:-2]):
                return 'not normalised: {}'.format(con)
    return None


def replay_linear(cls, lits, shape, op, k, nvars):
    return eval_linear(cls, lits, shape, op, k, nvars) is None


MEANING = {'add_loose_majority': lambda c, n: 2 * c >= n, 'add_loose_minority': lambda c, n: 2 * c <= n,
           'add_strict_majority': lambda c, n: 2 * c > n, 'add_strict_minority': lambda c, n: 2 * c < n}


def eval_named(cls, meth, lits, shape, nvars, const=None):
    C = _classes()[cls]
    F = C()
    F.update_variable_number(nvars)
    arg = _shape(lits, shape)
    try:
        if meth == 'add_parity':
            F.add_parity(arg, const)
        else:
            getattr(F, meth)(arg)
    except Exception as e:
        return 'raised {}: {}'.format(type(e).__name__, e)
    cols = sat.columns(nvars)
    cnt = sat.count_table(cols, nvars, lits)
    want = (cnt % 2 == const) if meth == 'add_parity' else MEANING[meth](cnt, len(lits))
    got = _table(F, nvars)
    if F.number_of_variables() != nvars:
        return 'variable count became {}'.format(F.number_of_variables())
    if not np.array_equal(want, got):
        a = int(np.flatnonzero(want != got)[0])
        return 'assignment {} : formula says {}, meaning says {}'.format(
            sat.assignment_of(a, nvars), bool(got[a]), bool(want[a]))
    return None


def replay_named(cls, meth, lits, shape, nvars, const=None):
    return eval_named(cls, meth, lits, shape, nvars, const) is None


def _litlists(maxn, thorough):
    """literal lists: distinct variables all sign patterns; plus repeated/opposite literals (len<=3)"""
    for n in range(maxn + 1):
        for signs in itertools.product([1, -1], repeat=n):
            yield [s * (i + 1) for i, s in enumerate(signs)], n
    # non-contiguous / permuted variables and repeated/opposite literals
    for t in itertools.product([1, -1, 2, -2, 3, -3], repeat=3 if thorough else 2):
        if len(set(abs(x) for x in t)) < len(t):
            yield list(t), 3
    yield [3, -1, 2], 3
    yield [-4, 2], 4


def bounded_linear(ctx):
    thorough = ctx.tier == 'thorough'
    maxn = 6 if thorough else 4
    ctx.bounds['linear'] = 'literal lists over <= {} variables (all polarity patterns; repeated/opposite literals of length <= {}), shapes list/tuple/generator/range, 6 operators, constants -2..n+2, classes CNF and OPB, all 2^n assignments'.format(maxn, 3 if thorough else 2)
    ctx.rule('C04 bounded: one case = (class, literal list, shape, operator or builder, constant); non-trivial iff the list is non-empty; distinct by that tuple')
    for lits, nvars in _litlists(maxn, thorough):
        n = len(lits)
        shapes = ['list', 'tuple', 'generator']
        if n >= 1 and lits == list(range(lits[0], lits[0] + n)) and lits[0] > 0:
            shapes.append('range')
        for shape in shapes:
            for cls in ('cnf', 'opb'):
                for op in CMP:
                    for k in range(-2, n + 3):
                        key = ('linear', cls, tuple(lits), shape, op, k)
                        ctx.case(key, nontrivial=n > 0)
                        bad = eval_linear(cls, lits, shape, op, k, nvars)
                        if bad:
                            ctx.violation('linear:{}:{}:{}'.format(cls, shape, op),
                                          '{} {}({}) {} {} : {}'.format(cls, shape, lits, op, k, bad),
                                          {'fn': 'checks.C04:replay_linear',
                                           'args': dict(cls=cls, lits=lits, shape=shape, op=op, k=k, nvars=nvars)})
                for meth in MEANING:
                    ctx.case(('named', cls, meth, tuple(lits), shape), nontrivial=n > 0)
                    bad = eval_named(cls, meth, lits, shape, nvars)
                    if bad:
                        ctx.violation('{}:{}:{}'.format(meth, cls, shape), '{} {} {}({}) : {}'.format(cls, meth, shape, lits, bad),
                                      {'fn': 'checks.C04:replay_named', 'args': dict(cls=cls, meth=meth, lits=lits, shape=shape, nvars=nvars)})
                for const in (0, 1):
                    ctx.case(('parity', cls, tuple(lits), shape, const), nontrivial=n > 0)
                    bad = eval_named(cls, 'add_parity', lits, shape, nvars, const)
                    if bad:
                        ctx.violation('add_parity:{}:{}'.format(cls, shape), '{} add_parity {}({}) = {} : {}'.format(cls, shape, lits, const, bad),
                                      {'fn': 'checks.C04:replay_named', 'args': dict(cls=cls, meth='add_parity', lits=lits, shape=shape, nvars=nvars, const=const)})
    ctx.sample({'builder': 'add_linear', 'class': 'cnf', 'lits': [1, -2, 3], 'shape': 'tuple', 'op': '<', 'k': 2})
    ctx.sample({'builder': 'add_strict_minority', 'class': 'opb', 'lits': [1, 2, 3, -4], 'shape': 'generator'})


# ---------------------------------------------------------------------------------
def eval_normalize(con):
    core.import_repo()
    from cnfgen.formula.baseopb import normalize_opb
    before = list(con)
    try:
        out = normalize_opb(con)
    except Exception as e:
        return 'raised {}: {}'.format(type(e).__name__, e)
    if con != before:
        return 'input constraint mutated to {}'.format(con)
    n = max([abs(l) for _, l in con[:-2]] + [1])
    cols = sat.columns(n)
    want = sat.opb_constraint_table(cols, n, before)
    if out[-2] not in ('>=', '==') or any(c <= 0 for c, _ in out[:-2] if c != 0) or any(c < 0 for c, _ in out[:-2]):
        return 'result not normalised: {}'.format(out)
    got = sat.opb_constraint_table(cols, n, out)
    if not np.array_equal(want, got):
        a = int(np.flatnonzero(want != got)[0])
        return 'assignment {}: normalised {} says {}, original says {}'.format(sat.assignment_of(a, n), out, bool(got[a]), bool(want[a]))
    return None


def replay_normalize(con):
    return eval_normalize([tuple(t) if isinstance(t, list) else t for t in con]) is None


def bounded_normalize(ctx):
    thorough = ctx.tier == 'thorough'
    coeffs = [-3, -2, -1, 1, 2, 3] if thorough else [-2, -1, 1, 3]
    maxterms = 3
    ctx.bounds['normalize_opb'] = 'constraints with <= {} terms, coefficients {}, literals +-1..3, 5 operators, values -4..6, all assignments'.format(maxterms, coeffs)
    lits = [1, -1, 2, -2, 3, -3]
    for nt in range(maxterms + 1):
        for cs in itertools.product(coeffs, repeat=nt):
            for ls in itertools.product(lits, repeat=nt):
                if len(set(abs(l) for l in ls)) < nt and not thorough:
                    continue
                for op in ('>=', '<=', '<', '>', '=='):
                    for v in range(-4, 7, 1 if thorough else 2):
                        con = [(c, l) for c, l in zip(cs, ls)] + [op, v]
                        ctx.case(('norm', cs, ls, op, v), nontrivial=nt > 0)
                        bad = eval_normalize(con)
                        if bad:
                            ctx.violation('normalize_opb:' + op, '{} : {}'.format(con, bad),
                                          {'fn': 'checks.C04:replay_normalize', 'args': dict(con=con)})
    ctx.sample({'normalize_opb': [(-2, 1), (3, -2), '<', 1]})


# ---------------------------------------------------------------------------------
def _mapping_meaning(kind, n, m, edges, binary, cols, N, f, bits=None):
    """truth table of the relational meaning, written from the property statement.
    unary/sparse: variable f(u,v) for each allowed pair; binary: val(u) from bits."""
    size = 1 << N
    if not binary:
        var = {(u, v): cols[f(u, v)] for (u, v) in edges}
        dom = range(1, n + 1)
        rng = range(1, m + 1)
        t = np.ones(size, dtype=bool)
        if kind == 'complete':
            for u in dom:
                s = np.zeros(size, dtype=bool)
                for v in rng:
                    if (u, v) in var:
                        s |= var[(u, v)]
                t &= s
        elif kind == 'functional':
            for u in dom:
                c = np.zeros(size, dtype=np.int32)
                for v in rng:
                    if (u, v) in var:
                        c += var[(u, v)]
                t &= c <= 1
        elif kind == 'surjective':
            for v in rng:
                s = np.zeros(size, dtype=bool)
                for u in dom:
                    if (u, v) in var:
                        s |= var[(u, v)]
                t &= s
        elif kind == 'injective':
            for v in rng:
                c = np.zeros(size, dtype=np.int32)
                for u in dom:
                    if (u, v) in var:
                        c += var[(u, v)]
                t &= c <= 1
        elif kind == 'nondecreasing':
            for u1, u2 in itertools.combinations(dom, 2):
                for v1 in rng:
                    for v2 in rng:
                        if v1 > v2 and (u1, v1) in var and (u2, v2) in var:
                            t &= ~(var[(u1, v1)] & var[(u2, v2)])
        return t
    # binary: value of u = sum bit_b * 2^b
    val = {}
    for u in range(1, n + 1):
        x = np.zeros(size, dtype=np.int64)
        for b in range(bits):
            x += cols[f(u, b)].astype(np.int64) << b
        val[u] = x
    t = np.ones(size, dtype=bool)
    if kind == 'complete':
        for u in val:
            t &= val[u] < m
    elif kind == 'functional':
        pass
    elif kind == 'injective':
        # no two domain elements share an image (among the legal images 0..m-1)
        for u1, u2 in itertools.combinations(val, 2):
            t &= ~((val[u1] == val[u2]) & (val[u1] < m))
    elif kind == 'nondecreasing':
        # u1<u2 => not (val(u1)=v2 and val(u2)=v1) for legal v1<v2
        for u1, u2 in itertools.combinations(val, 2):
            t &= ~((val[u1] > val[u2]) & (val[u1] < m))
    return t


def eval_mapping(cls, mode, n, m, edges, kind):
    C = _classes()[cls]
    from cnfgen.graphs import BipartiteGraph
    F = C()
    try:
        if mode == 'unary':
            f = F.new_mapping(n, m)
            edges = [(u, v) for u in range(1, n + 1) for v in range(1, m + 1)]
        elif mode == 'sparse':
            B = BipartiteGraph(n, m)
            for u, v in edges:
                B.add_edge(u, v)
            f = F.new_sparse_mapping(B)
        else:
            f = F.new_binary_mapping(n, m)
        N = F.number_of_variables()
        getattr(F, 'force_{}_mapping'.format(kind))(f)
    except Exception as e:
        return 'raised {}: {}'.format(type(e).__name__, e)
    if F.number_of_variables() != N:
        return 'variable count changed from {} to {}'.format(N, F.number_of_variables())
    if N > 16:
        return None
    cols = sat.columns(N)
    bits = f.bits() if mode == 'binary' else None
    want = _mapping_meaning(kind, n, m, set(map(tuple, edges)), mode == 'binary', cols, N, f, bits)
    got = _table(F, N)
    if not np.array_equal(want, got):
        a = int(np.flatnonzero(want != got)[0])
        return 'assignment {} : formula says {}, meaning says {}'.format(sat.assignment_of(a, N), bool(got[a]), bool(want[a]))
    return None


def replay_mapping(cls, mode, n, m, edges, kind):
    return eval_mapping(cls, mode, n, m, [tuple(e) for e in edges], kind) is None


def bounded_mappings(ctx):
    from vlib import enumerate as en
    thorough = ctx.tier == 'thorough'
    kinds_u = ['complete', 'functional', 'surjective', 'injective', 'nondecreasing']
    kinds_b = ['complete', 'functional', 'injective', 'nondecreasing']
    ctx.bounds['mappings'] = 'unary (n,m)<=(3,4); sparse: all bipartite graphs <= {}; binary n in 0..3, m in 0..{}; all assignments (<=16 variables)'.format('3x3' if thorough else '2x3 and 3x2', 9 if thorough else 6)
    for cls in ('cnf', 'opb'):
        for n in range(0, 4):
            for m in range(0, 5):
                for kind in kinds_u:
                    ctx.case(('map', cls, 'unary', n, m, kind), nontrivial=n * m > 0)
                    bad = eval_mapping(cls, 'unary', n, m, [], kind)
                    if bad:
                        ctx.violation('force_{}_mapping:unary:{}'.format(kind, cls), 'new_mapping({},{}) {} : {}'.format(n, m, kind, bad),
                                      {'fn': 'checks.C04:replay_mapping', 'args': dict(cls=cls, mode='unary', n=n, m=m, edges=[], kind=kind)})
        shapes = [(2, 3), (3, 2), (2, 2), (1, 3), (0, 2), (2, 0)] + ([(3, 3)] if thorough else [])
        for (L, R) in shapes:
            for _, _, edges in en.bipartite_graphs(L, R):
                for kind in kinds_u:
                    ctx.case(('map', cls, 'sparse', L, R, tuple(edges), kind), nontrivial=len(edges) > 0)
                    bad = eval_mapping(cls, 'sparse', L, R, edges, kind)
                    if bad:
                        ctx.violation('force_{}_mapping:sparse:{}'.format(kind, cls), 'sparse {}x{} {} {} : {}'.format(L, R, edges, kind, bad),
                                      {'fn': 'checks.C04:replay_mapping', 'args': dict(cls=cls, mode='sparse', n=L, m=R, edges=edges, kind=kind)})
        for n in range(0, 4):
            for m in range(0, 10 if thorough else 7):        # m == 0: an empty range - complete means unsatisfiable as soon as n >= 1 (no bits, one empty clause per element)
                for kind in kinds_b:
                    ctx.case(('map', cls, 'binary', n, m, kind), nontrivial=n >= 1)
                    bad = eval_mapping(cls, 'binary', n, m, [], kind)
                    if bad:
                        ctx.violation('force_{}_mapping:binary:{}'.format(kind, cls), 'new_binary_mapping({},{}) {} : {}'.format(n, m, kind, bad),
                                      {'fn': 'checks.C04:replay_mapping', 'args': dict(cls=cls, mode='binary', n=n, m=m, edges=[], kind=kind)})
    ctx.sample({'mapping': 'sparse 2x3', 'edges': [(1, 1), (1, 3), (2, 2)], 'kind': 'injective', 'class': 'opb'})


def run(ctx):
    from checks import proofs
    proofs.run_group(ctx, 'C04')
    bounded_linear(ctx)
    bounded_normalize(ctx)
    bounded_mappings(ctx)
    ctx.assume('bounded tier oracles: numpy truth tables in vlib/sat.py (independent of cnfgen)')


def replay(ctx, data):
    return generic_replay(data)


# ---------------------------------------------------------------------------------
# native hooks of the proof tier: search a concrete failing input on the real code when an
# obligation of the named function fails (seeded by nothing but a small exhaustive scope)
def _native_builders(cls):
    for n in range(0, 4):
        for signs in itertools.product([1, -1], repeat=n):
            lits = [s * (i + 1) for i, s in enumerate(signs)]
            for op in ('>=', '<=', '<', '>', '=='):
                for k in range(-1, n + 2):
                    bad = eval_linear(cls, lits, 'list', op, k, max(n, 1))
                    if bad:
                        return ('linear:{}:list:{}'.format(cls, op), '{} {} {} {} : {}'.format(cls, lits, op, k, bad),
                                {'fn': 'checks.C04:replay_linear', 'args': dict(cls=cls, lits=lits, shape='list', op=op, k=k, nvars=max(n, 1))})
            for meth in MEANING:
                bad = eval_named(cls, meth, lits, 'list', max(n, 1))
                if bad:
                    return ('{}:{}:list'.format(meth, cls), '{} {} {} : {}'.format(cls, meth, lits, bad),
                            {'fn': 'checks.C04:replay_named', 'args': dict(cls=cls, meth=meth, lits=lits, shape='list', nvars=max(n, 1))})
    return None


def native_cnf(model):
    return _native_builders('cnf')


def native_opb(model):
    return _native_builders('opb') or native_normalize(model)


def native_normalize(model):
    for nt in range(0, 3):
        for cs in itertools.product([-2, -1, 1, 3], repeat=nt):
            for ls in itertools.product([1, -1, 2, -2], repeat=nt):
                for op in ('>=', '<=', '<', '>', '=='):
                    for v in range(-3, 5):
                        con = [(c, l) for c, l in zip(cs, ls)] + [op, v]
                        bad = eval_normalize(con)
                        if bad:
                            return ('normalize_opb:' + op, '{} : {}'.format(con, bad),
                                    {'fn': 'checks.C04:replay_normalize', 'args': dict(con=con)})
    return None
