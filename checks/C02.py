"""C02 - graph-problem families are satisfiable exactly when the graph has the property.

proof part  : plugged in by checks/proofs.py (group 'C02')
bounded part: every family on ALL labelled simple graphs with <= 4 vertices (quick) / <= 5 (thorough),
              every parameter value up to n+1 and every flag combination.  Oracles are brute force over the
              documented witnesses (edge subsets, colourings, vertex subsets, permutations, injective maps),
              written from the property statement / the docstrings; nothing of cnfgen's encoders is reused.

For the families whose documented variables are exactly the witness (tseitin, kcolor functional, ec, tiling,
iso, automorphism, subgraph, kclique, kcliquebin) the check is exact:
   every witness, written as an assignment through the variable labels, satisfies the formula, and
   #models(formula) == #witnesses      (hence the set of models IS the set of witnesses, and SAT <=> property)
For the others (kcolor non functional, domset both encodings, ramlb) the check is SAT <=> property.

Model counting is vlib/x_dpll.py (plain DPLL), cross-checked against numpy truth tables (<= 12 variables,
every formula) and z3 (a deterministic fifth of the larger SAT-only formulas).

Violation keys:  <family>:<variant>:<kind>   kind in
   raised     cnfgen raised on an input the documentation declares legal
   variables  the variables of the formula are not the documented ones
   sat        satisfiability differs from the graph property
   models     satisfiability is right, but the models are not exactly the witnesses
"""
import itertools
import multiprocessing
import re
import zlib

import numpy as np

from vlib import core, sat, x_dpll
from vlib import enumerate as en
from vlib.replay import generic_replay

LEVEL = 'exploration'


# =================================================================================================
# helpers (independent of cnfgen except for building the input graph object and reading the result)
# =================================================================================================
def _mk(n, edges, nx=False):
    """the input graph: a cnfgen.graphs.Graph, or (nx) a networkx.Graph on vertices 1..n"""
    core.import_repo()
    if nx:
        import networkx
        G = networkx.Graph()
        G.add_nodes_from(range(1, n + 1))
        G.add_edges_from([tuple(e) for e in edges])
        return G
    from cnfgen.graphs import Graph
    # "for every input graph" includes graphs reached through any history of updates: the construction varies
    # deterministically with the case (direct / vertices added afterwards / reversed orientation plus a spare edge
    # that is added and removed again); the abstract graph is always (n, edges)
    mode = (n + 2 * len(edges)) % 3
    if mode == 1 and n >= 2:
        G = Graph(n - 2)
        G.update_vertex_number(n)
        for u, v in edges:
            G.add_edge(u, v)
        return G
    if mode == 2 and n >= 2:
        G = Graph(n)
        eset = {tuple(sorted(e)) for e in edges}
        spare = next(((a, b) for a in range(1, n + 1) for b in range(a + 1, n + 1) if (a, b) not in eset), None)
        if spare:
            G.add_edge(*spare)
        for u, v in reversed([tuple(e) for e in edges]):
            G.add_edge(v, u)
        if spare:
            G.remove_edge(spare[1], spare[0])
        return G
    G = Graph(n)
    for u, v in edges:
        G.add_edge(u, v)
    return G


def _fam():
    core.import_repo()
    import cnfgen.families.tseitin as t
    import cnfgen.families.coloring as c
    import cnfgen.families.dominatingset as d
    import cnfgen.families.graphisomorphism as g
    import cnfgen.families.subgraph as s
    return t, c, d, g, s


def _edgeset(edges):
    return {(min(u, v), max(u, v)) for u, v in edges}


def _adj(n, edges):
    A = [[False] * (n + 1) for _ in range(n + 1)]
    for u, v in edges:
        A[u][v] = A[v][u] = True
    return A


def _ints(label):
    return tuple(int(x) for x in re.findall(r'\d+', label))


def _digits(label):
    """labels like x_{12}: vertex and colour are printed without a separator (both < 10 here)"""
    s = ''.join(re.findall(r'\d', label))
    return tuple(int(ch) for ch in s)


def _index_map(F, expected, parse=_ints, skip=()):
    """map documented index tuple -> variable id, read off the public labels of the formula.
    returns (N, map) or (N, None, reason) when the variables are not exactly `expected` (+ `skip` labels)"""
    N = F.number_of_variables()
    labels = list(F.all_variable_labels())
    if len(labels) != N:
        return N, None, '{} labels for {} variables'.format(len(labels), N)
    m = {}
    extra = {}
    for i, lab in enumerate(labels):
        if lab in skip:
            extra[lab] = i + 1
            continue
        idx = parse(lab)
        if idx in m:
            return N, None, 'two variables are labelled with index {}'.format(idx)
        m[idx] = i + 1
    if set(m) != set(expected):
        miss = sorted(set(expected) - set(m))[:4]
        sup = sorted(set(m) - set(expected))[:4]
        return N, None, 'variables {}: missing {} unexpected {}'.format(labels[:8], miss, sup)
    if set(extra) != set(skip):
        return N, None, 'variables {} lack {}'.format(labels[:8], sorted(set(skip) - set(extra)))
    m.update(extra)
    return N, m, None


def _all_assignments(N):
    """bool matrix (2^N, N+1): row a, column v = value of variable v in assignment a (column 0 unused)"""
    idx = np.arange(1 << N, dtype=np.uint32)
    M = np.zeros((1 << N, N + 1), dtype=bool)
    for v in range(1, N + 1):
        M[:, v] = (idx >> (v - 1)) & 1
    return M


def _rows_ok(W, clauses):
    ok = np.ones(len(W), dtype=bool)
    for c in clauses:
        t = np.zeros(len(W), dtype=bool)
        for l in c:
            t |= W[:, l] if l > 0 else ~W[:, -l]
        ok &= t
    return ok


def _clauses(F):
    return [list(c) for c in F]


def _exact(F, N, W, show):
    """the models of F are exactly the rows of W.  returns None or (kind, text)"""
    if len(W) and W.shape[1] > 1:
        assert len(np.unique(W[:, 1:], axis=0)) == len(W), 'checker: witnesses not distinct'
    clauses = _clauses(F)
    cnt = x_dpll.checked_count(N, clauses)
    nw = len(W)
    if (cnt > 0) != (nw > 0):
        return 'sat', 'formula is {} ({} models) but there are {} witnesses{}'.format(
            'SAT' if cnt else 'UNSAT', cnt, nw, (' e.g. ' + show(W[0])) if nw else '')
    ok = _rows_ok(W, clauses)
    if not ok.all():
        i = int(np.flatnonzero(~ok)[0])
        return 'models', 'witness {} falsifies the formula ({} of {} witnesses rejected; {} models)'.format(
            show(W[i]), int((~ok).sum()), nw, cnt)
    if cnt != nw:
        return 'models', 'formula has {} models, there are {} witnesses'.format(cnt, nw)
    return None


def _sat_only(F, expected, salt):
    """SAT <=> expected.  returns None or (kind, text)"""
    N = F.number_of_variables()
    clauses = _clauses(F)
    if N <= 12:
        got = x_dpll.checked_count(N, clauses) > 0
    else:
        got = x_dpll.is_sat(N, clauses)
        if zlib.crc32(repr(salt).encode()) % 5 == 0:
            assert sat.z3_is_sat(N, clauses) == got, ('checker: x_dpll disagrees with z3', salt)
    if got != expected:
        return 'sat', 'formula is {} but the graph property is {}'.format('SAT' if got else 'UNSAT', expected)
    return None


def _true_vars(row):
    return 'true variables {}'.format([int(v) for v in np.flatnonzero(row) if v > 0])


def _shower(m):
    inv = {v: k for k, v in m.items()}

    def show(row):
        return 'true: {}'.format([inv[int(v)] for v in np.flatnonzero(row) if int(v) in inv])
    return show


# =================================================================================================
# evaluators: return None if the property holds on this input, else (variant, kind, text)
# =================================================================================================
def _effective_charges(n, charges):
    """docstring of TseitinFormula: default = odd charge on the first vertex; values cast by bool;
    shorter sequences padded with False, longer ones truncated"""
    if charges is None:
        eff = [True] + [False] * (n - 1)
    else:
        eff = [bool(c) for c in charges]
    eff = eff[:n]
    return eff + [False] * (n - len(eff))


def _tseitin_variant(n, charges):
    if charges is None:
        return 'default'
    if any(not isinstance(c, bool) for c in charges):
        return 'nonbool'
    return 'short' if len(charges) < n else 'long' if len(charges) > n else 'full'


def eval_tseitin(n, edges, charges=None, shape='list', nx=False):
    t = _fam()[0]
    variant = _tseitin_variant(n, charges) + ('+tuple' if shape == 'tuple' else '') + ('+nx' if nx else '')
    G = _mk(n, edges, nx)
    try:
        if charges is None:
            F = t.TseitinFormula(G)
        else:
            F = t.TseitinFormula(G, tuple(charges) if shape == 'tuple' else list(charges))
    except Exception as e:
        return variant, 'raised', '{}: {}'.format(type(e).__name__, e)
    E = sorted(_edgeset(edges))
    N, m, why = _index_map(F, E)
    if m is None:
        return variant, 'variables', why
    eff = _effective_charges(n, charges)
    A = _all_assignments(N)
    mask = np.ones(len(A), dtype=bool)
    for v in range(1, n + 1):
        cnt = np.zeros(len(A), dtype=np.int32)
        for e in E:
            if v in e:
                cnt += A[:, m[e]]
        mask &= (cnt % 2 == 1) == eff[v - 1]
    W = A[mask]
    # the property statement: SAT iff every component has even total charge; then 2^(|E|-|V|+c) models
    comps = en.connected_components(n, E)
    even = all(sum(eff[v - 1] for v in comp) % 2 == 0 for comp in comps)
    assert len(W) == ((1 << (len(E) - n + len(comps))) if even else 0), 'checker: Tseitin counting lemma'
    bad = _exact(F, N, W, _shower(m))
    return (variant,) + bad if bad else None


def eval_kcolor(n, edges, k, functional=True, nx=False):
    c = _fam()[1]
    variant = ('functional' if functional else 'nonfunctional') + ('+nx' if nx else '')
    G = _mk(n, edges, nx)
    try:
        F = c.GraphColoringFormula(G, k, functional=functional)
    except Exception as e:
        return variant, 'raised', '{}: {}'.format(type(e).__name__, e)
    N, m, why = _index_map(F, [(v, col) for v in range(1, n + 1) for col in range(1, k + 1)], parse=_digits)
    if m is None:
        return variant, 'variables', why
    if n == 0:
        cols = np.zeros((1, 0), dtype=np.int64)        # the empty colouring
    else:
        cols = np.array(list(itertools.product(range(1, k + 1), repeat=n)), dtype=np.int64).reshape(-1, n)
    ok = np.ones(len(cols), dtype=bool)
    for u, v in edges:
        ok &= cols[:, u - 1] != cols[:, v - 1]
    cols = cols[ok]
    if not functional:
        bad = _sat_only(F, len(cols) > 0, ('kcolor', n, edges, k))
        return (variant,) + bad if bad else None
    W = np.zeros((len(cols), N + 1), dtype=bool)
    var = np.zeros((n + 1, k + 1), dtype=np.int64)
    for (v, col), x in m.items():
        var[v, col] = x
    rows = np.arange(len(cols))
    for v in range(1, n + 1):
        W[rows, var[v, cols[:, v - 1]]] = True
    bad = _exact(F, N, W, _shower(m))
    return (variant,) + bad if bad else None


def eval_ec(n, edges, nx=False):
    c = _fam()[1]
    E = sorted(_edgeset(edges))
    deg = [0] * (n + 1)
    for u, v in E:
        deg[u] += 1
        deg[v] += 1
    odd = any(d % 2 for d in deg)
    variant = ('odd-degree' if odd else 'even-degree') + ('+nx' if nx else '')
    G = _mk(n, edges, nx)
    try:
        F = c.EvenColoringFormula(G)
    except ValueError as e:
        if odd:
            return None         # documented: ValueError if some vertex has odd degree
        return variant, 'raised', 'ValueError: {}'.format(e)
    except Exception as e:
        return variant, 'raised', '{}: {}'.format(type(e).__name__, e)
    if odd:
        # a formula came back although the docstring promises ValueError; the weakest reading that is
        # still the documented meaning: no balanced split exists, so it must at least be unsatisfiable
        bad = _sat_only(F, False, ('ec', n, edges))
        return (variant,) + bad if bad else None
    N, m, why = _index_map(F, E)
    if m is None:
        return variant, 'variables', why
    A = _all_assignments(N)
    mask = np.ones(len(A), dtype=bool)
    for v in range(1, n + 1):
        cnt = np.zeros(len(A), dtype=np.int32)
        for e in E:
            if v in e:
                cnt += A[:, m[e]]
        mask &= 2 * cnt == deg[v]
    W = A[mask]
    # docstring: satisfiable only (and, for even degrees, exactly) when every component has an even number of edges
    comps = en.connected_components(n, E)
    assert (len(W) > 0) == all(sum(1 for e in E if e[0] in comp) % 2 == 0 for comp in comps), 'checker: ec lemma'
    bad = _exact(F, N, W, _shower(m))
    return (variant,) + bad if bad else None


def _closed_nbhd(n, edges):
    nb = {v: {v} for v in range(1, n + 1)}
    for u, v in edges:
        nb[u].add(v)
        nb[v].add(u)
    return nb


def _domination_number(n, edges):
    nb = _closed_nbhd(n, edges)
    for size in range(0, n + 1):
        for D in itertools.combinations(range(1, n + 1), size):
            Ds = set(D)
            if all(nb[v] & Ds for v in nb):
                return size
    raise AssertionError('unreachable')


def eval_domset(n, edges, d, alternative=False, nx=False):
    dm = _fam()[2]
    variant = ('alternative' if alternative else 'standard') + ('+nx' if nx else '')
    G = _mk(n, edges, nx)
    try:
        F = dm.DominatingSet(G, d, alternative=alternative)
    except Exception as e:
        return variant, 'raised', '{}: {}'.format(type(e).__name__, e)
    bad = _sat_only(F, _domination_number(n, edges) <= d, ('domset', n, edges, d, alternative))
    return (variant,) + bad if bad else None


def eval_tiling(n, edges, nx=False):
    dm = _fam()[2]
    variant = 'tiling' + ('+nx' if nx else '')
    G = _mk(n, edges, nx)
    try:
        F = dm.Tiling(G)
    except Exception as e:
        return variant, 'raised', '{}: {}'.format(type(e).__name__, e)
    N, m, why = _index_map(F, [(v,) for v in range(1, n + 1)])
    if m is None:
        return variant, 'variables', why
    nb = _closed_nbhd(n, edges)
    A = _all_assignments(N)
    mask = np.ones(len(A), dtype=bool)
    for v in range(1, n + 1):
        cnt = np.zeros(len(A), dtype=np.int32)
        for u in nb[v]:
            cnt += A[:, m[(u,)]]
        mask &= cnt == 1
    bad = _exact(F, N, A[mask], _shower(m))
    return (variant,) + bad if bad else None


def _isomorphisms(n1, e1, n2, e2):
    """all bijections p: V1 -> V2 with {u,v} in E1 <=> {p(u),p(v)} in E2, as tuples (p(1),...,p(n1))"""
    if n1 != n2:
        return []
    A1, A2 = _adj(n1, e1), _adj(n2, e2)
    pairs = list(itertools.combinations(range(1, n1 + 1), 2))
    out = []
    for p in itertools.permutations(range(1, n2 + 1)):
        if all(A1[u][v] == A2[p[u - 1]][p[v - 1]] for u, v in pairs):
            out.append(p)
    return out


def _map_rows(maps, m, N):
    W = np.zeros((len(maps), N + 1), dtype=bool)
    for r, p in enumerate(maps):
        for i, j in enumerate(p):
            W[r, m[(i + 1, j)]] = True
    return W


def eval_iso(n1, e1, n2, e2, nontrivial=False, nx=False):
    g = _fam()[3]
    variant = ('nontrivial' if nontrivial else 'plain') + ('+nx' if nx else '')
    G1, G2 = _mk(n1, e1, nx), _mk(n2, e2, nx)
    try:
        F = g.GraphIsomorphism(G1, G2, nontrivial=True) if nontrivial else g.GraphIsomorphism(G1, G2)
    except Exception as e:
        return variant, 'raised', '{}: {}'.format(type(e).__name__, e)
    N, m, why = _index_map(F, [(u, v) for u in range(1, n1 + 1) for v in range(1, n2 + 1)])
    if m is None:
        return variant, 'variables', why
    maps = _isomorphisms(n1, e1, n2, e2)
    if n1 <= 4 and n2 <= 4:     # second opinion on the oracle only
        import networkx
        H1, H2 = _mk(n1, e1, True), _mk(n2, e2, True)
        assert networkx.is_isomorphic(H1, H2) == (len(maps) > 0), 'checker: isomorphism oracle vs networkx'
    if nontrivial:              # docstring: "forbid identical mapping"
        ident = tuple(range(1, n1 + 1))
        maps = [p for p in maps if p != ident]
    bad = _exact(F, N, _map_rows(maps, m, N), _shower(m))
    return (variant,) + bad if bad else None


def eval_auto(n, edges, nx=False):
    g = _fam()[3]
    variant = 'automorphism' + ('+nx' if nx else '')
    G = _mk(n, edges, nx)
    try:
        F = g.GraphAutomorphism(G)
    except Exception as e:
        return variant, 'raised', '{}: {}'.format(type(e).__name__, e)
    N, m, why = _index_map(F, [(u, v) for u in range(1, n + 1) for v in range(1, n + 1)])
    if m is None:
        return variant, 'variables', why
    ident = tuple(range(1, n + 1))
    maps = [p for p in _isomorphisms(n, edges, n, edges) if p != ident]
    bad = _exact(F, N, _map_rows(maps, m, N), _shower(m))
    return (variant,) + bad if bad else None


def _embeddings(N, eG, k, eH, induced, increasing):
    """injective maps [k] -> [N] sending edges of H to edges of G (induced: and non-edges to non-edges)"""
    AG, AH = _adj(N, eG), _adj(k, eH)
    pairs = list(itertools.combinations(range(1, k + 1), 2))
    gen = itertools.combinations(range(1, N + 1), k) if increasing else itertools.permutations(range(1, N + 1), k)
    out = []
    for p in gen:
        good = True
        for i1, i2 in pairs:
            g = AG[p[i1 - 1]][p[i2 - 1]]
            h = AH[i1][i2]
            if (h and not g) or (induced and g and not h):
                good = False
                break
        if good:
            out.append(p)
    return out


def _symmetric(k, eH):
    m = len(_edgeset(eH))
    return m == 0 or m == k * (k - 1) // 2


def eval_subgraph(N, eG, k, eH, induced=False, symbreak=False, nx=False):
    s = _fam()[4]
    sym = _symmetric(k, eH)
    variant = ('induced' if induced else 'plain') + ('+symbreak' + ('' if sym else '-asymmetricH') if symbreak else '') \
        + ('+nx' if nx else '')
    G, H = _mk(N, eG, nx), _mk(k, eH, nx)
    try:
        F = s.SubgraphFormula(G, H, induced=induced, symbreak=symbreak)
    except Exception as e:
        return variant, 'raised', '{}: {}'.format(type(e).__name__, e)
    nv, m, why = _index_map(F, [(i, j) for i in range(1, k + 1) for j in range(1, N + 1)])
    if m is None:
        return variant, 'variables', why
    if symbreak and not sym:
        # "symbreak ... makes sense only if H is symmetric": only what holds under every reading is demanded:
        #   an increasing embedding exists => SAT ;  SAT => H is an (induced) subgraph of G
        got = x_dpll.is_sat(nv, _clauses(F))
        inc = _embeddings(N, eG, k, eH, induced, True)
        if inc and not got:
            return variant, 'sat', 'UNSAT although the increasing embedding {} exists'.format(inc[0])
        if got and not inc and not _embeddings(N, eG, k, eH, induced, False):
            return variant, 'sat', 'SAT although H does not embed in G'
        return None
    maps = _embeddings(N, eG, k, eH, induced, symbreak)
    bad = _exact(F, nv, _map_rows(maps, m, nv), _shower(m))
    return (variant,) + bad if bad else None


def _clique_maps(n, edges, k, increasing):
    return _embeddings(n, edges, k, list(itertools.combinations(range(1, k + 1), 2)), False, increasing)


def eval_kclique(n, edges, k, symbreak=True, default_flag=False, nx=False):
    s = _fam()[4]
    variant = ('symbreak' if symbreak else 'nosymbreak') + ('+nx' if nx else '')
    G = _mk(n, edges, nx)
    try:
        F = s.CliqueFormula(G, k) if default_flag else s.CliqueFormula(G, k, symbreak=symbreak)
    except Exception as e:
        return variant, 'raised', '{}: {}'.format(type(e).__name__, e)
    nv, m, why = _index_map(F, [(i, j) for i in range(1, k + 1) for j in range(1, n + 1)])
    if m is None:
        return variant, 'variables', why
    maps = _clique_maps(n, edges, k, symbreak)
    bad = _exact(F, nv, _map_rows(maps, m, nv), _shower(m))
    return (variant,) + bad if bad else None


def eval_kcliquebin(n, edges, k, symbreak=True, default_flag=False, nx=False):
    s = _fam()[4]
    variant = ('symbreak' if symbreak else 'nosymbreak') + ('+nx' if nx else '')
    G = _mk(n, edges, nx)
    try:
        F = s.BinaryCliqueFormula(G, k) if default_flag else s.BinaryCliqueFormula(G, k, symbreak=symbreak)
    except Exception as e:
        shape = 'k0' if k == 0 else 'nullgraph' if n == 0 else 'other'
        return variant, 'raised:' + shape, '{}: {}'.format(type(e).__name__, e)
    # documented: vertex j (1-based) has code j-1, written on `bits` bits, bits minimal with n <= 2^bits;
    # variable (i,b) is bit b (weight 2^b) of the image of i
    bits = (n - 1).bit_length() if n >= 1 else 0
    nv, m, why = _index_map(F, [(i, b) for i in range(1, k + 1) for b in range(bits)])
    if m is None:
        return variant, 'variables', why
    maps = _clique_maps(n, edges, k, symbreak)
    W = np.zeros((len(maps), nv + 1), dtype=bool)
    for r, p in enumerate(maps):
        for i, j in enumerate(p):
            for b in range(bits):
                if ((j - 1) >> b) & 1:
                    W[r, m[(i + 1, b)]] = True
    bad = _exact(F, nv, W, _shower(m))
    return (variant,) + bad if bad else None


def eval_ramlb(n, edges, k, s, symbreak=True, default_flag=False, nx=False):
    sg = _fam()[4]
    variant = ('k-equals-s' if k == s else 'k-differs-s') + ('' if symbreak else '+nosymbreak') + ('+nx' if nx else '')
    G = _mk(n, edges, nx)
    try:
        F = sg.RamseyWitnessFormula(G, k, s) if default_flag else sg.RamseyWitnessFormula(G, k, s, symbreak=symbreak)
    except Exception as e:
        return variant, 'raised', '{}: {}'.format(type(e).__name__, e)
    E = _edgeset(edges)
    comp = [(u, v) for u, v in itertools.combinations(range(1, n + 1), 2) if (u, v) not in E]
    expected = bool(_clique_maps(n, edges, k, True)) or bool(_clique_maps(n, comp, s, True))
    bad = _sat_only(F, expected, ('ramlb', n, edges, k, s, symbreak))
    return (variant,) + bad if bad else None


EVAL = {'tseitin': eval_tseitin, 'kcolor': eval_kcolor, 'ec': eval_ec, 'domset': eval_domset,
        'tiling': eval_tiling, 'iso': eval_iso, 'automorphism': eval_auto, 'subgraph': eval_subgraph,
        'kclique': eval_kclique, 'kcliquebin': eval_kcliquebin, 'ramlb': eval_ramlb}


def replay_case(fam, args):
    """True iff the property holds for this input (used by bin/check C02 --replay FILE)"""
    args = dict(args)
    for key in ('edges', 'e1', 'e2', 'eG', 'eH'):
        if key in args:
            args[key] = [tuple(e) for e in args[key]]
    bad = EVAL[fam](**args)
    if bad:
        print('  {}:{}:{} :: {}'.format(fam, bad[0], bad[1], bad[2]))
    return bad is None


def _work(task):
    import time
    fam, args = task
    t0 = time.perf_counter()
    bad = EVAL[fam](**args)
    return fam, args, bad, time.perf_counter() - t0


# =================================================================================================
# enumeration
# =================================================================================================
def _graphs(nmax, nmin=0):
    out = []
    for n in range(nmin, nmax + 1):
        for _, edges in en.simple_graphs(n):
            out.append((n, [tuple(e) for e in edges]))
    return out


def _permuted(rng, n, edges):
    p = list(range(1, n + 1))
    rng.shuffle(p)
    return sorted(tuple(sorted((p[u - 1], p[v - 1]))) for u, v in edges)


def _tasks(ctx):
    import random
    rng = random.Random(ctx.seed)
    thorough = ctx.tier == 'thorough'
    nmax = 5 if thorough else 4
    graphs = _graphs(nmax)
    small = _graphs(3)
    tasks = []

    # ---- tseitin: all charge vectors of length n, default, short/long/non-boolean/tuple shapes
    for n, edges in graphs:
        tasks.append(('tseitin', dict(n=n, edges=edges, charges=None)))
        for ch in itertools.product([False, True], repeat=n):
            if n:
                tasks.append(('tseitin', dict(n=n, edges=edges, charges=list(ch))))
        if n <= 4:
            tasks.append(('tseitin', dict(n=n, edges=edges, charges=[])))
            for ch in itertools.product([False, True], repeat=max(n - 1, 0)):
                if n >= 2 and any(ch):
                    tasks.append(('tseitin', dict(n=n, edges=edges, charges=list(ch))))                    # padded
            tasks.append(('tseitin', dict(n=n, edges=edges, charges=[False] * n + [True])))                # truncated
            tasks.append(('tseitin', dict(n=n, edges=edges, charges=[True] * (n + 2), shape='tuple')))    # truncated
            tasks.append(('tseitin', dict(n=n, edges=edges, charges=[2, 0, 3, 0, 0][:n])))                 # bool cast
            tasks.append(('tseitin', dict(n=n, edges=edges, charges=[0, 2, 1][:max(n - 1, 0)], shape='tuple')))
    ctx.bounds['tseitin'] = 'all labelled graphs on 0..{} vertices x (default charge, all 2^n charge vectors; for n<=4 also every shorter-by-one vector, empty, longer, non-boolean and tuple-shaped vectors)'.format(nmax)

    # ---- colouring
    for n, edges in graphs:
        for k in range(0, n + 2):
            for functional in (True, False):
                tasks.append(('kcolor', dict(n=n, edges=edges, k=k, functional=functional)))
    ctx.bounds['kcolor'] = 'all labelled graphs on 0..{} vertices x k in 0..n+1 x functional in (True, False)'.format(nmax)

    # ---- even colouring, tiling, automorphism
    for n, edges in graphs:
        tasks.append(('ec', dict(n=n, edges=edges)))
        tasks.append(('tiling', dict(n=n, edges=edges)))
        tasks.append(('automorphism', dict(n=n, edges=edges)))
    ctx.bounds['ec/tiling/automorphism'] = 'all labelled graphs on 0..{} vertices (ec: odd-degree graphs must be rejected with ValueError)'.format(nmax)

    # ---- dominating set
    for n, edges in graphs:
        for d in range(1, n + 2):
            for alt in (False, True):
                tasks.append(('domset', dict(n=n, edges=edges, d=d, alternative=alt)))
    ctx.bounds['domset'] = 'all labelled graphs on 0..{} vertices x d in 1..n+1 x both encodings'.format(nmax)

    # ---- isomorphism: all ordered pairs of labelled graphs on <= 4 vertices (all order combinations)
    g4 = _graphs(4)
    for n1, e1 in g4:
        for n2, e2 in g4:
            tasks.append(('iso', dict(n1=n1, e1=e1, n2=n2, e2=e2)))
            tasks.append(('iso', dict(n1=n1, e1=e1, n2=n2, e2=e2, nontrivial=True)))
    ctx.bounds['iso'] = 'all ordered pairs of labelled graphs on 0..4 vertices (equal and different orders) x nontrivial in (False, True)'
    if thorough:
        g5 = _graphs(5, 5)
        for n1, e1 in g5:
            # itself, a random relabelling (isomorphic), the relabelling with one pair flipped (usually not), a random graph
            pe = _permuted(rng, 5, e1)
            tasks.append(('iso', dict(n1=5, e1=e1, n2=5, e2=e1, nontrivial=True)))
            tasks.append(('iso', dict(n1=5, e1=e1, n2=5, e2=pe)))
            tasks.append(('iso', dict(n1=5, e1=e1, n2=5, e2=pe, nontrivial=True)))
            pair = tuple(sorted(rng.sample(range(1, 6), 2)))
            fe = sorted(set(pe) ^ {pair})
            tasks.append(('iso', dict(n1=5, e1=e1, n2=5, e2=fe)))
            tasks.append(('iso', dict(n1=5, e1=e1, n2=5, e2=rng.choice(g5)[1])))
            tasks.append(('iso', dict(n1=5, e1=e1, n2=4, e2=rng.choice(g4)[1])))
        ctx.bounds['iso'] += '; every 5-vertex graph against itself (nontrivial), a seeded relabelling (both flags), the relabelling with one pair flipped, a seeded 5-vertex and a seeded <=4-vertex graph'

    # ---- subgraph: G x H x induced x symbreak
    hmax = 4
    gs = graphs
    hs = _graphs(hmax)
    for N, eG in gs:
        for k, eH in hs:
            if thorough and N == 5 and k == 4 and not _canonical4(eH):
                continue
            for induced in (False, True):
                for symbreak in (False, True):
                    tasks.append(('subgraph', dict(N=N, eG=eG, k=k, eH=eH, induced=induced, symbreak=symbreak)))
    if thorough:
        for N, eG in _graphs(4):        # H larger than G, and 5-vertex patterns in 5-vertex hosts
            for k, eH in rng.sample(_graphs(5, 5), 24):
                for induced in (False, True):
                    tasks.append(('subgraph', dict(N=N, eG=eG, k=k, eH=eH, induced=induced, symbreak=False)))
        g5 = _graphs(5, 5)
        for _ in range(1500):
            N, eG = rng.choice(g5)
            k, eH = rng.choice(g5)
            tasks.append(('subgraph', dict(N=N, eG=eG, k=k, eH=eH, induced=rng.random() < .5, symbreak=rng.random() < .3)))
    ctx.bounds['subgraph'] = ('host: all labelled graphs on 0..{} vertices; pattern: all labelled graphs on 0..4 vertices{}; '
                              'induced x symbreak (symbreak with a pattern that is neither complete nor empty: only the implications valid under every reading)'
                              ).format(nmax, ' (for 5-vertex hosts the 4-vertex patterns are restricted to those with vertex degrees sorted increasingly; plus seeded 5-vertex patterns)' if thorough else '')

    # ---- cliques
    for n, edges in graphs:
        for k in range(0, n + 2):
            for fam in ('kclique', 'kcliquebin'):
                for symbreak in (True, False):
                    tasks.append((fam, dict(n=n, edges=edges, k=k, symbreak=symbreak)))
                if n <= 3:
                    tasks.append((fam, dict(n=n, edges=edges, k=k, symbreak=True, default_flag=True)))
    ctx.bounds['kclique/kcliquebin'] = 'all labelled graphs on 0..{} vertices x k in 0..n+1 x symbreak in (True, False, default)'.format(nmax)

    # ---- ramsey witness
    for n, edges in graphs:
        for k in range(0, n + 2):
            for s in range(0, n + 2):
                for symbreak in (True, False):
                    tasks.append(('ramlb', dict(n=n, edges=edges, k=k, s=s, symbreak=symbreak)))
                if n <= 3 and k == s:
                    tasks.append(('ramlb', dict(n=n, edges=edges, k=k, s=s, default_flag=True)))
    ctx.bounds['ramlb'] = 'all labelled graphs on 0..{} vertices x k,s in 0..n+1 (all pairs, equal and different) x symbreak in (True, False, default)'.format(nmax)

    # ---- networkx.Graph inputs (documented as accepted) on every graph with <= 3 vertices
    for n, edges in small:
        tasks.append(('tseitin', dict(n=n, edges=edges, charges=[True] * n, nx=True)))
        tasks.append(('kcolor', dict(n=n, edges=edges, k=2, nx=True)))
        tasks.append(('ec', dict(n=n, edges=edges, nx=True)))
        tasks.append(('tiling', dict(n=n, edges=edges, nx=True)))
        tasks.append(('automorphism', dict(n=n, edges=edges, nx=True)))
        tasks.append(('domset', dict(n=n, edges=edges, d=1, nx=True)))
        tasks.append(('iso', dict(n1=n, e1=edges, n2=n, e2=_permuted(rng, n, edges), nx=True)))
        tasks.append(('subgraph', dict(N=n, eG=edges, k=2, eH=[(1, 2)], nx=True)))
        tasks.append(('kclique', dict(n=n, edges=edges, k=2, nx=True)))
        tasks.append(('kcliquebin', dict(n=n, edges=edges, k=2, nx=True)))
        tasks.append(('ramlb', dict(n=n, edges=edges, k=2, s=2, nx=True)))
    ctx.bounds['networkx input'] = 'every family once on each labelled graph with <= 3 vertices given as networkx.Graph on vertices 1..n'
    return tasks


def _canonical4(eH):
    """keeps one labelled pattern per degree sequence ordering (a cheap, label-independent thinning)"""
    deg = [0] * 5
    for u, v in eH:
        deg[u] += 1
        deg[v] += 1
    return deg[1:] == sorted(deg[1:])


def _nontrivial(fam, args):
    """a case is non-trivial iff some input graph has an edge, or a size parameter (k, s, d) is >= 2"""
    for key in ('edges', 'e1', 'e2', 'eG', 'eH'):
        if args.get(key):
            return True
    return any(args.get(p, 0) >= 2 for p in ('k', 's', 'd'))


def _weight(task):
    fam, a = task
    n = max(a.get('n', 0), a.get('N', 0), a.get('n1', 0), a.get('n2', 0))
    return n * 10 + max(a.get('k', 0), a.get('s', 0), a.get('d', 0)) + (5 if fam in ('ramlb', 'domset', 'kcolor') else 0)


def bounded_families(ctx):
    tasks = _tasks(ctx)
    only = getattr(ctx, 'only', None)
    if only:
        tasks = [t for t in tasks if only in t[0]]
    ctx.rule('C02 bounded: one case = (family, graph(s), parameters, flags); non-trivial iff some input graph has an edge '
             'or a size parameter (k, s, d) is >= 2; distinct by the full argument tuple')
    # heavy tasks first would help balance, but order must stay deterministic: plain chunks, ordered results
    # schedule the large inputs first (load balance), but report in enumeration order (small inputs first),
    # so that the recorded example of a violation is the smallest one and the run is deterministic
    order = sorted(range(len(tasks)), key=lambda i: (-_weight(tasks[i]), i))
    with multiprocessing.get_context('fork').Pool(16) as pool:
        results = [None] * len(tasks)
        for i, r in zip(order, pool.imap(_work, [tasks[i] for i in order], chunksize=16)):
            results[i] = r
        per_family = {}
        cpu = {}
        slowest = (0.0, None)
        for fam, args, bad, dt in results:
            cpu[fam] = cpu.get(fam, 0.0) + dt
            if dt > slowest[0]:
                slowest = (dt, (fam, args))
            key = (fam, tuple(sorted((k, repr(v)) for k, v in args.items())))
            ctx.case(key, nontrivial=_nontrivial(fam, args))
            per_family[fam] = per_family.get(fam, 0) + 1
            if bad:
                variant, kind, text = bad
                ctx.violation('{}:{}:{}'.format(fam, variant, kind),
                              '{}({}) : {}'.format(fam, ', '.join('{}={}'.format(k, v) for k, v in args.items()), text),
                              {'fn': 'checks.C02:replay_case', 'args': {'fam': fam, 'args': args}})
    ctx.section('families', cases=per_family, cpu_seconds={k: round(v, 1) for k, v in cpu.items()},
                slowest_case={'seconds': round(slowest[0], 2), 'case': slowest[1]})
    ctx.sample({'family': 'tseitin', 'n': 4, 'edges': [(1, 2), (3, 4)], 'charges': [True, False, True, True]})
    ctx.sample({'family': 'kcliquebin', 'n': 3, 'edges': [(1, 3)], 'k': 2, 'symbreak': False})
    ctx.sample({'family': 'subgraph', 'N': 4, 'eG': [(1, 2), (2, 3), (3, 4)], 'k': 3, 'eH': [(1, 3), (2, 3)], 'induced': True, 'symbreak': False})
    ctx.sample({'family': 'ramlb', 'n': 3, 'edges': [(1, 2)], 'k': 3, 's': 2, 'symbreak': True})
    ctx.sample({'family': 'iso', 'n1': 4, 'e1': [(1, 2), (2, 3)], 'n2': 4, 'e2': [(1, 4), (3, 4)], 'nontrivial': True})
    ctx.sample({'family': 'domset', 'n': 4, 'edges': [(1, 2), (3, 4)], 'd': 1, 'alternative': True})


def run(ctx):
    from checks import proofs
    proofs.run_group(ctx, 'C02')
    bounded_families(ctx)
    ctx.assume('bounded tier oracles: brute-force enumeration of witnesses in checks/C02.py; model counting by '
               'vlib/x_dpll.py cross-checked with vlib/sat.py truth tables (<= 12 variables) and z3 (sampled)')
    ctx.assume('variables are decoded through the public labels (all_variable_labels) of the returned formula')
    ctx.assume('the returned formula is read through its public iteration (list of clauses) and number_of_variables()')


def replay(ctx, data):
    return generic_replay(data)
