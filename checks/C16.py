"""C16 - graph objects stay consistent under any sequence of updates.

bounded part: a reference model (vertex count + a Python set of edges) is run next to the real
object for
  * ALL operation sequences up to a length bound over {add_edge, remove_edge, update_vertex_number,
    add_edges_from} with arguments in {0..n+1}^2 (valid and invalid), from initial sizes 0..3, for
    Graph, DirectedGraph, BipartiteGraph and CompleteBipartiteGraph.  The walk is breadth first over
    the *concrete* states of the object (its attribute dictionary): what an object does next depends
    only on that, so every sequence of the given length is covered although equal states are
    expanded once;
  * plain (not memoised) enumeration of all short sequences and long random sequences;
  * a few arguments that are not integers (1.5, 2.0, '1', None): whatever is refused must leave
    no trace.
After every step all views are compared with the model: vertex count, edge count, edge listing (sorted,
each edge once), membership, neighbour / predecessor / successor lists (sorted), degrees, is_dag;
a refused operation must leave every view unchanged; every state is converted to networkx and back.
"""
import copy
import itertools
import multiprocessing
import random

from vlib import core
from vlib.replay import generic_replay

LEVEL = 'exploration'

CLASSES = ('Graph', 'DirectedGraph', 'BipartiteGraph', 'CompleteBipartiteGraph')


def _cls(name):
    core.import_repo()
    import cnfgen.graphs as G
    return getattr(G, name)


def _new(cname, init):
    C = _cls(cname)
    if cname in ('BipartiteGraph', 'CompleteBipartiteGraph'):
        return C(init[0], init[1])
    return C(init)


def _is_int(x):
    return isinstance(x, int) and not isinstance(x, bool)


# ------------------------------------------------------------------------------------------
#  the reference model
# ------------------------------------------------------------------------------------------
class Model:
    """n (or (L,R)) and the set of edges actually inserted"""

    def __init__(self, cname, init):
        self.cname = cname
        self.bip = cname in ('BipartiteGraph', 'CompleteBipartiteGraph')
        self.n = tuple(init) if self.bip else init
        self.E = set()
        if cname == 'CompleteBipartiteGraph':
            self.E = {(u, v) for u in range(1, init[0] + 1) for v in range(1, init[1] + 1)}

    def legal(self, u, v):
        """can (u,v) be inserted?  None if the arguments are not integers"""
        if not (_is_int(u) and _is_int(v)):
            return None
        if self.bip:
            return 1 <= u <= self.n[0] and 1 <= v <= self.n[1]
        ok = 1 <= u <= self.n and 1 <= v <= self.n
        if self.cname == 'Graph':
            ok = ok and u != v
        return ok

    def norm(self, u, v):
        return (min(u, v), max(u, v)) if self.cname == 'Graph' else (u, v)

    def has(self, u, v):
        if not (_is_int(u) and _is_int(v)):
            return False
        return self.norm(u, v) in self.E


def apply_model(model, op):
    """returns 'ok' (operation must succeed), 'refuse' (must raise ValueError, nothing changes),
    'either' (may raise or not, nothing changes) or 'nonint' (judged by the caller)"""
    kind = op[0]
    if kind == 'add_edge':
        lg = model.legal(op[1], op[2])
        if lg is None:
            return 'nonint'
        if model.cname == 'CompleteBipartiteGraph':
            return 'either'                # complete graph: nothing to insert, nothing changes
        if not lg:
            return 'refuse'
        model.E.add(model.norm(op[1], op[2]))
        return 'ok'
    if kind == 'remove_edge':
        if not (_is_int(op[1]) and _is_int(op[2])):
            return 'nonint'
        if model.has(op[1], op[2]):
            model.E.discard(model.norm(op[1], op[2]))
            return 'ok'
        return 'either'                    # removing what is not there: no effect (an error is tolerated)
    if kind == 'update_vertex_number':
        if not _is_int(op[1]):
            return 'nonint'
        if op[1] < 0:
            return 'either'
        model.n = max(model.n, op[1])
        return 'ok'
    if kind == 'add_edges_from':
        # documented as a loop of add_edge: edges before the first refused one are inserted
        for e in op[1]:
            if len(e) != 2:
                return 'partial-any'
            lg = model.legal(e[0], e[1])
            if lg is None:
                return 'nonint-partial'
            if model.cname == 'CompleteBipartiteGraph':
                continue
            if not lg:
                return 'partial-refuse'
            model.E.add(model.norm(e[0], e[1]))
        return 'ok'
    raise ValueError(kind)


# ------------------------------------------------------------------------------------------
#  all views against the model
# ------------------------------------------------------------------------------------------
def _from_cnfgen(exc):
    """was the exception raised inside cnfgen / networkx code (and not by this checker)?"""
    import os
    tb = exc.__traceback__
    last = None
    while tb is not None:
        last = tb.tb_frame.f_code.co_filename
        tb = tb.tb_next
    here = os.path.abspath(__file__)
    return last is not None and os.path.abspath(last) != here


def _check_held(G, model):
    """an edge listing obtained EARLIER (right after construction) is a view too: after every update it must still list what a
    fresh edges() lists, and agree with its own len()"""
    held = getattr(model, 'held', None)
    if held is None:
        return None
    old, new = list(held), list(G.edges())
    if old != new:
        return ('edges-held', 'an edges() object obtained before the updates lists {} but a fresh one lists {}'.format(old, new))
    if len(held) != len(old):
        return ('edges-held', 'len() of an edges() object obtained before the updates is {} but it lists {} edges'.format(len(held), len(old)))
    return None


def check_views(G, model):
    """None or a (view, description) pair"""
    try:
        return _check_views(G, model) or _check_held(G, model)
    except Exception as e:  # noqa
        if _from_cnfgen(e):
            return ('view-raises', 'a view raised {}: {}'.format(type(e).__name__, e))
        raise


def check_networkx(G, model):
    try:
        return _check_networkx(G, model)
    except Exception as e:  # noqa
        if _from_cnfgen(e):
            return ('networkx-raises', 'conversion raised {}: {}'.format(type(e).__name__, e))
        raise


def _check_views(G, model):
    E = model.E
    if model.bip:
        L, R = model.n
        if G.left_order() != L or G.right_order() != R:
            return ('order', 'left/right order {} {} expected {} {}'.format(G.left_order(), G.right_order(), L, R))
        if G.number_of_vertices() != L + R or G.order() != L + R or len(G) != L + R:
            return ('order', 'number_of_vertices {}'.format(G.number_of_vertices()))
        if [list(p) for p in G.parts()] != [list(range(1, L + 1)), list(range(1, R + 1))]:
            return ('parts', 'parts() = {}'.format(G.parts()))
        if G.number_of_edges() != len(E):
            return ('number_of_edges', 'number_of_edges {} expected {}'.format(G.number_of_edges(), len(E)))
        el = G.edges()
        lst = [tuple(e) for e in el]
        if lst != sorted(E):
            return ('edges', 'edges() = {} expected {}'.format(lst, sorted(E)))
        if len(el) != len(E):
            return ('edges', 'len(edges()) = {}'.format(len(el)))
        for u in range(0, L + 2):
            for v in range(0, R + 2):
                if bool(G.has_edge(u, v)) != ((u, v) in E) or ((u, v) in el) != ((u, v) in E):
                    return ('has_edge', 'has_edge({},{}) = {} / in edges() = {}'.format(u, v, G.has_edge(u, v), (u, v) in el))
        for u in range(1, L + 1):
            want = sorted(v for (a, v) in E if a == u)
            if list(G.right_neighbors(u)) != want or G.right_degree(u) != len(want):
                return ('neighbors', 'right_neighbors({}) = {} degree {} expected {}'.format(u, list(G.right_neighbors(u)), G.right_degree(u), want))
        for v in range(1, R + 1):
            want = sorted(a for (a, b) in E if b == v)
            if list(G.left_neighbors(v)) != want or G.left_degree(v) != len(want):
                return ('neighbors', 'left_neighbors({}) = {} degree {} expected {}'.format(v, list(G.left_neighbors(v)), G.left_degree(v), want))
        return None
    n = model.n
    if G.number_of_vertices() != n or G.order() != n or len(G) != n:
        return ('order', 'number_of_vertices {} expected {}'.format(G.number_of_vertices(), n))
    if list(G.vertices()) != list(range(1, n + 1)):
        return ('order', 'vertices() = {}'.format(list(G.vertices())))
    if G.number_of_edges() != len(E):
        return ('number_of_edges', 'number_of_edges {} expected {}'.format(G.number_of_edges(), len(E)))
    el = G.edges()
    lst = [tuple(e) for e in el]
    if lst != sorted(E):
        return ('edges', 'edges() = {} expected {}'.format(lst, sorted(E)))
    if len(el) != len(E):
        return ('edges', 'len(edges()) = {}'.format(len(el)))
    directed = model.cname == 'DirectedGraph'
    for u in range(0, n + 2):
        for v in range(0, n + 2):
            want = model.has(u, v)
            if bool(G.has_edge(u, v)) != want or ((u, v) in el) != want:
                return ('has_edge', 'has_edge({},{}) = {} / in edges() = {} expected {}'.format(u, v, G.has_edge(u, v), (u, v) in el, want))
    if directed:
        if bool(G.is_dag()) != all(u < v for u, v in E):
            return ('is_dag', 'is_dag() = {} with edges {}'.format(G.is_dag(), sorted(E)))
        if sorted(tuple(e) for e in G.edges_ordered_by_successors()) != sorted(E):
            return ('edges', 'edges_ordered_by_successors() = {}'.format(list(G.edges_ordered_by_successors())))
        for u in range(1, n + 1):
            succ = sorted(b for (a, b) in E if a == u)
            pred = sorted(a for (a, b) in E if b == u)
            if list(G.successors(u)) != succ or G.out_degree(u) != len(succ):
                return ('neighbors', 'successors({}) = {} out_degree {} expected {}'.format(u, list(G.successors(u)), G.out_degree(u), succ))
            if list(G.predecessors(u)) != pred or G.in_degree(u) != len(pred):
                return ('neighbors', 'predecessors({}) = {} in_degree {} expected {}'.format(u, list(G.predecessors(u)), G.in_degree(u), pred))
    else:
        for u in range(1, n + 1):
            want = sorted({b for (a, b) in E if a == u} | {a for (a, b) in E if b == u})
            if list(G.neighbors(u)) != want or G.degree(u) != len(want):
                return ('neighbors', 'neighbors({}) = {} degree {} expected {}'.format(u, list(G.neighbors(u)), G.degree(u), want))
    return None


def _check_networkx(G, model):
    """to_networkx has the vertices and edges of the model, and from_networkx gives them back"""
    import networkx
    E = model.E
    N = G.to_networkx()
    if model.bip:
        L, R = model.n
        if sorted(N.nodes()) != list(range(1, L + R + 1)):
            return ('to_networkx', 'nodes {}'.format(sorted(N.nodes())))
        if sorted(v for v in N.nodes() if N.nodes[v].get('bipartite') == 0) != list(range(1, L + 1)):
            return ('to_networkx', 'left side {}'.format(N.nodes(data=True)))
        if sorted(v for v in N.nodes() if N.nodes[v].get('bipartite') == 1) != list(range(L + 1, L + R + 1)):
            return ('to_networkx', 'right side {}'.format(N.nodes(data=True)))
        if sorted((min(e), max(e)) for e in N.edges()) != sorted((u, v + L) for u, v in E) or N.is_directed():
            return ('to_networkx', 'edges {}'.format(sorted(N.edges())))
        back = _cls('BipartiteGraph').from_networkx(N)
        ref = networkx.Graph()
        ref.add_nodes_from(range(1, L + 1), bipartite=0)
        ref.add_nodes_from(range(L + 1, L + R + 1), bipartite=1)
        ref.add_edges_from((u, v + L) for u, v in sorted(E))
        back2 = _cls('BipartiteGraph').from_networkx(ref)
        m2 = Model('BipartiteGraph', model.n)
        m2.E = set(E)
    else:
        n = model.n
        directed = model.cname == 'DirectedGraph'
        if sorted(N.nodes()) != list(range(1, n + 1)) or N.is_directed() != directed or N.is_multigraph():
            return ('to_networkx', 'nodes {} directed {}'.format(sorted(N.nodes()), N.is_directed()))
        got = sorted(tuple(e) if directed else (min(e), max(e)) for e in N.edges())
        if got != sorted(E):
            return ('to_networkx', 'edges {} expected {}'.format(got, sorted(E)))
        back = _cls(model.cname).from_networkx(N)
        ref = networkx.DiGraph() if directed else networkx.Graph()
        ref.add_nodes_from(range(n, 0, -1))           # insertion order must not matter: labels are sorted
        ref.add_edges_from(sorted(E, reverse=True))
        back2 = _cls(model.cname).from_networkx(ref)
        m2 = model
    for b, what in ((back, 'from_networkx(to_networkx())'), (back2, 'from_networkx(independently built networkx graph)')):
        if type(b).__name__ != m2.cname:
            return ('from_networkx', '{} is a {}'.format(what, type(b).__name__))
        bad = check_views(b, m2)
        if bad:
            return ('from_networkx', '{}: {}'.format(what, bad[1]))
    return None


# ------------------------------------------------------------------------------------------
#  one step
# ------------------------------------------------------------------------------------------
def _call(G, op):
    kind = op[0]
    if kind == 'add_edges_from':
        arg = [tuple(e) for e in op[1]]
        if len(op) > 2 and op[2] == 'generator':
            arg = (e for e in arg)
        elif len(op) > 2 and op[2] == 'lists':
            arg = [list(e) for e in arg]
        return G.add_edges_from(arg)
    return getattr(G, kind)(*op[1:])


def step(G, model, op):
    """apply op to object and model; None or (key part, description)"""
    cname = model.cname
    if not hasattr(G, op[0]):
        return None
    before_n, before_E = model.n, set(model.E)
    expect = apply_model(model, op)
    exc = None
    try:
        _call(G, op)
    except Exception as e:  # noqa  - judged below
        exc = e
    opname = op[0]
    if expect == 'ok':
        if exc is not None:
            return (opname + ':raises', '{} raised {}: {}'.format(op, type(exc).__name__, exc))
    elif expect in ('refuse', 'partial-refuse'):
        if exc is None:
            return (opname + ':not-refused', '{} was not refused'.format(op))
        if not isinstance(exc, ValueError):
            return (opname + ':raises', '{} raised {} instead of ValueError: {}'.format(op, type(exc).__name__, exc))
    elif expect == 'either':
        pass
    elif expect in ('nonint', 'nonint-partial', 'partial-any'):
        # an argument is not an integer (for add_edges_from the model already holds the edges before it).
        # Allowed outcomes: the call raises and nothing (more) changes; the call returns and nothing
        # (more) changes; the call returns and an integral float was taken as that integer.
        cands = [(model.n, set(model.E))]
        vals = [int(x) if isinstance(x, float) and x == int(x) else x for x in _flat(op[1:])]
        if exc is None and expect != 'partial-any' and all(_is_int(x) for x in vals):
            m3 = copy.deepcopy(model)
            m3.n, m3.E = before_n, set(before_E)
            if apply_model(m3, _rebuild(op, vals)) == 'ok':
                cands.append((m3.n, m3.E))
        first = None
        for n_, E_ in cands:
            model.n, model.E = n_, set(E_)
            bad = check_views(G, model)
            if bad is None:
                return None
            first = first or bad
        model.n, model.E = cands[0]
        if exc is not None:
            return (opname + ':nonint:side-effect', 'after refused {} ({}): {}'.format(op, type(exc).__name__, first[1]))
        return (opname + ':nonint:inconsistent', 'after accepted {}: {}'.format(op, first[1]))
    bad = check_views(G, model)
    if bad:
        if exc is not None and expect in ('refuse', 'either'):
            return (opname + ':side-effect:' + bad[0], 'after refused {} ({}): {}'.format(op, type(exc).__name__, bad[1]))
        return (opname + ':' + bad[0], 'after {}: {}'.format(op, bad[1]))
    return None


def _flat(xs):
    out = []
    for x in xs:
        if isinstance(x, (list, tuple)):
            out.extend(_flat(x))
        elif not isinstance(x, str) or x not in ('generator', 'lists', 'list'):
            out.append(x)
    return out


def _rebuild(op, vals):
    if op[0] == 'add_edges_from':
        it = iter(vals)
        return ('add_edges_from', [tuple(next(it) for _ in e) for e in op[1]])
    return (op[0],) + tuple(vals)


def run_history(cname, init, ops, networkx_too=True):
    """None if the property holds along the history, else (key, description)"""
    init = tuple(init) if isinstance(init, (list, tuple)) else init
    G = _new(cname, init)
    model = Model(cname, init)
    model.held = G.edges()
    bad = check_views(G, model)
    if bad:
        return ('{}:init:{}'.format(cname, bad[0]), 'new {}({}): {}'.format(cname, init, bad[1]))
    for i, op in enumerate(ops):
        op = _op_from_json(op)
        bad = step(G, model, op)
        if bad:
            return ('{}:{}'.format(cname, bad[0]), '{}({}) history {} step {}: {}'.format(cname, init, _ops_json(ops[:i + 1]), i + 1, bad[1]))
    if networkx_too:
        bad = check_networkx(G, model)
        if bad:
            return ('{}:{}'.format(cname, bad[0]), '{}({}) history {}: {}'.format(cname, init, _ops_json(ops), bad[1]))
    return None


def _op_from_json(op):
    op = tuple(op)
    if op[0] == 'add_edges_from':
        return ('add_edges_from', [tuple(e) for e in op[1]]) + tuple(op[2:])
    return op


def _ops_json(ops):
    return [list(_op_from_json(o)) for o in ops]


def replay_history(cname, init, ops):
    bad = run_history(cname, init, ops)
    if bad:
        print('   ', bad)
    return bad is None


# ------------------------------------------------------------------------------------------
#  alphabets
# ------------------------------------------------------------------------------------------
def alphabet(cname, n, rich=True):
    """operations offered in a state with n vertices (or (L,R)); arguments range over 0..n+1"""
    ops = []
    if cname in ('BipartiteGraph', 'CompleteBipartiteGraph'):
        L, R = n
        pairs = [(u, v) for u in range(0, L + 2) for v in range(0, R + 2)]
        ops += [('add_edge', u, v) for u, v in pairs]
        if rich:
            ops += [('add_edges_from', []), ('add_edges_from', [(1, 1), (1, 2)]), ('add_edges_from', [(1, 1), (1, 1)], 'generator'),
                    ('add_edges_from', [(1, 1), (0, 1), (2, 1)]), ('add_edges_from', [(L, R), (L + 1, R), (1, 1)], 'lists'),
                    ('add_edges_from', [(2, 1), (1, R + 1)])]
        return ops
    pairs = [(u, v) for u in range(0, n + 2) for v in range(0, n + 2)]
    ops += [('add_edge', u, v) for u, v in pairs]
    if cname == 'Graph':
        ops += [('remove_edge', u, v) for u, v in pairs]
        ops += [('update_vertex_number', k) for k in range(-1, n + 2)]
    if rich:
        ops += [('add_edges_from', []), ('add_edges_from', [(1, 2), (2, 3)]), ('add_edges_from', [(2, 1), (1, 2)], 'generator'),
                ('add_edges_from', [(1, 2), (0, 1), (2, 3)]), ('add_edges_from', [(n, 1), (n + 1, 1), (1, 2)], 'lists'),
                ('add_edges_from', [(1, 2), (2, 2), (1, 3)]), ('add_edges_from', [(3, 2), (3, 1), (2, 1)])]
    return ops


def _freeze(x):
    if isinstance(x, dict):
        return ('d',) + tuple(sorted(((repr(k), _freeze(v)) for k, v in x.items())))
    if isinstance(x, (list, tuple)):
        return ('l',) + tuple(_freeze(v) for v in x)
    if isinstance(x, (set, frozenset)):
        return ('s',) + tuple(sorted(repr(v) for v in x))
    return repr(x)


# ------------------------------------------------------------------------------------------
#  breadth first walk over concrete states = all sequences up to the depth
# ------------------------------------------------------------------------------------------
def walk(args):
    """Breadth first over concrete states.  A state first met after i steps is expanded with every
    operation when i < depth; every arrival (also at a state already met) is checked against the
    model of the history that led there.  Since a state that passed the check determines its model
    (vertex count and edge set are views), all sequences of length <= depth are covered."""
    cname, init, depth = args
    core.import_repo()
    G0 = _new(cname, init)
    m0 = Model(cname, init)
    bad = check_views(G0, m0)
    if bad:
        return {'viol': [('{}:init:{}'.format(cname, bad[0]), bad[1], [])], 'steps': 0, 'states': 0, 'refused': 0, 'nx': 0, 'maxn': 0}
    viol = []
    keys_seen = set()
    frontier = [(G0, m0, [])]
    seen = {_freeze(vars(G0))}
    all_states = list(frontier)
    steps = refused = 0
    for d in range(depth):
        nxt = []
        for (G, model, hist) in frontier:
            for op in alphabet(cname, model.n):
                G2 = copy.deepcopy(G)
                m2 = copy.deepcopy(model)
                bad = step(G2, m2, op)
                steps += 1
                if m2.E == model.E and m2.n == model.n:
                    refused += 1
                if bad:
                    key = '{}:{}'.format(cname, bad[0])
                    if key not in keys_seen:
                        keys_seen.add(key)
                        viol.append((key, '{}({}) history {} : {}'.format(cname, init, _ops_json(hist + [op]), bad[1]), _ops_json(hist + [op])))
                    continue
                fz = _freeze(vars(G2))
                if fz not in seen:
                    seen.add(fz)
                    nxt.append((G2, m2, hist + [op]))
        frontier = nxt
        all_states += nxt
    nxs = 0
    for (G, model, hist) in all_states:       # networkx conversion on every distinct state
        bad = check_networkx(G, model)
        nxs += 1
        if bad:
            key = '{}:{}'.format(cname, bad[0])
            if key not in keys_seen:
                keys_seen.add(key)
                viol.append((key, '{}({}) history {} : {}'.format(cname, init, _ops_json(hist), bad[1]), _ops_json(hist)))
    return {'viol': viol, 'steps': steps, 'states': len(all_states), 'refused': refused, 'nx': nxs,
            'maxn': max((sum(m.n) if m.bip else m.n) for _, m, _ in all_states)}


def _inits(cname):
    if cname in ('BipartiteGraph', 'CompleteBipartiteGraph'):
        return [(L, R) for L in range(4) for R in range(4)]
    return [0, 1, 2, 3]


def _walk_tasks(thorough):
    tasks = []
    for i in range(4):
        tasks.append(('Graph', i, 8 if thorough else 6))
        tasks.append(('DirectedGraph', i, 8 if thorough else 7))
    tasks.append(('Graph', 4, 7 if thorough else 5))
    tasks.append(('DirectedGraph', 4, 6 if thorough else 4))
    for L in range(4):
        for R in range(4):
            tasks.append(('BipartiteGraph', (L, R), 9 if thorough else 8))
            tasks.append(('CompleteBipartiteGraph', (L, R), 3))
    if thorough:
        tasks += [('BipartiteGraph', (4, 3), 7), ('BipartiteGraph', (3, 4), 7), ('BipartiteGraph', (1, 5), 7)]
    return tasks


def bounded_walk(ctx):
    thorough = ctx.tier == 'thorough'
    tasks = _walk_tasks(thorough)
    depth = sorted({(c, d) for c, i, d in tasks})
    tasks.sort(key=lambda t: -((sum(t[1]) if isinstance(t[1], tuple) else t[1] + 3) * t[2]))
    with multiprocessing.get_context('fork').Pool(14) as pool:
        res = pool.map(walk, tasks, chunksize=1)
    ctx.bounds['histories'] = ('all sequences of length <= {} over add_edge / remove_edge (u,v in 0..n+1, n the current vertex count), '
                               'update_vertex_number(-1..n+1), 6-7 add_edges_from lists (empty, duplicates, refused edge in the middle, '
                               'generator, lists) ; (class, initial size, length) = {}; memoised on the concrete '
                               'object state').format('(class, depth) ' + str(depth), [(c, i, d) for c, i, d in sorted(tasks, key=repr)])
    ctx.rule('C16 histories: one case = one executed operation from one reachable concrete state (all views compared with the '
             'reference model afterwards); non-trivial iff the operation changes the abstract graph')
    tot = {}
    for t, r in zip(tasks, res):
        cname, init, d = t
        for k in range(r['steps'] - r['refused']):      # each step is a distinct (concrete state, operation) pair
            ctx.case(('walk', cname, init, d, k), nontrivial=True)
        ctx.case(('walk', cname, init, d, 'refused-or-idle'), nontrivial=False, n=r['refused'])
        for k in range(r['nx']):
            ctx.case(('walk-nx', cname, init, d, k), nontrivial=True)
        a = tot.setdefault(cname, {'steps': 0, 'states': 0, 'refused_or_idle': 0, 'max_vertices': 0})
        a['steps'] += r['steps']
        a['states'] += r['states']
        a['refused_or_idle'] += r['refused']
        a['max_vertices'] = max(a['max_vertices'], r['maxn'])
        for key, what, ops in r['viol']:
            ctx.violation(key, what, {'fn': 'checks.C16:replay_history', 'args': dict(cname=cname, init=init, ops=ops)})
    ctx.section('histories', **tot)
    ctx.sample({'class': 'Graph', 'init': 2, 'history': [['update_vertex_number', 3], ['add_edge', 3, 1], ['remove_edge', 1, 3], ['add_edge', 2, 2]]})
    ctx.sample({'class': 'DirectedGraph', 'init': 3, 'history': [['add_edge', 1, 2], ['add_edges_from', [[1, 2], [0, 1], [2, 3]]], ['add_edge', 2, 2]]})


# ------------------------------------------------------------------------------------------
#  plain enumeration (no memoisation) of short sequences, long random sequences, odd arguments
# ------------------------------------------------------------------------------------------
def _plain(args):
    cname, init, length, seed, nrandom, rlen = args
    core.import_repo()
    viol = []
    keys = set()
    cnt = 0

    def note(bad, ops):
        if bad and bad[0] not in keys:
            keys.add(bad[0])
            viol.append((bad[0], bad[1], _ops_json(ops)))
    base = alphabet(cname, init if not isinstance(init, tuple) else init, rich=False)
    # the alphabet is taken at the initial size + 1 so that growth by one vertex stays inside it
    if cname == 'Graph':
        base = alphabet(cname, init + 1, rich=False)
    base = [o for o in base if o[0] != 'remove_edge' or (o[1] < o[2])] + \
           [o for o in alphabet(cname, init) if o[0] == 'add_edges_from'][:4]
    for k in range(1, length + 1):
        for ops in itertools.product(base, repeat=k):
            cnt += k
            note(run_history(cname, init, list(ops), networkx_too=False), ops)
    rng = random.Random(seed)
    for _ in range(nrandom):
        G = _new(cname, init)
        model = Model(cname, init)
        model.held = G.edges()
        ops = []
        for _ in range(rlen):
            al = alphabet(cname, model.n)
            op = rng.choice(al)
            if op[0] == 'add_edge' and rng.random() < 0.5:       # bias towards legal insertions
                legal = [o for o in al if o[0] == 'add_edge' and model.legal(o[1], o[2])]
                if legal:
                    op = rng.choice(legal)
            if op[0] == 'update_vertex_number' and (model.n > 9 or rng.random() < 0.7):
                continue
            ops.append(op)
            cnt += 1
            bad = step(G, model, op)
            if bad:
                note(('{}:{}'.format(cname, bad[0]), '{}({}) history {} : {}'.format(cname, init, _ops_json(ops), bad[1])), ops)
                break
        else:
            bad = check_networkx(G, model)
            if bad:
                note(('{}:{}'.format(cname, bad[0]), '{}({}) history {} : {}'.format(cname, init, _ops_json(ops), bad[1])), ops)
    return {'viol': viol, 'steps': cnt}


ODD = (1.5, 2.0, '1', None)


def bounded_plain(ctx):
    thorough = ctx.tier == 'thorough'
    length = 3
    nrandom, rlen = (400, 60) if thorough else (60, 40)
    tasks = []
    for c in CLASSES:
        for i in _inits(c):
            small = (sum(i) if isinstance(i, tuple) else i) <= (4 if thorough else 2)
            tasks.append((c, i, length if small else 2, ctx.seed * 1000 + len(tasks), nrandom, rlen))
    with multiprocessing.get_context('fork').Pool(14) as pool:
        res = pool.map(_plain, tasks, chunksize=1)
    ctx.bounds['plain'] = ('all sequences of length <= 3 (2 for the larger initial sizes) replayed from scratch without memoisation; '
                           '{} random sequences of length {} per class and initial size').format(nrandom, rlen)
    for t, r in zip(tasks, res):
        ctx.case(('plain', t[0], t[1]), nontrivial=True, n=r['steps'])
        for key, what, ops in r['viol']:
            ctx.violation(key, what, {'fn': 'checks.C16:replay_history', 'args': dict(cname=t[0], init=t[1], ops=ops)})
    # arguments that are not integers
    n = 0
    observations = {}
    for c in CLASSES:
        init = (2, 2) if c in ('BipartiteGraph', 'CompleteBipartiteGraph') else 3
        prefixes = [[], [('add_edge', 1, 2)], [('add_edge', 1, 2), ('add_edge', 2, 1)] if c != 'Graph' else [('add_edge', 1, 2), ('add_edge', 2, 3)]]
        for pre in prefixes:
            for odd in ODD:
                for other in (1, 2, 3):
                    cands = [('add_edge', odd, other), ('add_edge', other, odd), ('add_edge', odd, odd),
                             ('add_edges_from', [(1, 1 if c != 'Graph' else 2), (odd, other)]), ('add_edges_from', [(1, 2, 3)]),
                             ('remove_edge', odd, other), ('remove_edge', other, odd), ('update_vertex_number', odd)]
                    for op in cands:
                        ops = pre + [op, ('add_edge', 2, 1)]
                        n += 1
                        ctx.case(('odd', c, tuple(map(repr, ops))), nontrivial=True)
                        bad = run_history(c, init, ops, networkx_too=False)
                        if bad and ':nonint' in bad[0]:
                            # vertex arguments that are not integers are OUTSIDE the quantifier of C16 ("vertices out of
                            # range, self-loops"): recorded as observations in the evidence, never as violations
                            observations.setdefault(bad[0], bad[1])
                        elif bad:
                            ctx.violation(bad[0], bad[1], {'fn': 'checks.C16:replay_history', 'args': dict(cname=c, init=init, ops=_ops_json(ops))})
    ctx.section('non_integer_arguments', note='outside the property quantifier; observations only', observed=observations)
    ctx.bounds['odd arguments'] = '{} histories with one argument among {} (observations only: non-integer vertices are outside the property)'.format(n, list(map(repr, ODD)))


def run(ctx):
    from checks import proofs
    proofs.run_group(ctx, 'C16')
    only = getattr(ctx, 'only', None)
    if not only or 'walk' in only:
        bounded_walk(ctx)
    if not only or 'plain' in only:
        bounded_plain(ctx)
    ctx.assume('reference model: vertex count and a Python set of edges (checks/C16.py), independent of cnfgen')
    ctx.assume('memoisation key = the attribute dictionary of the object (what the object does next depends only on it)')
    ctx.assume('networkx graphs are built and inspected through the networkx API (external, trusted)')
    ctx.assume("an insertion the class does not allow must raise ValueError; removing an absent edge, update_vertex_number "
               "with a negative value and any add_edge on a CompleteBipartiteGraph may raise or not but must change nothing")


def replay(ctx, data):
    return generic_replay(data)
