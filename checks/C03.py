"""C03 - contradiction and Ramsey-type benchmarks have the documented satisfiability.

bounded part
  structural : the clause multiset of every family, decoded to labelled atoms through the public
               labels of the formula (`all_variable_labels`), equals an independent reference
               generator written from the documented axiom list
  semantic   : numpy truth tables (<= 16 variables) / z3 say UNSAT for every contradiction instance
               with a non-empty domain; planted ordering principle SAT iff an ordering with the single
               allowed minimum exists (brute force over permutations); Ramsey / van der Waerden /
               Pythagorean-triples: the models are in bijection with the good colourings
               (independent brute force over the colourings).
Every case is evaluated by a top-level function `eval_*` (used by the pool workers and by replay).
An `eval_*` returns a list of problems [(tag, text)]; empty list = property holds on that input.
"""
import itertools
import multiprocessing
import random
import re
from collections import Counter
from functools import lru_cache

import numpy as np

from vlib import core, sat
from vlib import enumerate as en
from vlib.replay import generic_replay

LEVEL = 'exploration'
TABLE_MAX = 16          # truth table up to this many variables, z3 beyond


# ------------------------------------------------------------------------------------------
# decoding: variable id -> atom (first letter of the label, integers of the label)
# ------------------------------------------------------------------------------------------
def parse_label(lab):
    m = re.search('[A-Za-z]', lab)
    return (lab[m.start()] if m else '?',) + tuple(int(x) for x in re.findall(r'\d+', lab))


def decode(F):
    """returns (atoms, clauses, problem): atoms[i] = atom of variable i+1;
    clauses = list of frozenset((atom, positive?))"""
    labels = list(F.all_variable_labels())
    n = F.number_of_variables()
    if len(labels) != n:
        return None, None, '{} labels for {} variables'.format(len(labels), n)
    atoms = [parse_label(l) for l in labels]
    if len(set(atoms)) != len(atoms):
        dup = [a for a, c in Counter(atoms).items() if c > 1][:3]
        return None, None, 'labels do not identify the variables: repeated {}'.format(dup)
    clauses = []
    for cl in F:
        for l in cl:
            if not (isinstance(l, int) and 1 <= abs(l) <= n):
                return None, None, 'clause {} mentions a literal outside 1..{}'.format(cl, n)
        clauses.append(frozenset((atoms[abs(l) - 1], l > 0) for l in cl))
    return atoms, clauses, None


def fmt_clause(c):
    return '[' + ' '.join(('' if pos else '~') + a[0] + ','.join(map(str, a[1:])).join('()')
                          for a, pos in sorted(c)) + ']'


def diff_clauses(actual, reference, multiset=True):
    """None if equal, else a text naming a missing / extra axiom"""
    A, R = Counter(actual), Counter(reference)
    if not multiset:
        A, R = Counter(set(A)), Counter(set(R))
    if A == R:
        return None
    missing = R - A
    extra = A - R
    out = []
    if missing:
        c = sorted(missing, key=lambda c: (len(c), sorted(c)))[0]
        out.append('{} documented axiom(s) missing, e.g. {}'.format(sum(missing.values()), fmt_clause(c)))
    if extra:
        c = sorted(extra, key=lambda c: (len(c), sorted(c)))[0]
        out.append('{} clause(s) that are no documented axiom (or repeated), e.g. {}'.format(sum(extra.values()), fmt_clause(c)))
    return '; '.join(out)


def is_taut(c):
    return any((a, not p) in c for a, p in c)


def raw_clauses(F):
    return [list(c) for c in F]


def is_sat(n, clauses):
    if any(len(c) == 0 for c in clauses):
        return False
    if n <= TABLE_MAX:
        return bool(sat.cnf_table(n, clauses).any())
    return sat.z3_is_sat(n, clauses)


def _call(fn, *a, **kw):
    """call into cnfgen; returns (value, None) or (None, 'raised ...')"""
    try:
        return fn(*a, **kw), None
    except Exception as e:  # the property promises a formula for every legal parameter choice
        return None, 'raised {}: {}'.format(type(e).__name__, e)


# ------------------------------------------------------------------------------------------
# ordering principle / graph ordering principle
# ------------------------------------------------------------------------------------------
VARIANTS = {
    'plain': dict(total=False, smart=False, knuth=0),
    'total': dict(total=True, smart=False, knuth=0),
    'smart': dict(total=False, smart=True, knuth=0),
    'smart+total': dict(total=True, smart=True, knuth=0),
    'knuth2': dict(total=False, smart=False, knuth=2),
    'knuth3': dict(total=False, smart=False, knuth=3),
    'total+knuth2': dict(total=True, smart=False, knuth=2),
    'total+knuth3': dict(total=True, smart=False, knuth=3),
}


def ref_ordering(n, edges, total, smart, plant, knuth):
    """documented axioms: non-minimality of every vertex w.r.t. its neighbours (last vertex exempt when
    planted), transitivity (Knuth 2: only middle element largest; Knuth 3: only last element largest),
    antisymmetry, totality (if total).  smart: one variable per unordered pair (u<v), x(u,v) = 'u before v'."""
    nb = {v: set() for v in range(1, n + 1)}
    for u, v in edges:
        nb[u].add(v)
        nb[v].add(u)

    def lt(u, v):           # literal 'u is before v'
        if not smart:
            return (('x', u, v), True)
        return (('x', u, v), True) if u < v else (('x', v, u), False)

    def neg(l):
        return (l[0], not l[1])
    V = range(1, n + 1)
    out = []
    for v in V:
        if plant and v == n:
            continue
        out.append(frozenset(lt(u, v) for u in nb[v]))
    trans = []
    for a, b, c in itertools.permutations(V, 3):
        if not smart:
            if knuth == 2 and not (b > a and b > c):
                continue
            if knuth == 3 and not (c > a and c > b):
                continue
        trans.append(frozenset([neg(lt(a, b)), neg(lt(b, c)), lt(a, c)]))
    if smart:
        # the same axiom is written several times with the shared variables: keep each once;
        # antisymmetry and totality are built into the representation
        out.extend(sorted(set(trans), key=sorted))
        return out
    out.extend(trans)
    for a, b in itertools.combinations(V, 2):
        out.append(frozenset([neg(lt(a, b)), neg(lt(b, a))]))
        if total:
            out.append(frozenset([lt(a, b), lt(b, a)]))
    return out


def planted_ordering_exists(n, edges):
    """is there a linear order of 1..n in which every vertex but n has a neighbour before it"""
    nb = {v: set() for v in range(1, n + 1)}
    for u, v in edges:
        nb[u].add(v)
        nb[v].add(u)
    for perm in itertools.permutations(range(1, n + 1)):
        seen = set()
        ok = True
        for v in perm:
            if v != n and not (nb[v] & seen):
                ok = False
                break
            seen.add(v)
        if ok:
            return True
    return False


def eval_ordering(n, edges, variant, plant, complete):
    """complete=True: OrderingPrinciple(n) (edges ignored); else GraphOrderingPrinciple on the graph"""
    core.import_repo()
    from cnfgen.families.ordering import OrderingPrinciple, GraphOrderingPrinciple
    from cnfgen.graphs import Graph
    kw = VARIANTS[variant]
    if complete:
        edges = list(itertools.combinations(range(1, n + 1), 2))
        F, err = _call(OrderingPrinciple, n, kw['total'], kw['smart'], plant, kw['knuth'])
    else:
        G = Graph(n)
        for u, v in edges:
            G.add_edge(u, v)
        F, err = _call(GraphOrderingPrinciple, G, kw['total'], kw['smart'], plant, kw['knuth'])
    if err:
        return [('exception', err)]
    probs = []
    atoms, clauses, bad = decode(F)
    if bad:
        return [('structure', bad)]
    d = diff_clauses(clauses, ref_ordering(n, edges, kw['total'], kw['smart'], plant, kw['knuth']))
    if d:
        probs.append(('structure', d))
    if n >= 1:
        got = is_sat(F.number_of_variables(), raw_clauses(F))
        if not plant:
            if got:
                probs.append(('unsat', 'formula is satisfiable'))
        else:
            want = planted_ordering_exists(n, edges)
            if got != want:
                probs.append(('planted', 'formula is {} but an ordering with the last vertex as only minimum {}'.format(
                    'SAT' if got else 'UNSAT', 'exists' if want else 'does not exist')))
    return probs


def replay_ordering(n, edges, variant, plant, complete):
    return not eval_ordering(n, [tuple(e) for e in edges], variant, plant, complete)


# ------------------------------------------------------------------------------------------
# pebbling, stone, sparse stone
# ------------------------------------------------------------------------------------------
def _dag(n, edges):
    core.import_repo()
    from cnfgen.graphs import DirectedGraph
    D = DirectedGraph(n)
    for u, v in edges:
        D.add_edge(u, v)
    return D


def _preds(n, edges):
    pred = {v: [] for v in range(1, n + 1)}
    has_succ = set()
    for u, v in edges:
        pred[v].append(u)
        has_succ.add(u)
    sinks = [v for v in range(1, n + 1) if v not in has_succ]
    return pred, sinks


def ref_pebbling(n, edges):
    pred, sinks = _preds(n, edges)
    out = []
    for v in range(1, n + 1):
        out.append(frozenset([(('x', p), False) for p in pred[v]] + [(('x', v), True)]))
    for v in sinks:
        out.append(frozenset([(('x', v), False)]))
    return out


def eval_pebbling(n, edges):
    core.import_repo()
    from cnfgen.families.pebbling import PebblingFormula
    F, err = _call(PebblingFormula, _dag(n, edges))
    if err:
        return [('exception', err)]
    atoms, clauses, bad = decode(F)
    if bad:
        return [('structure', bad)]
    probs = []
    d = diff_clauses(clauses, ref_pebbling(n, edges))
    if d:
        probs.append(('structure', d))
    if n >= 1 and is_sat(F.number_of_variables(), raw_clauses(F)):
        probs.append(('unsat', 'formula is satisfiable'))
    return probs


def replay_pebbling(n, edges):
    return not eval_pebbling(n, [tuple(e) for e in edges])


def ref_stone(n, edges, allowed):
    """allowed[v] = stones allowed on vertex v.  P(v,j): stone j on v; R(j): stone j red.
    every vertex has a stone; for every vertex v with stone j and every choice of stones on its
    predecessors: all those red -> j red (sources: no predecessor); stones on sinks are not red.
    Instances of the induction axiom that are tautologies (a predecessor carrying j itself) are no axioms."""
    pred, sinks = _preds(n, edges)
    out = []
    for v in range(1, n + 1):
        out.append(frozenset((('P', v, j), True) for j in allowed[v]))
    for v in range(1, n + 1):
        for j in allowed[v]:
            for pattern in itertools.product(*[allowed[p] for p in pred[v]]):
                c = frozenset([(('P', p, s), False) for p, s in zip(pred[v], pattern)] +
                              [(('P', v, j), False)] +
                              [(('R', s), False) for s in pattern] + [(('R', j), True)])
                if not is_taut(c):
                    out.append(c)
    for v in sinks:
        for j in allowed[v]:
            out.append(frozenset([(('P', v, j), False), (('R', j), False)]))
    return out


def eval_stone(n, edges, nstones, bedges):
    """bedges None: StoneFormula(D, nstones); else SparseStoneFormula(D, B) with B = n x nstones"""
    core.import_repo()
    from cnfgen.families.pebbling import StoneFormula, SparseStoneFormula
    from cnfgen.graphs import BipartiteGraph
    D = _dag(n, edges)
    if bedges is None:
        allowed = {v: list(range(1, nstones + 1)) for v in range(1, n + 1)}
        F, err = _call(StoneFormula, D, nstones)
    else:
        B = BipartiteGraph(n, nstones)
        allowed = {v: [] for v in range(1, n + 1)}
        for u, j in bedges:
            B.add_edge(u, j)
            allowed[u].append(j)
        F, err = _call(SparseStoneFormula, D, B)
    if err:
        return [('exception', err)]
    atoms, clauses, bad = decode(F)
    if bad:
        return [('structure', bad)]
    probs = []
    d = diff_clauses(clauses, ref_stone(n, edges, allowed))
    if d:
        probs.append(('structure', d))
    if n >= 1 and is_sat(F.number_of_variables(), raw_clauses(F)):
        probs.append(('unsat', 'formula is satisfiable'))
    return probs


def replay_stone(n, edges, nstones, bedges):
    return not eval_stone(n, [tuple(e) for e in edges], nstones,
                          None if bedges is None else [tuple(e) for e in bedges])


# ------------------------------------------------------------------------------------------
# CPLS
# ------------------------------------------------------------------------------------------
def _log2(x):
    k = 0
    while (1 << k) < x:
        k += 1
    return k


def ref_cpls(a, b, c):
    """Axiom 1: ~G_1(1,y).  Axiom 2 (i<a): f_i(x)=x' and G_{i+1}(x',y) -> G_i(x,y).
    Axiom 3: u(x)=y -> G_a(x,y).  Values x' and y are written in binary as x'-1, y-1; atom
    (f,i,x,t) / (u,x,t) is the bit of weight 2^t."""
    lb, lc = _log2(b), _log2(c)

    def differs(prefix, value, nbits):     # literals of the clause 'the bit string is not value'
        return [((prefix + (t,)), not bool((value >> t) & 1)) for t in range(nbits)]
    out = []
    for y in range(1, c + 1):
        out.append(frozenset([(('G', 1, 1, y), False)]))
    for i in range(1, a):
        for x in range(1, b + 1):
            for xx in range(1, b + 1):
                for y in range(1, c + 1):
                    out.append(frozenset(differs(('f', i, x), xx - 1, lb) +
                                         [(('G', i + 1, xx, y), False), (('G', i, x, y), True)]))
    for x in range(1, b + 1):
        for y in range(1, c + 1):
            out.append(frozenset(differs(('u', x), y - 1, lc) + [(('G', a, x, y), True)]))
    return out


def eval_cpls(a, b, c):
    core.import_repo()
    from cnfgen.families.cpls import CPLSFormula
    F, err = _call(CPLSFormula, a, b, c)
    if err:
        return [('exception', err)]
    atoms, clauses, bad = decode(F)
    if bad:
        return [('structure', bad)]
    probs = []
    d = diff_clauses(clauses, ref_cpls(a, b, c))
    if d:
        probs.append(('structure', d))
    if is_sat(F.number_of_variables(), raw_clauses(F)):
        probs.append(('unsat', 'formula is satisfiable'))
    return probs


def replay_cpls(a, b, c):
    return not eval_cpls(a, b, c)


# ------------------------------------------------------------------------------------------
# Pitfall
# ------------------------------------------------------------------------------------------
def _components(vs, edges):
    comp = {v: v for v in vs}

    def find(x):
        while comp[x] != x:
            x = comp[x]
        return x
    for u, v in edges:
        comp[find(u)] = find(v)
    out = {}
    for v in vs:
        out.setdefault(find(v), []).append(v)
    return list(out.values())


def ref_pitfall_rest(k, ny, nz, E, omitted):
    """everything but the hard part.  E = edge list in the order of the edge variables;
    omitted[j][i] = index of the p variable left out of the i-th pipe clause of copy j.
    pitfall gadget: y1 v y2 v ~p for any two easy variables of a copy and every p of the copy;
    pipe gadget for y over S = x_1..x_m z_1..z_n: clause i = y v (all p but one) v s_1..s_{i-1} v ~s_i,
      where the last clause does not contain z_1;
    tail gadget for (y,z): ~a1 v a3 v ~z, ~a2 v ~a3 v ~z, a1 v ~z v ~y, a2 v ~z v ~y;
    easy part: for i = 1,3,5,.. (i+1 <= ny): OR over the copies of ~y_i v ~y_{i+1}."""
    m = len(E)
    out = []
    for j in range(1, k + 1):
        Y = [('y', j, i) for i in range(1, ny + 1)]
        Z = [('z', j, i) for i in range(1, nz + 1)]
        P = [('p', j, i) for i in range(1, m + nz + 1)]
        X = [('e', j, u, v) for u, v in E]
        A = {i: ('a', j, i) for i in (1, 2, 3)}
        for y1, y2 in itertools.combinations(Y, 2):
            for p in P:
                out.append(frozenset([(y1, True), (y2, True), (p, False)]))
        S = X + Z
        for y in Y:
            for i in range(len(S)):
                before = S[:i]
                if i == len(S) - 1:
                    before = [s for s in before if s != Z[0]]
                out.append(frozenset([(y, True)] + [(p, True) for t, p in enumerate(P, 1) if t != omitted[j][i]] +
                                     [(s, True) for s in before] + [(S[i], False)]))
        for y in Y:
            for z in Z:
                out.append(frozenset([(A[1], False), (A[3], True), (z, False)]))
                out.append(frozenset([(A[2], False), (A[3], False), (z, False)]))
                out.append(frozenset([(A[1], True), (z, False), (y, False)]))
                out.append(frozenset([(A[2], True), (z, False), (y, False)]))
    for i in range(1, ny, 2):
        out.append(frozenset((('y', j, t), False) for j in range(1, k + 1) for t in (i, i + 1)))
    return out


def ref_tseitin_copy(j, v, E, charge, nz):
    """Tseitin clauses of copy j (vertex u: XOR of the incident edges = charge[u]) each extended
    with all safety variables of the copy"""
    Z = [(('z', j, i), True) for i in range(1, nz + 1)]
    out = []
    for u in range(1, v + 1):
        inc = [('e', j, a, b) for a, b in E if u in (a, b)]
        for signs in itertools.product([True, False], repeat=len(inc)):
            nneg = sum(1 for s in signs if not s)
            if nneg % 2 != charge[u - 1] % 2:        # clause excludes an assignment of the wrong parity
                out.append(frozenset([(x, s) for x, s in zip(inc, signs)] + Z))
    return out


def eval_pitfall(v, d, ny, nz, k, seed):
    core.import_repo()
    from cnfgen.families.pitfall import PitfallFormula
    random.seed(seed)
    F, err = _call(PitfallFormula, v, d, ny, nz, k)
    if err:
        return [('exception', err)]
    atoms, clauses, bad = decode(F)
    if bad:
        return [('structure', bad)]
    probs = []
    struct = _pitfall_structure(atoms, clauses, v, d, ny, nz, k)
    if struct:
        probs.append(('structure', struct))
    if is_sat(F.number_of_variables(), raw_clauses(F)):
        probs.append(('unsat', 'formula is satisfiable'))
    return probs


def _pitfall_structure(atoms, clauses, v, d, ny, nz, k):
    by = {}
    for a in atoms:
        by.setdefault(a[0], []).append(a)
    if set(by) != set('eyzpa'):
        return 'variable groups {} instead of e,y,z,p,a'.format(sorted(by))
    E = None
    for j in range(1, k + 1):
        Ej = [(a[2], a[3]) for a in by['e'] if a[1] == j]      # in variable order
        if E is None:
            E = Ej
        elif Ej != E:
            return 'copy {} of the hard variables is over a different edge list'.format(j)
    if len(by['e']) != k * len(E or []):
        return 'hard variables are not k copies of the edge set'
    deg = Counter()
    for a, b in E:
        if not (1 <= a <= v and 1 <= b <= v and a != b):
            return 'edge {} outside the vertex set'.format((a, b))
        deg[a] += 1
        deg[b] += 1
    if len(set(frozenset(e) for e in E)) != len(E) or any(deg[u] != d for u in range(1, v + 1)):
        return 'the hard part is not over a {}-regular simple graph on {} vertices: {}'.format(d, v, E)
    m = len(E)
    want = {'y': {('y', j, i) for j in range(1, k + 1) for i in range(1, ny + 1)},
            'z': {('z', j, i) for j in range(1, k + 1) for i in range(1, nz + 1)},
            'p': {('p', j, i) for j in range(1, k + 1) for i in range(1, m + nz + 1)},
            'a': {('a', j, i) for j in range(1, k + 1) for i in range(1, 4)}}
    for g in want:
        if set(by[g]) != want[g]:
            return 'variable group {} has indices {}.. instead of the documented block'.format(g, sorted(by[g])[:3])
    # which p is left out of which pipe clause is a matter of naming the p's: read it off the pipe
    # clauses of the first easy variable of each copy (it must be a bijection, the same for every y)
    omitted = {}
    for j in range(1, k + 1):
        y1 = (('y', j, 1), True)
        Pj = {('p', j, i) for i in range(1, m + nz + 1)}
        om = {}
        for c in clauses:
            if y1 in c and len(c) >= len(Pj) and all(a[0] in 'yepz' for a, _ in c):
                ps = {a for a, pos in c if a[0] == 'p' and pos}
                if len(ps) == len(Pj) - 1 and ps <= Pj:
                    pos_s = sum(1 for a, pos in c if a[0] in 'ez' and pos)
                    neg_s = [a for a, pos in c if a[0] in 'ez' and not pos]
                    if len(neg_s) == 1:
                        S = [('e', j, a, b) for a, b in E] + [('z', j, i) for i in range(1, nz + 1)]
                        if neg_s[0] in S:
                            om[S.index(neg_s[0])] = (Pj - ps).pop()[2]
        if sorted(om) != list(range(m + nz)) or len(set(om.values())) != m + nz:
            return 'pipe gadget of copy {}: the clauses do not leave out each p exactly once'.format(j)
        omitted[j] = om
    rest = ref_pitfall_rest(k, ny, nz, E, omitted)
    comps = _components(range(1, v + 1), E)
    best = None
    for charge in itertools.product([0, 1], repeat=v):
        if not any(sum(charge[u - 1] for u in comp) % 2 for comp in comps):
            continue        # a satisfiable Tseitin formula is not the documented hard part
        ref = list(rest)
        for j in range(1, k + 1):
            ref.extend(ref_tseitin_copy(j, v, E, charge, nz))
        dd = diff_clauses(clauses, ref, multiset=False)
        if dd is None:
            return None
        if charge == (1,) + (0,) * (v - 1):
            best = dd
    return 'no unsatisfiable charge makes the clauses equal to the documented parts; with odd charge on vertex 1: ' + str(best)


def replay_pitfall(v, d, ny, nz, k, seed):
    return not eval_pitfall(v, d, ny, nz, k, seed)


# ------------------------------------------------------------------------------------------
# colourings: models <-> good colourings
# ------------------------------------------------------------------------------------------
def _colouring_digit(size, C, pos):
    """vector over all C^size colourings: colour of object number pos (0-based)"""
    idx = np.arange(C ** size, dtype=np.int64)
    return (idx // (C ** pos)) % C


def compare_models(table, nvars, objects, C, var_of, good, flip=False):
    """table: truth table of the formula over nvars variables.
    objects: list of coloured objects; colouring index = sum colour(obj_t) * C^t.
    C == 2 and var_of(obj) -> one variable (colour = value of the variable, or its negation if flip);
    C > 2: var_of(obj, c) -> variable 'obj has colour c' (c = 0..C-1).
    good: boolean vector over the C^len(objects) colourings.  Returns None or a text."""
    models = np.flatnonzero(table).astype(np.int64)
    col = np.zeros(len(models), dtype=np.int64)
    for t, o in enumerate(objects):
        if C == 2:
            bit = (models >> (var_of[o] - 1)) & 1
            if flip:
                bit = 1 - bit
            col += bit * (C ** t)
        else:
            bits = [(models >> (var_of[(o, c)] - 1)) & 1 for c in range(C)]
            cnt = sum(bits)
            if len(models) and not np.all(cnt == 1):
                a = int(models[np.flatnonzero(cnt != 1)[0]])
                return 'model {} gives object {} {} colours'.format(sat.assignment_of(a, nvars), o, int(cnt[np.flatnonzero(cnt != 1)[0]]))
            which = sum(c * bits[c] for c in range(C))
            col += which * (C ** t)
    ngood = int(good.sum())
    if len(models) and not np.all(good[col]):
        i = int(np.flatnonzero(~good[col])[0])
        return 'model {} is not a good colouring'.format(sat.assignment_of(int(models[i]), nvars))
    ndistinct = int(np.unique(col).size)
    if ndistinct != ngood or len(models) != ngood:
        return '{} models ({} distinct colourings) but {} good colourings exist'.format(len(models), ndistinct, ngood)
    return None


# ---- Ramsey number ------------------------------------------------------------------------
@lru_cache(maxsize=None)
def _alpha_omega(N):
    """vectors over all graphs on N vertices (edge t of combinations order <-> bit t):
    independence number and clique number, by looking at every vertex subset"""
    pairs = list(itertools.combinations(range(1, N + 1), 2))
    size = 1 << len(pairs)
    idx = np.arange(size, dtype=np.int64)
    has = {p: ((idx >> t) & 1).astype(bool) for t, p in enumerate(pairs)}
    alpha = np.zeros(size, dtype=np.int8)
    omega = np.zeros(size, dtype=np.int8)
    for r in range(0, N + 1):
        for S in itertools.combinations(range(1, N + 1), r):
            cl = np.ones(size, dtype=bool)
            ind = np.ones(size, dtype=bool)
            for p in itertools.combinations(S, 2):
                cl &= has[p]
                ind &= ~has[p]
            omega[cl] = r       # r increases, so the last write is the maximum
            alpha[ind] = r
    return pairs, alpha, omega


def ref_ramsey(s, k, N):
    out = []
    for S in itertools.combinations(range(1, N + 1), s):
        out.append(frozenset((('e', u, v), True) for u, v in itertools.combinations(S, 2)))
    for S in itertools.combinations(range(1, N + 1), k):
        out.append(frozenset((('e', u, v), False) for u, v in itertools.combinations(S, 2)))
    return out


def eval_ramsey(s, k, N, semantic=True):
    core.import_repo()
    from cnfgen.families.ramsey import RamseyNumber
    F, err = _call(RamseyNumber, s, k, N)
    if err:
        return [('exception', err)]
    atoms, clauses, bad = decode(F)
    if bad:
        return [('structure', bad)]
    probs = []
    d = diff_clauses(clauses, ref_ramsey(s, k, N))
    if d:
        probs.append(('structure', d))
    if semantic:
        n = F.number_of_variables()
        pairs, alpha, omega = _alpha_omega(N)
        good = (alpha < s) & (omega < k)
        var_of = {(a[1], a[2]): i + 1 for i, a in enumerate(atoms) if a[0] == 'e' and len(a) == 3}
        if set(var_of) != set(pairs) or n > 24:
            probs.append(('models', 'variables {} are not one per pair of vertices'.format(atoms[:4])))
        else:
            m = compare_models(sat.cnf_table(n, raw_clauses(F)), n, pairs, 2, var_of, good)
            if m:
                probs.append(('models', m))
    return probs


def replay_ramsey(s, k, N, semantic=True):
    return not eval_ramsey(s, k, N, semantic)


# ---- van der Waerden ----------------------------------------------------------------------
def progressions(N, k):
    """all arithmetic progressions of length k inside 1..N (a progression of length 1 is one number)"""
    if k == 1:
        return [(i,) for i in range(1, N + 1)]
    out = []
    for i in range(1, N + 1):
        for d in range(1, N + 1):
            if i + (k - 1) * d <= N:
                out.append(tuple(i + t * d for t in range(k)))
    return out


def _vdw_good(N, K):
    C = len(K)
    good = np.ones(C ** N, dtype=bool)
    digit = [None] + [_colouring_digit(N, C, i - 1) for i in range(1, N + 1)]
    for c, kc in enumerate(K):
        for ap in progressions(N, kc):
            mono = np.ones(C ** N, dtype=bool)
            for i in ap:
                mono &= digit[i] == c
            good &= ~mono
    return good


def eval_vdw(N, K, semantic=True):
    core.import_repo()
    from cnfgen.families.ramsey import VanDerWaerden
    F, err = _call(VanDerWaerden, N, *K)
    if err:
        return [('exception:k=1' if 1 in K else 'exception', err)]
    atoms, clauses, bad = decode(F)
    if bad:
        return [('structure', bad)]
    probs = []
    n = F.number_of_variables()
    C = len(K)
    col = ':2colours' if C == 2 else ':multicolour'
    if C == 2:
        # which truth value is colour 1 is a matter of naming: either convention is accepted
        refs = []
        for first in (True, False):
            refs.append([frozenset((('x', i), first) for i in ap) for ap in progressions(N, K[0])] +
                        [frozenset((('x', i), not first) for i in ap) for ap in progressions(N, K[1])])
        ds = [diff_clauses(clauses, r) for r in refs]
        if all(ds):
            probs.append(('structure' + col, ds[0]))
        var_of = {a[1]: i + 1 for i, a in enumerate(atoms) if len(a) == 2}
        objects = list(range(1, N + 1))
    else:
        # colour axioms: the clauses over the colour variables of one number mean 'exactly one colour'
        # (and exclude the colours whose forbidden progression has length 1); the others are one
        # clause per progression of colour c
        groups = {i: [] for i in range(1, N + 1)}
        rest = []
        for cl in clauses:
            nums = {a[1] for a, _ in cl}
            if len(nums) == 1 and all(len(a) == 3 for a, _ in cl):
                groups.setdefault(nums.pop(), []).append(cl)
            else:
                rest.append(cl)
        ref = [frozenset((('x', i, c + 1), False) for i in ap)
               for c, kc in enumerate(K) if kc >= 2 for ap in progressions(N, kc)]
        d = diff_clauses(rest, ref)
        if d:
            probs.append(('structure' + col, d))
        for i, cls in sorted(groups.items()):
            if not (1 <= i <= N):
                probs.append(('structure' + col, 'clauses about number {} outside 1..{}'.format(i, N)))
                break
            ok = True
            for bits in itertools.product([False, True], repeat=C):
                val = all(any(bits[a[2] - 1] == pos for a, pos in cl) for cl in cls)
                want = sum(bits) == 1 and not any(bits[c] and K[c] == 1 for c in range(C))
                if val != want:
                    ok = False
            if not ok:
                probs.append(('structure' + col, 'clauses over the colours of number {} do not say "exactly one allowed colour"'.format(i)))
                break
        var_of = {(a[1], a[2] - 1): i + 1 for i, a in enumerate(atoms) if len(a) == 3}
        objects = list(range(1, N + 1))
    if semantic and n <= 20:
        want_vars = set(objects) if C == 2 else {(o, c) for o in objects for c in range(C)}
        if set(var_of) != want_vars or len(var_of) != n:
            probs.append(('models' + col, 'variables are not one per number{}: {}'.format(' and colour' if C > 2 else '', atoms[:4])))
        else:
            table = sat.cnf_table(n, raw_clauses(F))
            good = _vdw_good(N, K)
            if C == 2:
                ms = [compare_models(table, n, objects, 2, var_of, good, flip=f) for f in (True, False)]
                if all(ms):
                    probs.append(('models' + col, ms[0]))
            else:
                m = compare_models(table, n, objects, C, var_of, good)
                if m:
                    probs.append(('models' + col, m))
    return probs


def replay_vdw(N, K, semantic=True):
    return not eval_vdw(N, list(K), semantic)


# ---- Pythagorean triples ------------------------------------------------------------------
def triples(N):
    sq = {z * z: z for z in range(1, N + 1)}
    out = []
    for x in range(1, N + 1):
        xx = x * x
        for y in range(x + 1, N + 1):
            z = sq.get(xx + y * y)
            if z is not None:
                out.append((x, y, z))
    return out


def eval_ptn(N, semantic=True):
    core.import_repo()
    from cnfgen.families.ramsey import PythagoreanTriples
    F, err = _call(PythagoreanTriples, N)
    if err:
        return [('exception', err)]
    atoms, clauses, bad = decode(F)
    if bad:
        return [('structure', bad)]
    probs = []
    T = triples(N)
    ref = []
    for t in T:
        ref.append(frozenset((('v', i), True) for i in t))
        ref.append(frozenset((('v', i), False) for i in t))
    d = diff_clauses(clauses, ref)
    if d:
        probs.append(('structure', d))
    n = F.number_of_variables()
    if semantic and n <= 24:
        var_of = {a[1]: i + 1 for i, a in enumerate(atoms) if len(a) == 2}
        if set(var_of) != set(range(1, N + 1)) or len(var_of) != n:
            probs.append(('models', 'variables are not one per number: {}'.format(atoms[:4])))
        else:
            good = np.ones(1 << N, dtype=bool)
            digit = {i: _colouring_digit(N, 2, i - 1) for t in T for i in t}
            for x, y, z in T:
                good &= ~((digit[x] == digit[y]) & (digit[y] == digit[z]))
            m = compare_models(sat.cnf_table(n, raw_clauses(F)), n, list(range(1, N + 1)), 2, var_of, good)
            if m:
                probs.append(('models', m))
    return probs


def replay_ptn(N, semantic=True):
    return not eval_ptn(N, semantic)


# ------------------------------------------------------------------------------------------
# task lists
# ------------------------------------------------------------------------------------------
EVAL = {'ordering': eval_ordering, 'pebbling': eval_pebbling, 'stone': eval_stone, 'cpls': eval_cpls,
        'pitfall': eval_pitfall, 'ramsey': eval_ramsey, 'vdw': eval_vdw, 'ptn': eval_ptn}


def _task(section, fam, vkey, nontrivial, **args):
    return {'section': section, 'fam': fam, 'vkey': vkey, 'nontrivial': nontrivial, 'args': args}


def tasks_ordering(thorough, rng):
    out = []
    maxN = 8 if thorough else 7
    for n in range(0, maxN + 1):
        for variant in VARIANTS:
            for plant in (False, True):
                out.append(_task('op', 'ordering', 'op:{}:' + variant, n >= 2,
                                 n=n, edges=[], variant=variant, plant=plant, complete=True))
    maxV = 5 if thorough else 4
    for n in range(0, maxV + 1):
        for _, edges in en.simple_graphs(n):
            for variant in VARIANTS:
                for plant in (False, True):
                    out.append(_task('gop', 'ordering', 'gop:{}:' + variant, len(edges) > 0,
                                     n=n, edges=edges, variant=variant, plant=plant, complete=False))
    if not thorough:        # quick tier: a seeded sample of the 1024 graphs on 5 vertices
        for _, edges in rng.sample(list(en.simple_graphs(5)), 150):
            for variant in VARIANTS:
                for plant in (False, True):
                    out.append(_task('gop', 'ordering', 'gop:{}:' + variant, len(edges) > 0,
                                     n=5, edges=edges, variant=variant, plant=plant, complete=False))
    return out


def tasks_pebbling(thorough):
    out = []
    for n in range(0, 6):
        for _, edges in en.simple_graphs(n):          # edges (u,v), u<v: every DAG in topological order
            out.append(_task('peb', 'pebbling', 'peb:{}', n >= 1, n=n, edges=edges))
            for s in range(0, 4):
                if n == 5 and (s == 3 or not thorough):
                    continue
                out.append(_task('stone', 'stone', 'stone:{}', n >= 1 and s >= 1, n=n, edges=edges, nstones=s, bedges=None))
    shapes = [(0, 0), (0, 2), (1, 0), (1, 1), (1, 2), (2, 0), (2, 1), (2, 2), (3, 1), (3, 2), (1, 3), (2, 3), (3, 3)]
    if thorough:
        shapes += [(4, 1), (4, 2)]
    for n, s in shapes:
        for _, edges in en.simple_graphs(n):
            for _, _, bedges in en.bipartite_graphs(n, s):
                out.append(_task('sparsestone', 'stone', 'sparsestone:{}', n >= 1 and len(bedges) > 0,
                                 n=n, edges=edges, nstones=s, bedges=bedges))
    return out


def tasks_cpls(thorough):
    out = []
    for a in range(1, 5 if thorough else 4):
        for b in ((1, 2, 4, 8) if thorough else (1, 2, 4)):
            for c in ((1, 2, 4, 8) if thorough else (1, 2, 4)):
                out.append(_task('cpls', 'cpls', 'cpls:{}', True, a=a, b=b, c=c))
    return out


def tasks_pitfall(thorough, seed0):
    out = []
    vd = [(2, 1), (3, 2), (4, 1), (4, 2), (4, 3), (5, 2), (5, 4), (6, 1), (6, 2), (6, 3)]
    if thorough:
        vd += [(6, 4), (6, 5), (7, 2), (8, 3)]
    for v, d in vd:
        for ny in (2, 3, 4) if thorough else (2, 3):
            for nz in (2, 3):
                for k in (2, 4):
                    base = 3 if not thorough else 8
                    nseeds = 20 if (ny, nz, k) == (2, 2, 2) else base
                    for s in range(nseeds):
                        out.append(_task('pitfall', 'pitfall', 'pitfall:{}', True,
                                         v=v, d=d, ny=ny, nz=nz, k=k, seed=seed0 * 1000 + s))
    return out


def tasks_colourings(thorough):
    out = []
    # Ramsey
    maxsk, maxN = (5, 7) if thorough else (4, 6)
    for s in range(1, maxsk + 1):
        for k in range(1, maxsk + 1):
            for N in range(0, maxN + 1):
                out.append(_task('ram', 'ramsey', 'ram:{}', N >= 2, s=s, k=k, N=N, semantic=True))
            for N in (maxN + 1, maxN + 3):
                out.append(_task('ram', 'ramsey', 'ram:{}', True, s=s, k=k, N=N, semantic=False))
    # van der Waerden
    maxk, maxN = (5, 16) if thorough else (4, 12)
    for k1 in range(1, maxk + 1):
        for k2 in range(1, maxk + 1):
            for N in range(0, maxN + 1):
                out.append(_task('vdw', 'vdw', 'vdw:{}', N >= 1, N=N, K=[k1, k2], semantic=True))
            out.append(_task('vdw', 'vdw', 'vdw:{}', True, N=30, K=[k1, k2], semantic=False))
    m3 = 4 if thorough else 3
    for K in itertools.product(range(1, m3 + 1), repeat=3):
        for N in range(0, 13):
            out.append(_task('vdw', 'vdw', 'vdw:{}', N >= 1, N=N, K=list(K), semantic=N <= 6))
    for K in ([2, 2, 2, 2], [1, 2, 3, 2], [3, 3, 2, 2], [2, 1, 1, 3], [3, 2, 4, 2]) + (([2, 3, 2, 3, 2],) if thorough else ()):
        for N in range(0, 10):
            out.append(_task('vdw', 'vdw', 'vdw:{}', N >= 1, N=N, K=list(K), semantic=N * len(K) <= 20))
    # Pythagorean triples
    for N in range(0, 61):
        out.append(_task('ptn', 'ptn', 'ptn:{}', N >= 5, N=N, semantic=N <= (22 if thorough else 20)))
    for N in ((100, 169, 200, 1000, 3000, 8000) if thorough else (100, 169, 200, 500)):
        out.append(_task('ptn', 'ptn', 'ptn:{}', True, N=N, semantic=False))
    return out


def _is_heavy(t):
    a = t['args']
    f = t['fam']
    return ((f == 'ptn' and (a['N'] >= 1000 or (a['semantic'] and a['N'] >= 19))) or
            (f == 'ramsey' and a['N'] >= 7) or
            (f == 'vdw' and a['semantic'] and a['N'] * (1 if len(a['K']) == 2 else len(a['K'])) >= 15) or
            (f == 'ordering' and a['n'] >= 7) or
            (f == 'cpls' and a['a'] * a['b'] * a['c'] >= 48))


def _run_task(t):
    return EVAL[t['fam']](**t['args'])


REPLAY = {'ordering': 'replay_ordering', 'pebbling': 'replay_pebbling', 'stone': 'replay_stone', 'cpls': 'replay_cpls',
          'pitfall': 'replay_pitfall', 'ramsey': 'replay_ramsey', 'vdw': 'replay_vdw', 'ptn': 'replay_ptn'}


def run_tasks(ctx, tasks):
    only = getattr(ctx, 'only', None)
    if only:
        tasks = [t for t in tasks if only in t['section']]
    if not tasks:
        return
    nproc = min(16, multiprocessing.cpu_count() or 1)
    if nproc > 1 and len(tasks) > 50:
        # the few heavy tasks go one by one to the workers first, the many small ones follow in chunks;
        # results are put back in task order, so the outcome does not depend on the scheduling
        heavy = [i for i, t in enumerate(tasks) if _is_heavy(t)]
        light = [i for i, t in enumerate(tasks) if not _is_heavy(t)]
        mp = multiprocessing.get_context('spawn')
        with mp.Pool(nproc) as pool:
            rh = pool.map_async(_run_task, [tasks[i] for i in heavy], chunksize=1)
            rl = pool.map_async(_run_task, [tasks[i] for i in light],
                                chunksize=max(1, min(32, len(light) // (nproc * 16))))
            results = [None] * len(tasks)
            for i, r in zip(heavy, rh.get()):
                results[i] = r
            for i, r in zip(light, rl.get()):
                results[i] = r
    else:
        results = [_run_task(t) for t in tasks]
    counts = Counter()
    for t, probs in zip(tasks, results):
        ctx.case((t['fam'], sorted(t['args'].items(), key=lambda kv: kv[0])), nontrivial=t['nontrivial'])
        counts[t['section']] += 1
        for tag, text in probs:
            ctx.violation(t['vkey'].format(tag), '{}({}) : {}'.format(t['fam'], _short(t['args']), text),
                          {'fn': 'checks.C03:' + REPLAY[t['fam']], 'args': t['args']})
    for sec, c in sorted(counts.items()):
        ctx.section(sec, cases=c)


def _short(args):
    s = ', '.join('{}={}'.format(k, v) for k, v in args.items())
    return s if len(s) < 200 else s[:200] + '...'


def check_float_sqrt_assumption(ctx):
    """the family computes int(sqrt(x^2+y^2)); our reference uses exact integer squares.  Nothing is
    assumed: the structural comparison itself exposes a float slip within the enumerated N."""
    ctx.assume('ptn reference uses exact integer arithmetic (dictionary of squares)')


def run(ctx):
    from checks import proofs
    proofs.run_group(ctx, 'C03')
    thorough = ctx.tier == 'thorough'
    ctx.rule('C03 bounded: one case = (family, parameters[, graph][, variant][, seed]); each case compares the decoded clause '
             'multiset with an independent generator of the documented axioms and decides satisfiability / the model set '
             'independently; non-trivial iff the instance has at least one non-degenerate axiom '
             '(>= 2 elements / >= 1 edge / >= 1 vertex and stone / N >= 1)')
    ctx.bounds['op'] = 'OrderingPrinciple N = 0..{}, 8 flag combinations (plain,total,smart,smart+total,knuth2,knuth3,total+knuth2/3) x plant'.format(8 if thorough else 7)
    ctx.bounds['gop'] = 'GraphOrderingPrinciple on all labelled graphs with <= {} vertices, same 16 variants{}'.format(5 if thorough else 4, '' if thorough else '; plus a seeded sample of 150 graphs on 5 vertices')
    ctx.bounds['peb/stone'] = 'pebbling: all DAGs (edges u<v) with <= 5 vertices; stone: <= {} vertices, stones 0..3{}; sparse stone: all DAGs x all availability graphs of shapes up to {}'.format(
        5 if thorough else 4, ' (0..2 on 5 vertices)' if thorough else '', '4x2, 3x3' if thorough else '3x3')
    ctx.bounds['cpls'] = 'a = 1..{}, b,c in {}'.format(4 if thorough else 3, '{1,2,4,8}' if thorough else '{1,2,4}')
    ctx.bounds['pitfall'] = '(v,d) with d<v<={}, vd even; ny in 2..{}, nz in {{2,3}}, k in {{2,4}}; {} seeds (20 for ny=nz=k=2)'.format(
        8 if thorough else 6, 4 if thorough else 3, 8 if thorough else 3)
    ctx.bounds['ram'] = 's,k = 1..{}, N = 0..{} (all graphs), structure only for two larger N'.format(*((5, 7) if thorough else (4, 6)))
    ctx.bounds['vdw'] = '2 colours: lengths 1..{} , N = 0..{} (all colourings) and N = 30 (structure); 3 colours lengths 1..{}, N <= 12 (models for N <= 6); some 4-colour tuples'.format(
        *((5, 16, 4) if thorough else (4, 12, 3)))
    ctx.bounds['ptn'] = 'N = 0..60 (models for N <= {}), structure for N in {}'.format(
        *((22, '100,169,200,1000,3000,8000') if thorough else (20, '100,169,200,500')))
    tasks = (tasks_ordering(thorough, random.Random(ctx.seed)) + tasks_pebbling(thorough) + tasks_cpls(thorough) +
             tasks_pitfall(thorough, ctx.seed) + tasks_colourings(thorough))
    run_tasks(ctx, tasks)
    ctx.sample({'family': 'GraphOrderingPrinciple', 'n': 4, 'edges': [(1, 2), (2, 3), (3, 4)], 'variant': 'knuth2', 'plant': True})
    ctx.sample({'family': 'SparseStoneFormula', 'dag': [(1, 3), (2, 3)], 'stones': 2, 'allowed': [(1, 1), (2, 1), (2, 2), (3, 2)]})
    ctx.sample({'family': 'CPLSFormula', 'a': 3, 'b': 4, 'c': 2})
    ctx.sample({'family': 'PitfallFormula', 'v': 6, 'd': 3, 'ny': 3, 'nz': 2, 'k': 4, 'seed': 1})
    ctx.sample({'family': 'VanDerWaerden', 'N': 9, 'K': [1, 3]})
    ctx.sample({'family': 'RamseyNumber', 's': 3, 'k': 3, 'N': 6})
    ctx.sample({'family': 'PythagoreanTriples', 'N': 20})
    ctx.assume('variables are identified through the labels of the formula (all_variable_labels): first letter + integers of the label')
    ctx.assume('numpy truth tables (vlib/sat.py) for <= 16 variables and z3 beyond decide satisfiability')
    ctx.assume('an empty domain (N = 0, no vertex) is treated as degenerate: structure checked, satisfiability not demanded')
    ctx.assume('Pitfall: the documented axiom list is the structure described in families/pitfall.py (paper not machine-readable here); '
               'which p variable a pipe clause omits and where the odd Tseitin charge sits are treated as naming; clause sets (not multisets) compared')
    ctx.assume('random regular graphs: the outcomes drawn for the listed seeds through the global random module')
    check_float_sqrt_assumption(ctx)


def replay(ctx, data):
    return generic_replay(data)
