"""C20 - solve() and is_satisfiable() report what the SAT solver found.

bounded part: stub solvers (vlib/x_stubsolvers.py) generated into a temporary directory which becomes the
whole PATH; every formula x convention x answer shape x way of naming the solver; the stub logs the
formula it received and the answer it gave; the driver checks the returned pair against that log and
against an independent truth table of the formula, the documented exceptions, and that the private
temporary directory is empty after every call.
"""
import contextlib
import io
import itertools
import os
import tempfile

import numpy as np

from vlib import core, sat
from vlib import x_stubsolvers as xs
from vlib.replay import generic_replay

LEVEL = 'exploration'

CONVS = ('stdin_stdout', 'filein_stdout', 'filein_fileout')
# one representative supported name per convention (facts about the real programs, see x_stubsolvers)
REPRESENTATIVE = {'stdin_stdout': 'lingeling', 'filein_stdout': 'sat4j', 'filein_fileout': 'minisat'}


# ---------------------------------------------------------------------------------
# formulas (JSON-able descriptions)
# ---------------------------------------------------------------------------------
def build_formula(desc):
    cnfgen = core.import_repo()
    kind = desc['kind']
    if kind == 'clauses':
        F = cnfgen.CNF(desc['clauses'])
        F.update_variable_number(desc.get('numvar', 0))
        return F
    if kind == 'php':
        return cnfgen.PigeonholePrinciple(desc['p'], desc['h'])
    if kind == 'op':
        return cnfgen.OrderingPrinciple(desc['n'])
    if kind == 'tseitin':
        G = cnfgen.Graph(desc['n'])
        for u, v in desc['edges']:
            G.add_edge(u, v)
        return cnfgen.TseitinFormula(G, desc['charges'])
    if kind == 'count':
        return cnfgen.CountingPrinciple(desc['m'], desc['p'])
    raise ValueError(kind)


def formulas(thorough):
    out = [
        {'kind': 'clauses', 'clauses': []},                                   # zero variables, no clause
        {'kind': 'clauses', 'clauses': [[]]},                                 # one empty clause
        {'kind': 'clauses', 'clauses': [], 'numvar': 3},                      # variables, no clause
        {'kind': 'clauses', 'clauses': [[1, -2]], 'numvar': 5},               # unused variables
        {'kind': 'clauses', 'clauses': [[1, 2], [-1], [-2, 3]]},
        {'kind': 'clauses', 'clauses': [[1], [-1]]},
        {'kind': 'clauses', 'clauses': [[1, 2], [], [3]]},                    # an empty clause among others
        {'kind': 'clauses', 'clauses': [[-1, -2, -3, -4, -5, -6, -7, -8, -9, -10, -11, 12]], 'numvar': 12},
        {'kind': 'php', 'p': 3, 'h': 2},
        {'kind': 'php', 'p': 2, 'h': 3},
        {'kind': 'tseitin', 'n': 3, 'edges': [(1, 2), (2, 3), (1, 3)], 'charges': [1, 1, 0]},
    ]
    if thorough:
        out += [
            {'kind': 'php', 'p': 4, 'h': 3}, {'kind': 'php', 'p': 3, 'h': 4}, {'kind': 'op', 'n': 3}, {'kind': 'op', 'n': 4},
            {'kind': 'tseitin', 'n': 4, 'edges': [(1, 2), (2, 3), (3, 4), (1, 4)], 'charges': [1, 0, 0, 0]},
            {'kind': 'count', 'm': 4, 'p': 2}, {'kind': 'count', 'm': 5, 'p': 2},
            {'kind': 'clauses', 'clauses': [[i, -(i + 1)] for i in range(1, 15)] + [[-1, 15]], 'numvar': 16},
        ]
    return out


# ---------------------------------------------------------------------------------
class Env:
    """PATH = the stub directory only; a private temporary directory; restored on exit"""

    def __init__(self, base=None):
        self.td = tempfile.TemporaryDirectory(prefix='verif_c20_', dir=base)
        self.bench = xs.StubBench(os.path.join(self.td.name, 'stubs'))
        self.tmp = os.path.join(self.td.name, 'tmp')
        os.makedirs(self.tmp)

    def __enter__(self):
        core.import_repo()      # importing cnfgen runs 'git describe': must happen before PATH is narrowed
        self.saved = {k: os.environ.get(k) for k in ('PATH', 'TMPDIR', 'STUB_CFG')}
        self.saved_tempdir = tempfile.tempdir
        os.environ['PATH'] = self.bench.bin
        os.environ['TMPDIR'] = self.tmp
        os.environ['STUB_CFG'] = self.bench.cfg
        tempfile.tempdir = self.tmp
        return self

    def __exit__(self, *a):
        for k, v in self.saved.items():
            if v is None:
                os.environ.pop(k, None)
            else:
                os.environ[k] = v
        tempfile.tempdir = self.saved_tempdir
        self.td.cleanup()

    def leftovers(self):
        return sorted(os.listdir(self.tmp))

    def sweep(self):
        for f in os.listdir(self.tmp):
            os.unlink(os.path.join(self.tmp, f))


_ENV = None


@contextlib.contextmanager
def environment():
    """re-entrant: replay functions create their own when none is active"""
    global _ENV
    if _ENV is not None:
        yield _ENV
        return
    with Env() as e:
        _ENV = e
        try:
            yield e
        finally:
            _ENV = None


def _call(F, method, cmd, sameas, verbose=0):
    """('ok', value) or ('exc', exception)"""
    try:
        with contextlib.redirect_stderr(io.StringIO()):
            if method == 'solve':
                return 'ok', F.solve(cmd=cmd, sameas=sameas, verbose=verbose)
            return 'ok', F.is_satisfiable(cmd=cmd, sameas=sameas)
    except Exception as e:
        return 'exc', e


def _truth(F):
    n = F.number_of_variables()
    clauses = [list(c) for c in F]
    if n <= 20:
        return bool(sat.cnf_table(n, clauses).any())
    return sat.z3_is_sat(n, clauses)


def _satisfies(w, clauses):
    s = set(w)
    return all(any(l in s for l in c) for c in clauses)


def eval_solve(desc, conv, shape, how, verbose=0):
    """one formula, one convention, one answer shape, one way of naming the solver.
    returns list of (aspect, description) of failed aspects (empty = property holds)"""
    problems = []
    F = build_formula(desc)
    n = F.number_of_variables()
    clauses = [list(c) for c in F]
    ok_shape = (xs.SHAPES_FILEOUT if conv == 'filein_fileout' else xs.SHAPES_STDOUT)[shape]
    rep = REPRESENTATIVE[conv]
    with environment() as env:
        if how == 'name':            # supported solver named on the command line
            env.bench.set_only({rep: (conv, shape)})
            cmd, sameas = rep, None
        elif how == 'flags':         # ... with extra flags
            env.bench.set_only({rep: (conv, shape)})
            cmd, sameas = rep + ' --plain -x', None
        elif how == 'default':       # no command line: the installed solver is found
            env.bench.set_only({rep: (conv, shape)})
            cmd, sameas = None, None
        elif how == 'sameas':        # unsupported program speaking the convention of a supported one
            env.bench.set_only({'my-hacked-solver': (conv, shape)})
            cmd, sameas = 'my-hacked-solver -pre', rep
        elif how == 'sameas-override':   # supported name, but told to use another interface
            other = [c for c in CONVS if c != conv][0]
            env.bench.set_only({REPRESENTATIVE[other]: (conv, shape)})
            cmd, sameas = REPRESENTATIVE[other], rep
        else:
            raise ValueError(how)
        truth = _truth(F)
        results = {}
        for method in ('solve', 'is_satisfiable'):
            env.bench.clear_log()
            env.sweep()
            kind, val = _call(F, method, cmd, sameas, verbose if method == 'solve' else 0)
            results[method] = (kind, val)
            log = env.bench.read_log()
            left = env.leftovers()
            if left:
                problems.append(('tempfiles:' + conv, '{}: temporary files left behind: {}'.format(method, left)))
                env.sweep()
            if len(log) != 1:
                problems.append(('invocation:' + conv, '{}: the solver ran {} times'.format(method, len(log))))
                continue
            rec = log[0]
            # the stub must be a correct solver of what it received (else the checker is broken, not cnfgen)
            rn, rclauses = xs.parse_dimacs(rec['dimacs'])
            if rec['answer']:
                assert _satisfies(rec['model'], rclauses), 'stub solver bug'
            # the formula handed to the solver is F
            if rn != n or rclauses != clauses:
                problems.append(('formula-sent:' + conv, '{}: solver received p cnf {} with {} clauses, formula has {} variables and {} clauses'.format(
                    method, rn, len(rclauses), n, len(clauses))))
                continue
            assert rec['answer'] == truth, 'stub solver disagrees with the truth table'
            where = '{}:{}:{}'.format(method, conv, shape)
            if not ok_shape:
                if kind != 'exc' or not isinstance(val, RuntimeError):
                    problems.append((where, 'solver gave no usable answer (shape {}), expected RuntimeError, got {}'.format(
                        shape, _show(kind, val))))
                continue
            if kind == 'exc':
                problems.append((where, 'solver answered {} (shape {}), but {} raised {}: {}'.format(
                    'SATISFIABLE' if truth else 'UNSATISFIABLE', shape, method, type(val).__name__, val)))
                continue
            if method == 'is_satisfiable':
                if val is not truth:
                    problems.append((where, 'is_satisfiable() = {!r}, solver answered {}'.format(val, truth)))
                continue
            if not (isinstance(val, tuple) and len(val) == 2):
                problems.append((where, 'solve() returned {!r}'.format(val)))
                continue
            verdict, w = val
            if verdict is not truth:
                problems.append((where, 'solve() verdict {!r}, solver answered {}'.format(verdict, truth)))
                continue
            if not truth:
                if w is not None:
                    problems.append((where, 'solve() = (False, {!r}) expected (False, None)'.format(w)))
                continue
            # satisfiable: an assignment, ordered by variable, reporting the solver's model, satisfying F
            if w is None:
                problems.append((('solve:{}:empty-witness'.format(conv) if n == 0 else where), 'solve() = (True, None): no assignment returned (formula with {} variables)'.format(n)))
                continue
            try:
                wl = list(w.items()) if isinstance(w, dict) else list(w)
            except TypeError:
                problems.append((where, 'solve() witness is {!r}'.format(w)))
                continue
            if isinstance(w, dict):
                wl = [v if val_ else -v for v, val_ in sorted(w.items())]
            if any((not isinstance(l, int)) or l == 0 for l in wl):
                problems.append((where, 'witness {!r} is not a list of literals'.format(w)))
                continue
            if [abs(l) for l in wl] != sorted(set(abs(l) for l in wl)):
                problems.append((where, 'witness {!r} is not ordered by variable'.format(w)))
                continue
            if sorted(wl, key=abs) != sorted(rec['model'], key=abs):
                problems.append((where, 'witness {!r} is not the model {} found by the solver'.format(w, rec['model'])))
                continue
            if not _satisfies(wl, clauses):
                problems.append((where, 'witness {!r} does not satisfy the formula'.format(w)))
        # same verdict from both methods
        (k1, v1), (k2, v2) = results['solve'], results['is_satisfiable']
        if k1 != k2 or (k1 == 'ok' and isinstance(v1, tuple) and v1[0] is not v2) or (k1 == 'exc' and type(v1) is not type(v2)):
            problems.append(('agreement:' + conv, 'solve() -> {} but is_satisfiable() -> {}'.format(_show(k1, v1), _show(k2, v2))))
    return problems


def _show(kind, val):
    if kind == 'exc':
        return 'raised {}: {}'.format(type(val).__name__, str(val).strip()[:100])
    return 'returned {!r}'.format(val)


def replay_solve(desc, conv, shape, how, verbose=0):
    return not eval_solve(desc, conv, shape, how, verbose)


_POOL_BASE = None


def _worker_init(base):
    """each worker process owns one environment (stub directory, PATH, temp dir) below `base`"""
    global _ENV
    core.import_repo()
    e = Env(base)
    e.__enter__()
    _ENV = e


def _worker(task):
    fn, args = task
    return {'solve': eval_solve, 'names': eval_names, 'first': eval_first_wins}[fn](**args)


def _run_tasks(tasks):
    """evaluate tasks in worker processes (each with a private environment); results in task order"""
    import multiprocessing as mp
    if _POOL_BASE is None:
        return [_worker(t) for t in tasks]
    nproc = min(12, os.cpu_count() or 2)
    with mp.get_context('fork').Pool(nproc, initializer=_worker_init, initargs=(_POOL_BASE,)) as pool:
        return pool.map(_worker, tasks, chunksize=4)


def bounded_solve(ctx):
    thorough = ctx.tier == 'thorough'
    fs = formulas(thorough)
    hows_all = ['name', 'flags', 'default', 'sameas', 'sameas-override']
    ctx.bounds['solve'] = ('{} formulas (zero variables, empty clause, unused variables, clause-free, php/tseitin{}) x 3 conventions x every answer '
                           'shape ({} for stdout conventions, {} for the result-file convention) x solver named / named with flags / found by '
                           'default / unsupported name with sameas / supported name overridden by sameas; solve() and is_satisfiable()'
                           ).format(len(fs), '/op/count' if thorough else '', sorted(xs.SHAPES_STDOUT), sorted(xs.SHAPES_FILEOUT))
    ctx.rule('C20: one case = (formula, convention, answer shape, way of naming the solver); both solve() and is_satisfiable() are called; '
             'the returned pair is compared with the log of the stub solver and with a truth table; non-trivial iff the formula has a clause or a variable')
    tasks = []
    for desc in fs:
        for conv in CONVS:
            shapes = xs.SHAPES_FILEOUT if conv == 'filein_fileout' else xs.SHAPES_STDOUT
            for shape in shapes:
                hows = hows_all if (thorough or shape == 'plain') else (['name', 'default'] if shape == 'split' else ['name'])
                for how in hows:
                    tasks.append(('solve', dict(desc=desc, conv=conv, shape=shape, how=how)))
    # verbose output must not change the result
    for conv in CONVS:
        for verbose in (1, 2):
            desc = {'kind': 'clauses', 'clauses': [[1, 2], [-1], [-2, 3]]}
            tasks.append(('solve', dict(desc=desc, conv=conv, shape='plain', how='name', verbose=verbose)))
    for (fn, args), problems in zip(tasks, _run_tasks(tasks)):
        ctx.case(('solve', repr(sorted(args.items()))), nontrivial=args['desc'] != {'kind': 'clauses', 'clauses': []})
        for aspect, what in problems:
            ctx.violation(aspect, '{} via {} ({}, shape {}): {}'.format(args['desc'], args['conv'], args['how'], args['shape'], what),
                          {'fn': 'checks.C20:replay_solve', 'args': args})
    ctx.sample({'formula': {'kind': 'clauses', 'clauses': [[1, -2]], 'numvar': 5}, 'convention': 'filein_stdout', 'shape': 'comments', 'how': 'sameas'})
    ctx.sample({'formula': {'kind': 'php', 'p': 3, 'h': 2}, 'convention': 'filein_fileout', 'shape': 'split', 'how': 'default'})


# ---------------------------------------------------------------------------------
# every supported name, and "first installed wins"
# ---------------------------------------------------------------------------------
def eval_names(name, shape='split'):
    """a stub with the real program's convention installed under a supported name is used correctly"""
    desc = {'kind': 'clauses', 'clauses': [[1, 2], [-1], [-2, 3], [4, -3]], 'numvar': 5}
    F = build_formula(desc)
    conv = xs.REAL_CONVENTION[name]
    out = []
    with environment() as env:
        env.bench.set_only({name: (conv, 'split' if shape == 'split' else shape)})
        for cmd in (name, None):
            env.bench.clear_log()
            env.sweep()
            kind, val = _call(F, 'solve', cmd, None)
            log = env.bench.read_log()
            if kind == 'exc' or len(log) != 1 or log[0]['name'] != name or not isinstance(val, tuple) or val[0] is not True \
                    or val[1] is None or sorted(val[1], key=abs) != log[0]['model'] or [abs(x) for x in val[1]] != list(range(1, 6)):
                out.append(('supported-name:' + conv, 'solver {} (cmd={!r}): solve() {} ; solver log {}'.format(
                    name, cmd, _show(kind, val), [(r['name'], r['answer'], r['model']) for r in log])))
            if env.leftovers():
                out.append(('tempfiles:' + conv, 'solver {}: temporary files left: {}'.format(name, env.leftovers())))
                env.sweep()
    return out


def replay_names(name, shape='split'):
    return not eval_names(name, shape)


def eval_first_wins(installed):
    """installed: list of supported names present on PATH; cmd=None must use the first of
    supported_satsolvers() that is installed, and raise RuntimeError when none is"""
    cnfgen = core.import_repo()
    order = cnfgen.supported_satsolvers()
    desc = {'kind': 'clauses', 'clauses': [[1, 2], [-1]]}
    F = build_formula(desc)
    out = []
    with environment() as env:
        env.bench.set_only({nm: (xs.REAL_CONVENTION[nm], 'plain') for nm in installed})
        cand = [nm for nm in order if nm in installed]
        # `sameas` is documented as the interface to use for the solver named in `cmd`; without a command line
        # "the known solvers are tried in succession" and "for the supported solver we can pick the right interface":
        # a valid `sameas` must therefore not change the outcome, an unsupported one raises the documented ValueError.
        sameas_values = [None] + [REPRESENTATIVE[c] for c in CONVS] + ['no-such-solver']
        for cmd in (None, '', '   '):
            for sameas in sameas_values:
                for method in ('solve', 'is_satisfiable'):
                    env.bench.clear_log()
                    env.sweep()
                    kind, val = _call(F, method, cmd, sameas)
                    log = env.bench.read_log()
                    tag = '' if sameas is None else ':sameas'
                    ctxt = 'installed {}, cmd={!r}, sameas={!r}'.format(installed, cmd, sameas)
                    if sameas == 'no-such-solver':
                        if kind != 'exc' or not isinstance(val, ValueError) or log:
                            out.append(('errors:unknown-sameas-autodetect', '{}: {} {}; solvers run: {}; expected ValueError'.format(
                                ctxt, method, _show(kind, val), [r['name'] for r in log])))
                    elif not cand:
                        if kind != 'exc' or not isinstance(val, RuntimeError) or log:
                            out.append(('no-solver' + tag, '{}: nothing installed, {} {}'.format(ctxt, method, _show(kind, val))))
                    else:
                        want = (True, [-1, 2]) if method == 'solve' else True
                        if kind == 'exc' or val != want or [r['name'] for r in log] != [cand[0]]:
                            out.append(('first-installed' + tag, '{}: {} {}; solvers run: {}; expected {} with its own interface (first of supported_satsolvers())'.format(
                                ctxt, method, _show(kind, val), [r['name'] for r in log], cand[0])))
                    if env.leftovers():
                        ran = log[0]['conv'] if log else (xs.REAL_CONVENTION[cand[0]] if cand else 'none')
                        out.append(('tempfiles:' + ran, '{}: temporary files left: {}'.format(ctxt, env.leftovers())))
                        env.sweep()
        some = cnfgen.some_solver_installed()
        if some is not bool(installed):
            out.append(('some_solver_installed', 'installed {}: some_solver_installed() = {!r}'.format(installed, some)))
        for nm in ('lingeling', 'minisat', 'sat4j'):
            got = cnfgen.some_solver_installed(nm)
            if got is not (nm in installed):
                out.append(('some_solver_installed', 'installed {}: some_solver_installed({!r}) = {!r}'.format(installed, nm, got)))
    return out


def replay_first_wins(installed):
    return not eval_first_wins(installed)


def bounded_dispatch(ctx):
    thorough = ctx.tier == 'thorough'
    names = sorted(xs.REAL_CONVENTION)
    ctx.bounds['dispatch'] = ('every supported name with a documented-unambiguous convention ({}) installed alone; all subsets of {} '
                              'installed together with cmd None / empty / blank x sameas in (None, lingeling, sat4j, minisat, an unsupported name)').format(names, ['lingeling', 'minisat', 'sat4j', 'cadical'] if thorough else ['lingeling', 'minisat', 'sat4j'])
    tasks = []
    for name in names:
        for shape in (('split', 'plain', 'scrambled') if thorough else ('split',)):
            tasks.append(('names', dict(name=name, shape=shape)))
    pool = ['lingeling', 'minisat', 'sat4j'] + (['cadical', 'march'] if thorough else [])
    for r in range(len(pool) + 1):
        for sub in itertools.combinations(pool, r):
            tasks.append(('first', dict(installed=list(sub))))
    for (fn, args), problems in zip(tasks, _run_tasks(tasks)):
        ctx.case((fn, repr(sorted(args.items()))))
        for aspect, what in problems:
            ctx.violation(aspect, what, {'fn': 'checks.C20:replay_names' if fn == 'names' else 'checks.C20:replay_first_wins', 'args': args})
    ctx.sample({'installed': ['minisat', 'sat4j'], 'cmd': None, 'expected solver': 'minisat (first in supported_satsolvers())'})


# ---------------------------------------------------------------------------------
# documented errors
# ---------------------------------------------------------------------------------
def eval_error(scenario):
    """documented exception of each misuse; None iff as documented"""
    cnfgen = core.import_repo()
    from cnfgen.utils.solver import sat_solve
    from cnfgen.formula.opb import OPB
    F = build_formula({'kind': 'clauses', 'clauses': [[1, 2], [-1]]})
    out = []
    with environment() as env:
        env.bench.set_only({'lingeling': ('stdin_stdout', 'plain'), 'foosolver': ('stdin_stdout', 'plain')})
        env.bench.clear_log()
        env.sweep()
        calls = {
            # scenario: (callable, expected exception)
            'unknown-sameas': (lambda: F.solve(cmd='lingeling', sameas='nosuchsolver'), ValueError),
            'unknown-sameas-nocmd': (lambda: F.solve(sameas='nosuchsolver'), ValueError),
            'unknown-sameas-is_satisfiable': (lambda: F.is_satisfiable(cmd='foosolver', sameas='foosolver'), ValueError),
            'unsupported-solver': (lambda: F.solve(cmd='foosolver'), RuntimeError),
            'unsupported-solver-is_satisfiable': (lambda: F.is_satisfiable(cmd='foosolver --x'), RuntimeError),
            'missing-solver': (lambda: F.solve(cmd='minisat'), RuntimeError),
            'missing-solver-flags': (lambda: F.is_satisfiable(cmd='cadical -q'), RuntimeError),
            'missing-solver-sameas': (lambda: F.solve(cmd='not-installed-anywhere', sameas='minisat'), RuntimeError),
            'not-a-cnf-opb': (lambda: sat_solve(OPB()), TypeError),
            'not-a-cnf-list': (lambda: sat_solve([[1, 2]]), TypeError),
            'not-a-cnf-cmd': (lambda: sat_solve('p cnf 0 0', cmd='lingeling'), TypeError),
        }
        fn, exc = calls[scenario]
        try:
            with contextlib.redirect_stderr(io.StringIO()):
                r = fn()
            out.append('{}: returned {!r}, expected {}'.format(scenario, r, exc.__name__))
        except exc:
            pass
        except Exception as e:
            out.append('{}: raised {}: {}, expected {}'.format(scenario, type(e).__name__, e, exc.__name__))
        if env.bench.read_log():
            out.append('{}: a solver was run although the call had to be refused'.format(scenario))
        if env.leftovers():
            out.append('{}: temporary files left: {}'.format(scenario, env.leftovers()))
            env.sweep()
    return out


SCENARIOS = ['unknown-sameas', 'unknown-sameas-nocmd', 'unknown-sameas-is_satisfiable', 'unsupported-solver',
             'unsupported-solver-is_satisfiable', 'missing-solver', 'missing-solver-flags', 'missing-solver-sameas',
             'not-a-cnf-opb', 'not-a-cnf-list', 'not-a-cnf-cmd']


def replay_error(scenario):
    return not eval_error(scenario)


def eval_interface_missing(conv):
    """the interface function of a convention, called with a command that cannot be executed: the
    solver is missing, so no verdict may be returned and only RuntimeError is documented; no temp file may stay"""
    core.import_repo()
    from cnfgen.utils import solver as S
    fn = {'stdin_stdout': S._satsolve_stdin_stdout, 'filein_stdout': S._satsolve_filein_stdout,
          'filein_fileout': S._satsolve_filein_fileout}[conv]
    F = build_formula({'kind': 'clauses', 'clauses': [[1, 2], [-1]]})
    out = []
    with environment() as env:
        env.bench.set_only({})
        env.sweep()
        try:
            with contextlib.redirect_stderr(io.StringIO()):
                r = fn(F, 'solver-that-does-not-exist --flag')
            out.append(('result', 'returned {!r} although the solver does not exist'.format(r)))
        except RuntimeError:
            pass
        except Exception as e:
            out.append(('error', 'raised {}: {} instead of RuntimeError'.format(type(e).__name__, e)))
        if env.leftovers():
            out.append(('tempfiles', 'temporary files left: {}'.format(env.leftovers())))
            env.sweep()
    return out


def replay_interface_missing(conv):
    return not eval_interface_missing(conv)


def bounded_errors(ctx):
    ctx.bounds['errors'] = 'scenarios {}; the three interface functions with a command that cannot be executed'.format(SCENARIOS)
    for sc in SCENARIOS:
        ctx.case(('error', sc))
        for what in eval_error(sc):
            ctx.violation('errors:' + sc, what, {'fn': 'checks.C20:replay_error', 'args': dict(scenario=sc)})
    for conv in CONVS:
        ctx.case(('interface-missing', conv))
        for aspect, what in eval_interface_missing(conv):
            ctx.violation('interface-direct:{}:missing-solver:{}'.format(conv, aspect), '{} called directly: {}'.format(conv, what),
                          {'fn': 'checks.C20:replay_interface_missing', 'args': dict(conv=conv)})


def run(ctx):
    from checks import proofs
    proofs.run_group(ctx, 'C20')
    core.import_repo()
    global _POOL_BASE
    with tempfile.TemporaryDirectory(prefix='verif_c20_root_') as root:
        _POOL_BASE = root
        try:
            bounded_solve(ctx)
            bounded_dispatch(ctx)
        finally:
            _POOL_BASE = None
        with environment():
            bounded_errors(ctx)
    ctx.assume('C20: the stub solvers of vlib/x_stubsolvers.py are correct solvers (their model is re-checked against the DIMACS they received, '
               'their verdict against a numpy truth table; a disagreement aborts the check with exit 3)')
    ctx.assume('C20: conventions of the real programs as listed in x_stubsolvers.REAL_CONVENTION; glucose excluded (documented both ways)')
    ctx.assume('C20: PATH consists of the stub directory only, so no real solver interferes')


def replay(ctx, data):
    return generic_replay(data)
