"""C13 - random k-CNF and k-XOR formulas have exactly the promised shape.

bounded part (this file)
  * RandomKCNF / RandomKXOR for every (k, n, m) in a small box, m = 0 .. max+2 (max = number of
    clauses / parities compatible with the planted assignments, counted here by brute force from the
    property statement), planted sets  {} / one / two / duplicated / contradictory pair (thorough: all
    singletons and pairs for n <= 3), seeds 0..S;
  * the same under a *scripted* random module (vlib/x_scripted_random.py): all outcome prefixes of
    length <= D followed by the tails 'low' (every retry collides -> dense fallback), 'high', 'random';
  * the command line  cnfgen randkcnf|randkxor [-p] k n m  (in process, cli(mode='formula')).
Oracles: itertools enumeration of the compatible clauses / parities; numpy truth tables (vlib.sat)
for "the satisfying assignments are the solutions of the linear system".
"""
import itertools
import multiprocessing
import random

import numpy as np

from vlib import core, sat
from vlib.replay import generic_replay
from vlib.x_scripted_random import scripted_random, DrawBudgetExceeded, explore

LEVEL = 'exploration'


# ------------------------------------------------------------------ independent oracle
def compatible_clauses(k, n, planted):
    """number of clauses on k distinct variables out of 1..n that contain, for every planted
    assignment, at least one of its literals"""
    cnt = 0
    pl = [set(a) for a in planted]
    for X in itertools.combinations(range(1, n + 1), k):
        for signs in itertools.product((1, -1), repeat=k):
            lits = {s * x for s, x in zip(signs, X)}
            if all(lits & a for a in pl):
                cnt += 1
    return cnt


def compatible_parities(k, n, planted):
    """number of (X, b), X a k-subset of 1..n, b in {0,1}, with  sum_{x in X} a(x) = b (mod 2) for every
    planted total assignment a"""
    cnt = 0
    pl = [set(a) for a in planted]
    for X in itertools.combinations(range(1, n + 1), k):
        for b in (0, 1):
            if all(sum(1 for x in X if x in a) % 2 == b for a in pl):
                cnt += 1
    return cnt


def _describe_mode(mode):
    return 'seed={}'.format(mode['seed']) if 'seed' in mode else 'script={} tail={}'.format(mode['script'], mode['tail'])


def _call(fn, mode):
    """run fn() under a seed or under the scripted random module.
    returns (status, value, trace): status 'ok' | 'raised' | 'budget'"""
    if 'seed' in mode:
        random.seed(mode['seed'])
        try:
            return 'ok', fn(), []
        except Exception as e:
            return 'raised', e, []
    with scripted_random(mode['script'], mode['tail'], mode.get('tail_seed', 0)) as rng:
        try:
            return 'ok', fn(), rng.trace
        except DrawBudgetExceeded:
            return 'budget', None, rng.trace
        except Exception as e:
            return 'raised', e, rng.trace


def _recorder_class():
    core.import_repo()
    from cnfgen.formula.cnf import CNF

    class RecordingCNF(CNF):
        """the formula class handed to RandomKXOR: remembers the parity constraints it is asked to add"""
        def __init__(self, *a, **kw):
            self.parity_log = []
            super().__init__(*a, **kw)

        def add_parity(self, lits, constant, check=True):
            lits = list(lits)
            self.parity_log.append((tuple(lits), constant))
            return super().add_parity(lits, constant, check=check)
    return RecordingCNF


def _check_error(name, e, expect_error, why):
    if isinstance(e, ValueError):
        if expect_error:
            return None
        return name + ':raises-on-legal-request', 'ValueError({}) although {}'.format(e, why)
    return name + ':wrong-exception', '{}: {} ({})'.format(type(e).__name__, e, why)


# ------------------------------------------------------------------ RandomKCNF
def eval_kcnf(k, n, m, planted, mode):
    """None if the property holds for this call, else (key, what); second component = trace"""
    core.import_repo()
    from cnfgen.families.randomformulas import RandomKCNF
    planted = [list(a) for a in planted]
    before = [list(a) for a in planted]
    if min(k, n, m) < 0:
        status, val, trace = _call(lambda: RandomKCNF(k, n, m, planted_assignments=planted), mode)
        if status == 'raised' and isinstance(val, ValueError):
            return None, trace
        return ('RandomKCNF:negative-argument', 'k={} n={} m={}: expected ValueError, got {}'.format(k, n, m, val if status == 'raised' else 'a formula')), trace
    maxm = compatible_clauses(k, n, planted) if k <= n else 0
    expect_error = k > n or m > maxm
    why = 'k={} n={} m={} planted={} compatible={} {}'.format(k, n, m, before, maxm, _describe_mode(mode))
    status, val, trace = _call(lambda: RandomKCNF(k, n, m, planted_assignments=planted), mode)
    if status == 'budget':
        return None, trace
    if status == 'raised':
        return _check_error('RandomKCNF', val, expect_error, why), trace
    F = val
    if expect_error:
        return ('RandomKCNF:no-error-on-impossible-request', 'a formula with {} clauses was returned; {}'.format(len(list(F)), why)), trace
    if planted != before:
        return ('RandomKCNF:planted-mutated', 'planted assignments changed to {}; {}'.format(planted, why)), trace
    if F.number_of_variables() != n:
        return ('RandomKCNF:variables', '{} variables; {}'.format(F.number_of_variables(), why)), trace
    clauses = [list(c) for c in F]
    if len(clauses) != m or F.number_of_clauses() != m:
        return ('RandomKCNF:clause-count', '{} clauses (number_of_clauses {}); {}'.format(len(clauses), F.number_of_clauses(), why)), trace
    seen = set()
    for c in clauses:
        vs = [abs(l) for l in c]
        if len(c) != k or len(set(vs)) != k or any(not (1 <= v <= n) for v in vs) or any(not isinstance(l, int) for l in c):
            return ('RandomKCNF:clause-shape', 'clause {} is not on {} distinct variables of 1..{}; {}'.format(c, k, n, why)), trace
        fs = frozenset(c)
        if fs in seen:
            return ('RandomKCNF:duplicate-clause', 'clause {} twice; {}'.format(c, why)), trace
        seen.add(fs)
        for a in before:
            if not (set(c) & set(a)):
                return ('RandomKCNF:planted-unsatisfied', 'clause {} false under planted {}; {}'.format(c, a, why)), trace
    return None, trace


def replay_kcnf(k, n, m, planted, mode):
    return eval_kcnf(k, n, m, planted, mode)[0] is None


# ------------------------------------------------------------------ RandomKXOR
def _xor_table(n, system):
    cols = sat.columns(n)
    t = np.ones(1 << n, dtype=bool)
    for X, b in system:
        t &= (sat.count_table(cols, n, list(X)) % 2 == b)
    return t


def eval_kxor(k, n, m, planted, mode):
    core.import_repo()
    from cnfgen.families.randomkxor import RandomKXOR
    Rec = _recorder_class()
    planted = [list(a) for a in planted]
    before = [list(a) for a in planted]
    if min(k, n, m) < 0:
        status, val, trace = _call(lambda: RandomKXOR(k, n, m, planted_assignments=planted), mode)
        if status == 'raised' and isinstance(val, ValueError):
            return None, trace
        return ('RandomKXOR:negative-argument', 'k={} n={} m={}: expected ValueError, got {}'.format(k, n, m, val if status == 'raised' else 'a formula')), trace
    maxm = compatible_parities(k, n, planted) if k <= n else 0
    expect_error = k > n or m > maxm
    why = 'k={} n={} m={} planted={} compatible={} {}'.format(k, n, m, before, maxm, _describe_mode(mode))
    status, val, trace = _call(lambda: RandomKXOR(k, n, m, planted_assignments=planted, formula_class=Rec), mode)
    if status == 'budget':
        return None, trace
    if status == 'raised':
        return _check_error('RandomKXOR', val, expect_error, why), trace
    F = val
    if expect_error:
        return ('RandomKXOR:no-error-on-impossible-request', 'a formula was returned ({} parities); {}'.format(len(F.parity_log), why)), trace
    if planted != before:
        return ('RandomKXOR:planted-mutated', 'planted assignments changed to {}; {}'.format(planted, why)), trace
    if F.number_of_variables() != n:
        return ('RandomKXOR:variables', '{} variables; {}'.format(F.number_of_variables(), why)), trace
    system = F.parity_log
    if len(system) != m:
        return ('RandomKXOR:parity-count', '{} parity constraints; {}'.format(len(system), why)), trace
    seen = set()
    for X, b in system:
        if len(X) != k or len(set(X)) != k or any((not isinstance(x, int)) or not (1 <= x <= n) for x in X) or b not in (0, 1):
            return ('RandomKXOR:parity-shape', 'parity {}={} is not on {} distinct variables of 1..{}; {}'.format(X, b, k, n, why)), trace
        key = (frozenset(X), b)
        if key in seen:
            return ('RandomKXOR:duplicate-parity', 'parity {}={} twice; {}'.format(X, b, why)), trace
        seen.add(key)
        for a in before:
            if sum(1 for x in X if x in a) % 2 != b:
                return ('RandomKXOR:planted-unsatisfied', 'parity {}={} false under planted {}; {}'.format(X, b, a, why)), trace
    # the satisfying assignments are the solutions of the linear system
    want = _xor_table(n, system)
    got = sat.cnf_table(n, [list(c) for c in F])
    if not np.array_equal(want, got):
        a = int(np.flatnonzero(want != got)[0])
        return ('RandomKXOR:models', 'assignment {}: formula {}, linear system {} says {}; {}'.format(
            sat.assignment_of(a, n), bool(got[a]), system, bool(want[a]), why)), trace
    # documented encoding (add_parity docstring): 2^(k-1) clauses of width k per parity => decodable
    if k >= 1:
        bad = _decode_xor_clauses([list(c) for c in F], k, n)
        if isinstance(bad, str):
            return ('RandomKXOR:clauses', bad + '; ' + why), trace
        if bad != seen:
            return ('RandomKXOR:clauses', 'clauses encode the parities {} but {} were requested; {}'.format(sorted(map(_pp, bad)), sorted(map(_pp, seen)), why)), trace
    # default formula class: same seed, same formula
    if 'seed' in mode:
        random.seed(mode['seed'])
        G = RandomKXOR(k, n, m, planted_assignments=planted)
        if G.number_of_variables() != n or not np.array_equal(sat.cnf_table(n, [list(c) for c in G]), want):
            return ('RandomKXOR:models', 'default class CNF: models differ from the linear system {}; {}'.format(system, why)), trace
    return None, trace


def _pp(p):
    return (sorted(p[0]), p[1])


def _decode_xor_clauses(clauses, k, n):
    """clauses of the documented encoding -> set of (frozenset X, b), or an error string.
    A clause with negated set N over variables X excludes exactly the assignment x=1 on N, x=0 on X-N,
    whose parity is |N| mod 2; it belongs to the constraint  sum X = b  with b != |N| mod 2."""
    groups = {}
    for c in clauses:
        vs = [abs(l) for l in c]
        if len(c) != k or len(set(vs)) != k or any(not (1 <= v <= n) for v in vs):
            return 'clause {} is not on {} distinct variables of 1..{}'.format(c, k, n)
        neg = sum(1 for l in c if l < 0)
        key = (frozenset(vs), (neg + 1) % 2)
        g = groups.setdefault(key, set())
        fc = frozenset(c)
        if fc in g:
            return 'clause {} repeated'.format(c)
        g.add(fc)
    for key, g in groups.items():
        if len(g) != 1 << (k - 1):
            return 'parity on {} = {} has {} of its {} clauses'.format(sorted(key[0]), key[1], len(g), 1 << (k - 1))
    return set(groups)


def replay_kxor(k, n, m, planted, mode):
    return eval_kxor(k, n, m, planted, mode)[0] is None


EVAL = {'kcnf': eval_kcnf, 'kxor': eval_kxor}


# ------------------------------------------------------------------ command line
def eval_cli(kind, k, n, m, plant, seed):
    core.import_repo()
    from cnfgen.clitools.cnfgen import cli
    from cnfgen.clitools.cmdline import CLIError
    argv = ['cnfgen', '-q', 'rand' + kind] + (['-p'] if plant else []) + [str(k), str(n), str(m)]
    name = 'cli:rand' + kind
    if plant:
        # one planted total assignment: C(n,k)(2^k-1) clauses resp. C(n,k) parities (independent of which)
        a = list(range(1, n + 1))
        maxm = (compatible_clauses if kind == 'kcnf' else compatible_parities)(k, n, [a]) if k <= n else 0
    else:
        maxm = (compatible_clauses if kind == 'kcnf' else compatible_parities)(k, n, []) if k <= n else 0
    expect_error = k > n or m > maxm
    why = '{} (compatible={}, seed={})'.format(' '.join(argv), maxm, seed)
    random.seed(seed)
    try:
        F = cli(argv, mode='formula')
    except CLIError as e:
        if expect_error:
            return None
        return name + ':refuses-legal-request', 'CLIError {} ; {}'.format(str(e).splitlines()[0], why)
    except Exception as e:
        return name + ':wrong-exception', '{}: {} ; {}'.format(type(e).__name__, e, why)
    if expect_error:
        return name + ':no-error-on-impossible-request', 'a formula was returned; ' + why
    if F.number_of_variables() != n:
        return name + ':variables', '{} variables; {}'.format(F.number_of_variables(), why)
    clauses = [list(c) for c in F]
    if kind == 'kcnf':
        if len(clauses) != m:
            return name + ':clause-count', '{} clauses; {}'.format(len(clauses), why)
        if len(set(frozenset(c) for c in clauses)) != m:
            return name + ':duplicate-clause', 'repeated clause; ' + why
        for c in clauses:
            if len(c) != k or len(set(abs(l) for l in c)) != k or any(not 1 <= abs(l) <= n for l in c):
                return name + ':clause-shape', 'clause {}; {}'.format(c, why)
    else:
        dec = _decode_xor_clauses(clauses, k, n)
        if isinstance(dec, str):
            return name + ':clauses', dec + '; ' + why
        if len(dec) != m:
            return name + ':parity-count', '{} distinct parities; {}'.format(len(dec), why)
        if not np.array_equal(_xor_table(n, dec), sat.cnf_table(n, clauses)):
            return name + ':models', 'models are not the solutions of the decoded system; ' + why
    if plant and not sat.cnf_table(n, clauses).any():
        return name + ':planted-unsatisfied', 'formula with a planted assignment is unsatisfiable; ' + why
    return None


def replay_cli(kind, k, n, m, plant, seed):
    return eval_cli(kind, k, n, m, plant, seed) is None


# ------------------------------------------------------------------ drivers
def _mixed(n):
    return [v if v % 2 else -v for v in range(1, n + 1)]


def _planted_sets(n, thorough):
    a1 = _mixed(n)
    a2 = list(range(1, n + 1))
    out = [[], [a1], [a1, a2], [a1, [-l for l in a1]], [a2, list(a2)]]
    if n >= 2:
        a3 = [-1] + list(range(2, n + 1))
        out.append([a2, a3, a1])
    if thorough and n <= 3:
        allas = [[v if (bits >> (v - 1)) & 1 else -v for v in range(1, n + 1)] for bits in range(1 << n)]
        out += [[a] for a in allas]
        out += [[a, b] for a, b in itertools.combinations(allas, 2)]
    uniq = []
    for p in out:
        if p not in uniq:
            uniq.append(p)
    return uniq


def _seeded_task(t):
    kind, k, n, m, planted, seeds = t
    bad = []
    for s in seeds:
        r, _ = EVAL[kind](k, n, m, planted, {'seed': s})
        if r:
            bad.append((r, s))
    return t, bad


def _scripted_task(t):
    kind, k, n, m, planted, depth, max_runs = t
    bad = []
    runs = 0
    dense = 0

    def run(prefix, tail):
        r, trace = EVAL[kind](k, n, m, planted, {'script': prefix, 'tail': tail})
        return r, trace
    for prefix, tail, r in explore(run, depth, tails=('low', 'high', 'random'), max_runs=max_runs):
        runs += 1
        if r:
            bad.append((r, {'script': prefix, 'tail': tail}))
    return t, bad, runs


def _cli_task(t):
    kind, k, n, m, plant, seeds = t
    bad = []
    for s in seeds:
        r = eval_cli(kind, k, n, m, plant, s)
        if r:
            bad.append((r, s))
    return t, bad


def _pool():
    return multiprocessing.get_context('fork').Pool(min(16, multiprocessing.cpu_count()))


def bounded_library(ctx, pool):
    thorough = ctx.tier == 'thorough'
    maxn = 5 if thorough else 4
    maxk = 4 if thorough else 3
    nseeds = 100 if thorough else 31
    seeds = list(range(nseeds))
    ctx.bounds['library'] = ('RandomKCNF and RandomKXOR: n <= {}, k <= min({}, n+1), m = 0..max+2 and 3*max+7 '
                             '(max counted by brute force), planted sets: none / one / two / three / duplicate / contradictory pair{}; '
                             'seeds 0..{}; negative arguments').format(maxn, maxk, ' / all singletons and pairs for n<=3' if thorough else '', nseeds - 1)
    ctx.rule('C13 library: one case = (family, k, n, m, planted set, seed or script); non-trivial iff m >= 1; '
             'each case checks variables, count, distinctness, width, planted, ValueError iff k>n or m>max')
    tasks = []
    for kind in ('kcnf', 'kxor'):
        count = compatible_clauses if kind == 'kcnf' else compatible_parities
        for n in range(0, maxn + 1):
            for k in range(0, min(maxk, n + 1) + 1):
                for planted in _planted_sets(n, thorough):
                    mx = count(k, n, planted) if k <= n else 0
                    ms = list(range(0, mx + 3)) + [3 * mx + 7]
                    if thorough is False and mx > 40:
                        ms = [m for m in ms if m <= 6 or m >= mx - 6 or m % 5 == 0]
                    for m in ms:
                        tasks.append((kind, k, n, m, planted, seeds))
        for neg in ((-1, 2, 1), (1, -2, 1), (1, 2, -1), (-1, -1, -1)):
            tasks.append((kind, neg[0], neg[1], neg[2], [], seeds[:2]))
    for t, bad in pool.imap(_seeded_task, tasks, chunksize=8):
        kind, k, n, m, planted, sds = t
        for s in sds:
            ctx.case((kind, k, n, m, planted, s), nontrivial=m >= 1)
        for (key, what), s in bad:
            ctx.violation(key, what, {'fn': 'checks.C13:replay_' + kind,
                                      'args': dict(k=k, n=n, m=m, planted=planted, mode={'seed': s})})
    ctx.sample({'family': 'RandomKCNF', 'k': 2, 'n': 3, 'm': 12, 'planted': [], 'seed': 5, 'expect': 'all 12 clauses'})
    ctx.sample({'family': 'RandomKXOR', 'k': 2, 'n': 4, 'm': 7, 'planted': [_mixed(4)], 'seed': 0, 'expect': 'ValueError (6 compatible)'})


def bounded_scripted(ctx, pool):
    thorough = ctx.tier == 'thorough'
    depth = 8 if thorough else 6
    max_runs = 6000 if thorough else 900
    shapes = [(0, 0), (0, 1), (1, 1), (1, 2), (2, 2), (1, 3), (2, 3), (3, 3)] + ([(2, 4), (3, 4)] if thorough else [])
    ctx.bounds['scripted'] = ('scripted random module: (k,n) in {}, m = 0..max+1, planted none/one/contradictory; every outcome prefix '
                              'of length <= {} (<= {} runs per case) x tails low/high/random').format(shapes, depth, max_runs)
    ctx.rule('C13 scripted: one case = (family, k, n, m, planted, outcome prefix, tail); a draw is one primitive random decision; '
             'tail low repeats the same sample for ever, so the retry loop is exhausted and the dense fallback runs')
    tasks = []
    for kind in ('kcnf', 'kxor'):
        count = compatible_clauses if kind == 'kcnf' else compatible_parities
        for k, n in shapes:
            a1 = _mixed(n)
            for planted in ([], [a1], [a1, [-l for l in a1]]):
                mx = count(k, n, planted)
                ms = range(0, mx + 2) if mx <= 8 else [0, 1, 2, mx // 2, mx - 1, mx, mx + 1]
                for m in ms:
                    tasks.append((kind, k, n, m, planted, depth, max_runs))
    total = 0
    for t, bad, runs in pool.imap(_scripted_task, tasks, chunksize=2):
        kind, k, n, m, planted, _, _ = t
        total += runs
        ctx.case(('scripted', kind, k, n, m, planted), nontrivial=m >= 1, n=runs)
        for (key, what), mode in bad:
            ctx.violation(key, what, {'fn': 'checks.C13:replay_' + kind,
                                      'args': dict(k=k, n=n, m=m, planted=planted, mode=mode)})
    ctx.section('scripted', runs=total, cases=len(tasks))
    ctx.sample({'family': 'RandomKCNF', 'k': 1, 'n': 2, 'm': 4, 'script': [0, 0, 0, 0], 'tail': 'low',
                'expect': 'sparse loop collides 40 times, dense fallback returns all 4 clauses'})


def bounded_cli(ctx, pool):
    thorough = ctx.tier == 'thorough'
    seeds = list(range(1, 9 if thorough else 4))
    ctx.bounds['cli'] = 'cnfgen randkcnf|randkxor [-p] k n m : 1 <= k <= n+1, n <= {}, m in 0, 1, max-1, max, max+1; seeds {}'.format(4 if thorough else 3, seeds)
    tasks = []
    for kind in ('kcnf', 'kxor'):
        count = compatible_clauses if kind == 'kcnf' else compatible_parities
        for n in range(1, (4 if thorough else 3) + 1):
            for k in range(1, n + 2):
                for plant in (False, True):
                    mx = count(k, n, [list(range(1, n + 1))] if plant else []) if k <= n else 0
                    for m in sorted(set([0, 1, max(mx - 1, 0), mx, mx + 1])):
                        tasks.append((kind, k, n, m, plant, seeds))
    for t, bad in pool.imap(_cli_task, tasks, chunksize=2):
        kind, k, n, m, plant, sds = t
        for s in sds:
            ctx.case(('cli', kind, k, n, m, plant, s), nontrivial=m >= 1)
        for (key, what), s in bad:
            ctx.violation(key, what, {'fn': 'checks.C13:replay_cli', 'args': dict(kind=kind, k=k, n=n, m=m, plant=plant, seed=s)})
    ctx.sample({'cli': 'cnfgen -q randkxor -p 2 3 3', 'seed': 1, 'expect': '3 parities, satisfiable'})


def run(ctx):
    from checks import proofs
    proofs.run_group(ctx, 'C13')
    only = getattr(ctx, 'only', None)
    with _pool() as pool:
        for name, f in (('library', bounded_library), ('scripted', bounded_scripted), ('cli', bounded_cli)):
            if only and only not in name:
                continue
            f(ctx, pool)
    ctx.assume('oracle: itertools enumeration of compatible clauses/parities and numpy truth tables (vlib/sat.py), independent of cnfgen')
    ctx.assume('vlib/x_scripted_random.py reproduces the outcome space of random.sample/choice/randint/random/shuffle (every scripted outcome sequence is possible for the real generator)')
    ctx.assume('RandomKXOR is observed through a CNF subclass passed as formula_class that logs add_parity calls (public parameter), and through the clauses of the documented add_parity encoding')


def replay(ctx, data):
    return generic_replay(data)
