"""C14 - graph files round-trip in every supported format; bad files are rejected.

bounded part
  roundtrip : every labelled graph of each type within the bounds, built through the public API,
              written by writeGraph in every format that supported_graph_formats() lists for the
              type and read back by readGraph (StringIO; also real files with format autodetection,
              <class>.from_file and the command line chain '<file> save <file2>'); the result must
              have the same vertex count / sides / edges.  Non upward digraphs read as 'dag' must be
              refused with ValueError.
  texts     : texts in each format (files written by cnfgen, files written by an independent writer
              in several layouts, and a mutation grammar over both); readGraph must raise ValueError
              or return the graph that the independent reader (vlib/x_graphreaders.py, written from
              the format documentation) finds in the text; texts that describe no graph must be
              refused; no other exception type is allowed.
"""
import contextlib
import io
import itertools
import multiprocessing
import os
import random
import sys
import tempfile

from vlib import core
from vlib import enumerate as en
from vlib import x_graphreaders as gr
from vlib.replay import generic_replay

LEVEL = 'exploration'

TYPES = ('simple', 'digraph', 'dag', 'bipartite')


# ------------------------------------------------------------------------------------------
#  access to cnfgen (public API only)
# ------------------------------------------------------------------------------------------
def _graphs():
    core.import_repo()
    import cnfgen.graphs as G
    return G


def supported():
    """formats usable in this environment, per graph type, as cnfgen itself reports them"""
    return {k: list(v) for k, v in _graphs().supported_graph_formats().items()}


def _build(gtype, shape, edges, complete=False):
    G = _graphs()
    if gtype == 'bipartite':
        L, R = shape
        B = G.CompleteBipartiteGraph(L, R) if complete else G.BipartiteGraph(L, R)
        for u, v in edges:
            B.add_edge(u, v)
        return B
    H = G.Graph(shape) if gtype == 'simple' else G.DirectedGraph(shape)
    for u, v in edges:
        H.add_edge(u, v)
    return H


def _extract(obj, gtype):
    """canonical graph of a cnfgen object, through its public views; ('bad', why) if the object is
    not a well formed graph of the expected class"""
    G = _graphs()
    want = {'simple': G.Graph, 'digraph': G.DirectedGraph, 'dag': G.DirectedGraph, 'bipartite': G.BipartiteGraph}[gtype]
    if not isinstance(obj, want):
        return ('bad', 'readGraph returned {!r}, not a {}'.format(type(obj).__name__, want.__name__))
    edges = [tuple(e) for e in obj.edges()]
    if len(set(edges)) != len(edges) or obj.number_of_edges() != len(edges):
        return ('bad', 'edge listing {} / number_of_edges {}'.format(edges, obj.number_of_edges()))
    try:
        if gtype == 'bipartite':
            if obj.number_of_vertices() != obj.left_order() + obj.right_order():
                return ('bad', 'number_of_vertices != left+right')
            return gr.make_graph('bipartite', (obj.left_order(), obj.right_order()), edges)
        g = gr.make_graph('simple' if gtype == 'simple' else 'digraph', obj.number_of_vertices(), edges)
        if gtype == 'simple' and len(g[2]) != len(edges):
            return ('bad', 'edge listed twice: {}'.format(edges))
        return g
    except gr._Verdict as v:
        return ('bad', v.why)


def _quiet():
    # pydot prints its parse errors on stdout
    return contextlib.redirect_stdout(io.StringIO())


def cnfgen_read(text, gtype, fmt):
    """('ok', canonical) | ('ValueError', msg) | ('exc', 'Name: msg')"""
    G = _graphs()
    try:
        with _quiet():
            obj = G.readGraph(io.StringIO(text), gtype, fmt)
    except ValueError as e:
        return ('ValueError', str(e)[:120])
    except Exception as e:  # noqa  - the property allows ValueError only
        return ('exc', type(e).__name__, str(e)[:120])
    return ('ok', _extract(obj, gtype))


# ------------------------------------------------------------------------------------------
#  reading a text
# ------------------------------------------------------------------------------------------
def eval_text_full(text, gtype, fmt):
    """(violation, verdict kind, outcome kind); violation is None if readGraph behaves as the property
    says on this text, else (subkey, description)"""
    verdict = gr.read(fmt, text, gtype)
    out = cnfgen_read(text, gtype, fmt)
    kinds = (verdict[0], out[0])
    if out[0] == 'exc':
        return ('raises:' + out[1], 'readGraph raised {}: {} (only ValueError is allowed); the text {}'.format(
            out[1], out[2], 'describes ' + gr.describe(verdict[1]) if verdict[0] == 'graph' else 'is judged {}: {}'.format(*verdict))), kinds[0], kinds[1]
    if out[0] == 'ValueError':
        return None, kinds[0], kinds[1]
    got = out[1]
    if got[0] == 'bad':
        return ('inconsistent-object', got[1]), kinds[0], kinds[1]
    if verdict[0] == 'graph~':
        iso = gr.side_isomorphic(verdict[1], got)
        if iso is False:
            return ('wrong-graph', 'returned {} but the text describes, up to the numbering inside each side, {}'.format(
                gr.describe(got), gr.describe(verdict[1]))), kinds[0], kinds[1]
        return None, kinds[0], kinds[1]
    if verdict[0] == 'graph' and got != verdict[1]:
        return ('wrong-graph', 'returned {} but the text describes {}'.format(gr.describe(got), gr.describe(verdict[1]))), kinds[0], kinds[1]
    if verdict[0] == 'reject':
        return ('accepts-malformed', 'returned {} but no {} graph is consistent with the text: {}'.format(
            gr.describe(got), gtype, verdict[1])), kinds[0], kinds[1]
    return None, kinds[0], kinds[1]


def eval_text(text, gtype, fmt):
    return eval_text_full(text, gtype, fmt)[0]


def replay_text(text, gtype, fmt):
    bad = eval_text(text, gtype, fmt)
    if bad:
        print('   ', bad)
    return bad is None


# ------------------------------------------------------------------------------------------
#  write then read
# ------------------------------------------------------------------------------------------
def eval_roundtrip(gtype, fmt, shape, edges, via='stringio', complete=False):
    """None if write-then-read gives the graph back (or, for a non upward digraph read as 'dag', is
    refused with ValueError); else (subkey, description)"""
    G = _graphs()
    edges = [tuple(e) for e in edges]
    shape = tuple(shape) if gtype == 'bipartite' else shape
    if complete:
        edges = [(u, v) for u in range(1, shape[0] + 1) for v in range(1, shape[1] + 1)]
    upward = all(u < v for u, v in edges)
    refuse = gtype == 'dag' and not upward
    want = gr.canon('digraph' if gtype == 'dag' else gtype, shape, edges)
    obj = _build(gtype, shape, edges, complete)
    wtype = 'digraph' if refuse else gtype
    cls = {'simple': G.Graph, 'digraph': G.DirectedGraph, 'dag': G.DirectedGraph, 'bipartite': G.BipartiteGraph}[gtype]
    text2 = None
    with (tempfile.TemporaryDirectory(prefix='c14_') if via != 'stringio' else contextlib.nullcontext('/nonexistent')) as tmp:
        path = os.path.join(tmp, 'g.' + fmt)
        try:
            with _quiet():
                if via == 'stringio':
                    buf = io.StringIO()
                    G.writeGraph(obj, buf, wtype, fmt)
                    text = buf.getvalue()
                else:
                    G.writeGraph(obj, path, wtype)          # format from the extension
                    text = open(path, encoding='utf-8').read()
        except Exception as e:  # noqa
            return ('write-raises', 'writeGraph raised {}: {}'.format(type(e).__name__, e))
        try:
            with _quiet():
                if via == 'stringio':
                    back = G.readGraph(io.StringIO(text), gtype, fmt)
                elif via == 'file':
                    back = G.readGraph(path, gtype)
                elif via == 'from_file':
                    if gtype == 'dag':
                        with open(path, encoding='utf-8') as fh:                 # open file, autodetect
                            back = G.readGraph(fh, gtype)
                    else:
                        back = cls.from_file(path)
                elif via == 'cli':
                    from cnfgen.clitools.graph_args import make_graph_from_spec
                    others = [f for f in supported()[gtype] if f != fmt]
                    fmt2 = others[(len(edges) + len(fmt)) % len(others)]
                    path2 = os.path.join(tmp, 'saved.' + fmt2)
                    back = make_graph_from_spec(gtype, [path, 'save', path2])
                    text2 = (fmt2, open(path2, encoding='utf-8').read())
                else:
                    raise RuntimeError(via)
        except ValueError as e:
            if refuse:
                return None
            return ('read-raises', 'file written by writeGraph is refused: ValueError {} ; file {!r}'.format(e, text[:300]))
        except Exception as e:  # noqa
            return ('read-raises', 'reading back raised {}: {} ; file {!r}'.format(type(e).__name__, e, text[:300]))
    if refuse:
        return ('dag-not-checked', "digraph with a non upward edge was accepted as 'dag': {}".format(sorted(edges)))
    got = _extract(back, gtype)
    if got[0] == 'bad':
        return ('inconsistent-object', got[1])
    if got != want:
        return ('differs', 'wrote {} , read back {}'.format(gr.describe(want), gr.describe(got)))
    if text2 is not None:
        fmt2, t2 = text2
        out = cnfgen_read(t2, gtype, fmt2)
        if out[0] != 'ok' or out[1] != want:
            return ('differs', "'save {}' after reading {}: wrote {} , read back {}".format(fmt2, fmt, gr.describe(want), out), fmt2)
        v = gr.read(fmt2, t2, gtype)
        if v[0] == 'reject' or (v[0] == 'graph' and v[1] != want):
            return ('differs', "'save {}' after reading {}: wrote {} , the saved file holds {}".format(fmt2, fmt, gr.describe(want), v), fmt2)
    return None


def replay_roundtrip(gtype, fmt, shape, edges, via='stringio', complete=False):
    bad = eval_roundtrip(gtype, fmt, shape, edges, via, complete)
    if bad:
        print('   ', bad)
    return bad is None


def written_text(gtype, fmt, shape, edges):
    G = _graphs()
    buf = io.StringIO()
    with _quiet():
        G.writeGraph(_build(gtype, shape, edges), buf, 'digraph' if gtype == 'dag' else gtype, fmt)
    return buf.getvalue()


# ------------------------------------------------------------------------------------------
#  pool plumbing
# ------------------------------------------------------------------------------------------
def _init_worker():
    core.import_repo()
    import warnings
    warnings.simplefilter('ignore')


def _work(batch):
    out = []
    for task in batch:
        if task[0] == 'rt':
            _, gtype, fmt, shape, edges, via, complete = task
            bad = eval_roundtrip(gtype, fmt, shape, edges, via, complete)
            bad2 = None
            if via == 'stringio' and not (gtype == 'dag' and any(u >= v for u, v in edges)) and bad is None:
                # the file just written is a text too: the independent reader must find the same graph
                bad2 = eval_text(written_text(gtype, fmt, shape, edges), gtype, fmt)
            out.append((bad, bad2, None))
        else:
            _, text, gtype, fmt = task
            bad, vk, ok = eval_text_full(text, gtype, fmt)
            out.append((bad, None, (vk, ok)))
    return out


def _run(ctx, tasks, nproc=14, batch=40):
    batches = [tasks[i:i + batch] for i in range(0, len(tasks), batch)]
    if not batches:
        return []
    with multiprocessing.get_context('fork').Pool(nproc, initializer=_init_worker) as pool:
        res = pool.map(_work, batches, chunksize=1)
    return [r for b in res for r in b]


# ------------------------------------------------------------------------------------------
#  enumeration of graphs
# ------------------------------------------------------------------------------------------
def _big_graphs(rng):
    """targeted graphs on 10-13 vertices: two digit ids, label sorting, isolated last vertex"""
    out = []
    for n in (10, 11, 13):
        path = [(i, i + 1) for i in range(1, n)]
        out.append(('simple', n, path))
        out.append(('digraph', n, path))
        out.append(('digraph', n, [(v, u) for u, v in path]))
        out.append(('simple', n + 1, path))                       # isolated last vertex
        out.append(('digraph', n + 1, path))
    out.append(('simple', 12, [(1, v) for v in range(2, 13)]))     # stars
    out.append(('simple', 12, [(v, 12) for v in range(1, 12)]))
    out.append(('digraph', 12, [(1, v) for v in range(2, 13)]))
    out.append(('digraph', 12, [(v, 12) for v in range(1, 12)]))
    out.append(('digraph', 10, [(v, v) for v in (1, 2, 10)] + [(10, 1), (2, 10)]))
    out.append(('simple', 10, []))
    out.append(('digraph', 11, []))
    out.append(('simple', 10, list(itertools.combinations(range(1, 11), 2))))
    for n in (11, 13):
        for _ in range(3):
            pairs = [p for p in itertools.combinations(range(1, n + 1), 2) if rng.random() < 0.3]
            out.append(('simple', n, pairs))
            out.append(('digraph', n, pairs))                     # upward: also a dag
            out.append(('digraph', n, [(u, v) if rng.random() < 0.5 else (v, u) for u, v in pairs]))
    for (L, R) in ((6, 7), (7, 6), (10, 1), (1, 10), (12, 0), (0, 12), (10, 10)):
        for p in (0.0, 0.3, 1.0):
            out.append(('bipartite', (L, R), [(u, v) for u in range(1, L + 1) for v in range(1, R + 1) if rng.random() < p]))
    return out


def _graph_space(ctx, rng):
    """(gtype, shape, edges, formats or None) ; dag cases are derived from the digraphs"""
    thorough = ctx.tier == 'thorough'
    out = []
    nmax = 5 if thorough else 4
    for n in range(nmax + 1):
        for _, edges in en.simple_graphs(n):
            out.append(('simple', n, edges, None))
    for n in range(4):
        for _, edges in en.digraphs(n, loops=True):
            out.append(('digraph', n, edges, None))
    k = 0
    for _, edges in en.digraphs(4, loops=False):
        k += 1
        up = all(u < v for u, v in edges)
        if thorough or up or k % 16 == 0:
            out.append(('digraph', 4, edges, None))
        else:
            out.append(('digraph', 4, edges, ('kthlist', 'dimacs', 'gml')))
    for _ in range(2000 if thorough else 200):                     # 4 vertices with loops: a sample
        pairs = [(u, v) for u in range(1, 5) for v in range(1, 5) if rng.random() < 0.35]
        out.append(('digraph', 4, pairs, None))
    bmax = 3
    for L in range(bmax + 1):
        for R in range(bmax + 1):
            for _, _, edges in en.bipartite_graphs(L, R):
                out.append(('bipartite', (L, R), edges, None))
    if thorough:
        for (L, R) in ((4, 3), (3, 4), (2, 5)):
            for _, _, edges in en.bipartite_graphs(L, R):
                out.append(('bipartite', (L, R), edges, ('kthlist', 'matrix', 'gml')))
    for gtype, shape, edges in _big_graphs(rng):
        out.append((gtype, shape, edges, None))
    return out


def bounded_roundtrip(ctx):
    rng = random.Random(ctx.seed)
    sup = supported()
    thorough = ctx.tier == 'thorough'
    ctx.bounds['roundtrip'] = ('all simple graphs on <= {} vertices; all digraphs with loops on <= 3 vertices, all loopless '
                               'digraphs on 4 vertices (dot: the upward ones and every 16th in the quick tier) and {} random ones '
                               'with loops; every digraph also as type dag (upward: must round-trip, otherwise: must be refused); '
                               'all bipartite graphs with sides <= 3+3{}; 50+ targeted graphs on 10-20 vertices; formats {}'
                               ).format(5 if thorough else 4, 2000 if thorough else 200,
                                        ' and 4+3, 3+4, 2+5 (not dot)' if thorough else '', sup)
    ctx.rule('C14 roundtrip: one case = (graph type, format, labelled graph, way of reading); non-trivial iff the graph has an edge')
    tasks = []
    space = _graph_space(ctx, rng)
    for gtype, shape, edges, fmts in space:
        for t in ((gtype,) if gtype != 'digraph' else ('digraph', 'dag')):
            for fmt in sup[t]:
                if fmts is not None and fmt not in fmts:
                    continue
                tasks.append(('rt', t, fmt, shape, edges, 'stringio', False))
    # other ways to reach the reader/writer, on a subset
    subset = []
    for gtype, shape, edges, _ in space:
        big = (shape if gtype != 'bipartite' else sum(shape)) >= 10
        if big or rng.random() < (0.08 if thorough else 0.02):
            subset.append((gtype, shape, edges))
    for gtype, shape, edges in subset:
        for t in ((gtype,) if gtype != 'digraph' else ('digraph', 'dag')):
            for fmt in sup[t]:
                for via in ('file', 'from_file', 'cli'):
                    if via == 'cli' and t == 'dag' and not all(u < v for u, v in edges):
                        continue
                    tasks.append(('rt', t, fmt, shape, edges, via, False))
    for (L, R) in ((0, 0), (1, 1), (2, 3), (3, 1), (0, 2), (2, 0), (6, 5)):
        for fmt in sup['bipartite']:
            tasks.append(('rt', 'bipartite', fmt, (L, R), [], 'stringio', True))
    res = _run(ctx, tasks)
    for task, (bad, bad2, _) in zip(tasks, res):
        _, t, fmt, shape, edges, via, complete = task
        ctx.case(('rt', t, fmt, shape, tuple(edges), via, complete), nontrivial=len(edges) > 0 or complete)
        args = dict(gtype=t, fmt=fmt, shape=shape, edges=[list(e) for e in edges], via=via, complete=complete)
        if bad:
            sub, what = bad[0], bad[1]
            if sub == 'dag-not-checked':
                key = 'dag-check:{}:accepted'.format(fmt)
            elif len(bad) > 2:      # the format of the 'save' step is the one that fails
                key = 'roundtrip:{}:{}:{}:cli-save'.format(bad[2], t, sub)
            else:
                key = 'roundtrip:{}:{}:{}'.format(fmt, t, sub) + ('' if via == 'stringio' else ':' + via)
            ctx.violation(key, '{} {} {} {} via {}: {}'.format(t, fmt, shape, sorted(edges), via, what),
                          {'fn': 'checks.C14:replay_roundtrip', 'args': args})
        if bad2:
            sub, what = bad2
            text = written_text(t, fmt, shape, edges)
            ctx.violation('read:{}:{}:{}'.format(fmt, t, sub), 'file written by writeGraph {!r}: {}'.format(text[:200], what),
                          {'fn': 'checks.C14:replay_text', 'args': dict(text=text, gtype=t, fmt=fmt)})
    ctx.section('roundtrip', cases=len(tasks))
    ctx.sample({'roundtrip': 'bipartite', 'format': 'kthlist', 'shape': [6, 7], 'via': 'cli (file, save other format)'})
    ctx.sample({'roundtrip': 'dag', 'format': 'gml', 'n': 4, 'edges': [[1, 2], [2, 4], [3, 4]]})


# ------------------------------------------------------------------------------------------
#  texts: valid layouts and the mutation grammar
# ------------------------------------------------------------------------------------------
STYLES = {'kthlist': [0, 1, 2, 3, 4, 8, 12, 16, 32, 1 | 2 | 16 | 32],
          'dimacs': [0, 1, 2, 4, 8, 16, 1 | 4 | 8],
          'matrix': [0, 1, 2, 3],
          'gml': [0, 1, 2, 3],
          'dot': [0, 1, 2, 4, 7]}


def mutations(text, fmt, n):
    """the mutation grammar: truncation at every line/token, blank, comment and blank-only lines
    anywhere, every token replaced by 0 / n+1 / -1 / x / 1 / n or deleted, lines deleted, duplicated,
    swapped (decreasing rows), the size/problem line repeated anywhere, counts off by one"""
    out = set()
    lines = text.split('\n')
    if lines and lines[-1] == '':
        lines = lines[:-1]
    comment = '# a comment' if fmt == 'matrix' else 'c a comment'
    reps = ['0', str(n + 1), '-1', 'x', '1', str(n)]

    def emit(ls, nl=True):
        out.add('\n'.join(ls) + ('\n' if nl and ls else ''))
    spec = None
    for l in lines:
        t = l.split()
        if not t:
            continue
        if fmt == 'kthlist' and l[0] != 'c' and ':' not in l:
            spec = l
            break
        if fmt == 'dimacs' and t[0] == 'p':
            spec = l
            break
        if fmt == 'matrix' and t[0][0] != '#':
            spec = l
            break
    for i in range(len(lines) + 1):
        emit(lines[:i])
        emit(lines[:i], nl=False)
        emit(lines[:i] + [''] + lines[i:])
        emit(lines[:i] + ['   '] + lines[i:])
        emit(lines[:i] + [comment] + lines[i:])
        if spec is not None:
            emit(lines[:i] + [spec] + lines[i:])
    for i in range(len(lines)):
        emit(lines[:i] + lines[i + 1:])
        emit(lines[:i] + [lines[i]] + lines[i:])
        if i + 1 < len(lines):
            emit(lines[:i] + [lines[i + 1], lines[i]] + lines[i + 2:])
        toks = lines[i].split()
        for j in range(len(toks)):
            emit(lines[:i] + [' '.join(toks[:j + 1])], nl=False)
            emit(lines[:i] + [' '.join(toks[:j] + toks[j + 1:])] + lines[i + 1:])
            rr = list(reps)
            k, v = gr.tok_int(toks[j])
            if k == 'int':
                rr += [str(v + 1), str(v - 1)]
            for r in rr:
                if r != toks[j]:
                    emit(lines[:i] + [' '.join(toks[:j] + [r] + toks[j + 1:])] + lines[i + 1:])
    out.discard(text)
    return sorted(out)


def _base_graphs(rng):
    return {
        'simple': [(0, []), (1, []), (3, [(1, 2), (2, 3)]), (4, [(1, 4), (2, 3), (1, 2)]), (4, [(3, 4)]),
                   (11, [(1, 11), (2, 10), (10, 11)])],
        'digraph': [(0, []), (2, [(1, 2)]), (3, [(1, 2), (1, 3), (2, 3)]), (3, [(2, 1), (3, 3), (1, 3)]), (4, [(1, 4), (3, 2)]),
                    (11, [(1, 11), (2, 10), (10, 11)]), (10, [(10, 1), (2, 9)])],
        'bipartite': [((0, 0), []), ((1, 1), [(1, 1)]), ((2, 2), [(1, 2), (2, 1)]), ((2, 3), [(1, 1), (1, 3), (2, 2)]),
                      ((3, 2), [(1, 1), (3, 2)]), ((3, 1), []), ((6, 7), [(1, 7), (6, 1), (2, 4), (5, 5)])],
    }


HAND_TEXTS = [
    # D14 / D15 / D16 and relatives, plus the examples of the documentation
    ('kthlist', ('simple', 'digraph', 'dag', 'bipartite'), ''),
    ('kthlist', ('simple', 'digraph', 'dag', 'bipartite'), 'c only a comment\n'),
    ('kthlist', ('simple', 'digraph', 'dag', 'bipartite'), '\n\n'),
    ('kthlist', ('bipartite',), '4\n1 : 3 0\n1 : 4 0\n'),
    ('kthlist', ('bipartite',), '5\n1 : 4 0\n2 : 5 0\n1 : 5 0\n'),
    ('kthlist', ('bipartite',), '4\n2 : 3 0\n1 : 4 0\n'),
    ('kthlist', ('bipartite',), '5\n1 : 4 5 0\n3 : 4 0\n'),
    ('kthlist', ('simple', 'digraph', 'dag'), '3\n3: 1 2 0\n'),
    ('kthlist', ('simple', 'digraph', 'dag'), '3\n1: 3 0\n2: 3 0\n3: 1 2 0\n'),
    ('kthlist', ('bipartite', 'simple'), '5\n1: 4 5 0\n2: 4 5 0\n3: 4 5 0\n'),
    ('kthlist', ('simple', 'digraph', 'dag'), 'c\nc This is a DAG of 5 vertices\nc\n5\n1  : 0\n2  : 0\n3  : 1  0 \n4  : 2  3  0  \n5  : 2  4  0\n'),
    ('kthlist', ('bipartite', 'simple', 'digraph'),
     'c listing only left side vertices (bipartite graph)\n11\n1 : 7  8  9 0\n2 : 6  7  9 0\n3 : 8  9 11 0\n4 : 8 10 11 0\n5 : 6 10 11 0\n'),
    ('kthlist', ('simple', 'digraph', 'dag'), '3\n3 : 1\n2 0\n'),
    ('kthlist', ('simple', 'digraph', 'dag'), 'C upper case comment\n3\n3 : 1 2 0\n'),
    ('dimacs', ('simple', 'digraph', 'dag'), ''),
    ('dimacs', ('simple', 'digraph', 'dag'), '\n'),
    ('dimacs', ('simple', 'digraph', 'dag'), 'p edge 2 1\n\ne 1 2\n'),
    ('dimacs', ('simple', 'digraph', 'dag'), '\np edge 2 1\ne 1 2\n'),
    ('dimacs', ('simple', 'digraph', 'dag'), 'p edge 2 1\ne 1 2\n\n'),
    ('dimacs', ('simple', 'digraph', 'dag'), 'c\np edge 2 1\ne 1 2\n'),
    ('dimacs', ('simple', 'digraph', 'dag'), 'p edge 3 2\ne 1 2\ne 1 2\n'),
    ('dimacs', ('simple', 'digraph', 'dag'), 'p edge 3 2\ne 1 2\ne 2 1\n'),
    ('dimacs', ('simple', 'digraph', 'dag'), 'e 1 2\np edge 2 1\n'),
    ('matrix', ('bipartite',), ''),
    ('matrix', ('bipartite',), '5 6\n0 1 1 1 0 0\n1 1 0 1 0 0\n0 0 1 1 0 1\n0 0 1 0 1 1\n1 0 0 0 1 1\n'),
    ('matrix', ('bipartite',), '2\n2\n1\n0\n\n0 1'),
    ('gml', ('digraph', 'dag'), 'graph [\n  node [\n    id 0\n    label "1"\n  ]\n  node [\n    id 1\n    label "2"\n  ]\n  edge [\n    source 0\n    target 1\n  ]\n]\n'),
    ('gml', ('simple', 'bipartite'), 'graph [\n  directed 1\n  node [\n    id 0\n    label "1"\n  ]\n  node [\n    id 1\n    label "2"\n  ]\n  edge [\n    source 0\n    target 1\n  ]\n]\n'),
    ('gml', ('simple', 'digraph', 'dag', 'bipartite'), ''),
    ('dot', ('simple', 'digraph', 'dag', 'bipartite'), ''),
    ('dot', ('simple',), 'graph X { 1 -- 2 -- 3 }'),
    ('dot', ('dag', 'digraph'), 'digraph A { 1 -> 2 -> 3 -> 1}'),
    ('dot', ('dag', 'digraph', 'simple'), 'digraph A { 1 -- 2 -- 3 -- 1}'),
]


def bounded_texts(ctx):
    rng = random.Random(ctx.seed + 1)
    sup = supported()
    thorough = ctx.tier == 'thorough'
    tasks = []
    seen = set()

    def add(text, gtype, fmt):
        if fmt not in sup[gtype]:
            return
        k = (text, gtype, fmt)
        if k not in seen:
            seen.add(k)
            tasks.append(('text', text, gtype, fmt))
    for fmt, types, text in HAND_TEXTS:
        for t in types:
            add(text, t, fmt)
    # (a) documented layouts written by the independent writer, for all small graphs
    small = []
    for n in range(4):
        small += [('simple', n, e) for _, e in en.simple_graphs(n)]
    for n in range(3):
        small += [('digraph', n, e) for _, e in en.digraphs(n, loops=True)]
    small += [('digraph', 3, e) for _, e in en.simple_graphs(3)]
    small += [('digraph', 3, [(v, u) for u, v in e]) for _, e in en.simple_graphs(3)]
    for L in range(3):
        for R in range(3):
            small += [('bipartite', (L, R), e) for _, _, e in en.bipartite_graphs(L, R)]
    base = _base_graphs(rng)
    for t in base:
        small += [(t, shape, e) for shape, e in base[t]]
    nvalid = 0
    for gtype, shape, edges in small:
        g = gr.canon(gtype, shape, edges)
        for t in ((gtype,) if gtype != 'digraph' else ('digraph', 'dag')):
            for fmt in sup[t]:
                styles = STYLES[fmt]
                if fmt == 'dot' and not thorough:
                    styles = styles[:2] if (shape if gtype != 'bipartite' else sum(shape)) < 10 else styles
                for st in styles:
                    add(gr.WRITERS[fmt](g, st), t, fmt)
                    nvalid += 1
    # (b) mutations of files written by cnfgen and by the independent writer
    budget = {'kthlist': 10 ** 9, 'dimacs': 10 ** 9, 'matrix': 10 ** 9, 'gml': 12000 if thorough else 4000,
              'dot': 6000 if thorough else 1200}
    for gtype in ('simple', 'digraph', 'bipartite'):
        for shape, edges in base[gtype]:
            g = gr.canon(gtype, shape, edges)
            n = shape if gtype != 'bipartite' else sum(shape)
            for fmt in sup[gtype]:
                sources = [written_text(gtype, fmt, shape, edges), gr.WRITERS[fmt](g, STYLES[fmt][1])]
                if fmt in ('kthlist', 'dimacs', 'matrix'):
                    sources.append(gr.WRITERS[fmt](g, STYLES[fmt][-1]))
                for src in sources:
                    ms = mutations(src, fmt, n)
                    if fmt in ('gml', 'dot'):
                        per = budget[fmt] // (len(base[gtype]) * 2 * 3)
                        if len(ms) > per:
                            ms = rng.sample(ms, per)
                    for m in ms:
                        add(m, gtype, fmt)
                        if gtype == 'digraph':
                            add(m, 'dag', fmt)
    ctx.bounds['texts'] = ('{} hand written texts; independent-writer files of all simple graphs <= 3 vertices, digraphs <= 2 '
                           '(+ orientations of 3-vertex graphs), bipartite <= 2+2 and {} base graphs in {} layouts; the mutation '
                           'grammar (truncation at every line and token, blank/comment/blank-only line anywhere, token replaced by '
                           '0,n+1,-1,x,1,n,t+1,t-1 or deleted, line deleted/duplicated/swapped, spec line repeated anywhere) over '
                           'cnfgen-written and independently written files of the base graphs; gml/dot mutations sampled ({} / {})'
                           ).format(len(HAND_TEXTS), sum(len(v) for v in base.values()), {k: len(v) for k, v in STYLES.items()},
                                    budget['gml'], budget['dot'])
    ctx.rule('C14 texts: one case = (text, graph type, format); non-trivial iff the text is not blank; the independent reader '
             'classifies it as graph / reject / unclear and readGraph must raise ValueError or return that graph')
    res = _run(ctx, tasks, batch=100)
    stats = {}
    for task, (bad, _, cls) in zip(tasks, res):
        _, text, t, fmt = task
        ctx.case(('text', text, t, fmt), nontrivial=text.strip() != '')
        if bad:
            sub, what = bad
            ctx.violation('read:{}:{}:{}'.format(fmt, t, sub), '{} {} text {!r}: {}'.format(t, fmt, text[:200], what),
                          {'fn': 'checks.C14:replay_text', 'args': dict(text=text, gtype=t, fmt=fmt)})
            k = '{}:violation'.format(fmt)
        else:
            k = '{}:text {} -> {}'.format(fmt, cls[0], 'graph returned' if cls[1] == 'ok' else cls[1])
        stats[k] = stats.get(k, 0) + 1
    ctx.section('texts', cases=len(tasks), independent_writer_files=nvalid, outcome_by_format=dict(sorted(stats.items())),
                note="'text graph -> ValueError' counts texts that describe a graph for the independent reader and are refused "
                     "by readGraph; the property allows that (ValueError is always a legal answer) so it is reported, not flagged")
    ctx.sample({'text': '4\n1 : 3 0\n1 : 4 0\n', 'type': 'bipartite', 'format': 'kthlist'})
    ctx.sample({'text': 'p edge 2 1\n\ne 1 2\n', 'type': 'simple', 'format': 'dimacs'})
    ctx.sample({'text': '2 2\n0 1\n0\n', 'type': 'bipartite', 'format': 'matrix'})


# ------------------------------------------------------------------------------------------
#  bipartite gml / dot files in layouts that cnfgen's own writer never produces
# ------------------------------------------------------------------------------------------
def _layouts(L, R, full):
    """(name, declaration order, ids): orders of declaration x numberings of the ids"""
    left = [('L', i) for i in range(1, L + 1)]
    right = [('R', j) for j in range(1, R + 1)]
    inter = [x for p in itertools.zip_longest(right, left) for x in p if x is not None]
    orders = [('left-first', left + right), ('right-first', right + left), ('interleaved', inter),
              ('reversed', (left + right)[::-1])]
    if full:
        orders = [('perm', list(p)) for p in itertools.permutations(left + right)]
    out = []
    for oname, decl in orders:
        ids = {
            'left-low': {x: k for k, x in enumerate(left + right, start=1)},
            'right-low': {x: k for k, x in enumerate(right + left, start=1)},          # right side numbered below the left
            'by-declaration': {x: k for k, x in enumerate(decl, start=1)},
            'gaps-right-low': {x: 3 * k + 2 for k, x in enumerate(right + left)},
            'scrambled': {x: ((5 * k + 3) % 11) + 1 for k, x in enumerate(left + right)},   # neither order
        }
        for iname, ident in ids.items():
            out.append((oname + '/' + iname, decl, ident))
    return out


def layout_expected(g, decl, ident, fmt):
    """what the documentation promises for this layout: ('graph', h) when inside each side the
    declaration order is the id order (h = g renumbered in that order), else ('graph~', g)"""
    _, L, R, E = g
    left = [x for x in decl if x[0] == 'L']
    right = [x for x in decl if x[0] == 'R']
    for part in (left, right):
        if [ident[x] for x in part] != sorted(ident[x] for x in part):
            return ('graph~', g)
        if fmt == 'dot' and [str(ident[x]) for x in part] != sorted(str(ident[x]) for x in part):
            return ('graph~', g)          # dot names are text: 10 < 9 as text
    pos = {x: k + 1 for part in (left, right) for k, x in enumerate(part)}
    return ('graph', gr.canon('bipartite', (L, R), [(pos[('L', u)], pos[('R', v)]) for u, v in E]))


def bounded_bipartite_layouts(ctx):
    sup = supported()
    thorough = ctx.tier == 'thorough'
    rng = random.Random(ctx.seed + 2)
    tasks = []
    seen = set()
    shapes = [(0, 0), (1, 0), (0, 1), (1, 1), (1, 2), (2, 1), (2, 2), (3, 2), (2, 3)]
    for (L, R) in shapes:
        for _, _, edges in en.bipartite_graphs(L, R):
            g = gr.canon('bipartite', (L, R), edges)
            for fmt in ('gml', 'dot'):
                if fmt not in sup['bipartite']:
                    continue
                full = fmt == 'gml' and L + R <= 4
                lays = _layouts(L, R, full)
                if fmt == 'dot' and not thorough:
                    lays = [l for l in lays if rng.random() < (0.5 if L + R <= 4 else 0.12)]
                elif fmt == 'gml' and not thorough and L + R > 4:
                    lays = [l for l in lays if rng.random() < 0.5]
                for lname, decl, ident in lays:
                    es = sorted(g[3])
                    flips = [frozenset(), frozenset(es), frozenset(es[::2]), frozenset(es[1::2])]
                    if not (thorough or full):
                        flips = flips[:2] + [flips[2 + len(tasks) % 2]]
                    for flip in {f for f in flips}:
                        text = gr.bipartite_layout_text(fmt, g, decl, ident, flip)
                        if (text, fmt) in seen:
                            continue
                        seen.add((text, fmt))
                        want = layout_expected(g, decl, ident, fmt)
                        got = gr.read(fmt, text, 'bipartite')
                        # self-check of the checker: the independent reader finds in the text what the
                        # layout was generated from (an error here is a checker error, not a verdict)
                        if got[0] != want[0] or (got[1] != want[1] if got[0] == 'graph' else gr.side_isomorphic(got[1], want[1]) is not True):
                            raise AssertionError('independent reader disagrees with the generator on {!r}: {} vs {}'.format(text, got, want))
                        tasks.append(('text', text, 'bipartite', fmt))
    ctx.bounds['bipartite layouts'] = ('independently written gml and dot files of all bipartite graphs with sides {} ; node declarations in '
                                       'every order (gml, <= 4 vertices) or left-first / right-first / interleaved / reversed; ids numbered '
                                       'left-low, right-low (right side below the left), by declaration, with gaps, scrambled; every edge '
                                       'written as (left,right), as (right,left) and mixed; dot and the larger gml cases sampled in the '
                                       'quick tier').format(shapes)
    ctx.rule('C14 bipartite layouts: one case = (text, format); the expected numbering follows BipartiteGraph.normalize / from_networkx '
             '(each side 1..n in the order of the vertices): exact when declaration order and id order agree inside each side, otherwise '
             'side sizes and edges up to a renumbering of each side; non-trivial iff the graph has an edge')
    res = _run(ctx, tasks, batch=60)
    stats = {}
    for task, (bad, _, cls) in zip(tasks, res):
        _, text, t, fmt = task
        ctx.case(('layout', text, fmt), nontrivial='--' in text or 'edge [' in text)
        if bad:
            sub, what = bad
            ctx.violation('read:{}:{}:{}'.format(fmt, t, sub), 'bipartite {} text {!r}: {}'.format(fmt, text[:300], what),
                          {'fn': 'checks.C14:replay_text', 'args': dict(text=text, gtype=t, fmt=fmt)})
            k = '{}:violation'.format(fmt)
        else:
            k = '{}:text {} -> {}'.format(fmt, cls[0], 'graph returned' if cls[1] == 'ok' else cls[1])
        stats[k] = stats.get(k, 0) + 1
    ctx.section('bipartite_layouts', cases=len(tasks), outcome_by_format=dict(sorted(stats.items())))
    ctx.sample({'layout': 'right-first/right-low', 'format': 'gml', 'text': gr.bipartite_layout_text(
        'gml', gr.canon('bipartite', (2, 1), [(2, 1)]), [('R', 1), ('L', 1), ('L', 2)], {('R', 1): 1, ('L', 1): 2, ('L', 2): 3}, frozenset())})


def run(ctx):
    from checks import proofs
    proofs.run_group(ctx, 'C14')
    sup = supported()
    G = _graphs()
    ctx.assume('formats claimed = cnfgen.graphs.supported_graph_formats() in this environment: {} (has_dot_library() = {}; '
               'pydot is installed, so dot is included; the failures of tests/test_graph_io.py in the baseline come from the '
               'missing pytest-datadir fixture and from running as root, not from a missing library)'.format(sup, G.has_dot_library()))
    ctx.assume('gml and dot go through networkx / pydot (external code, exercised as is)')
    ctx.assume('independent readers in vlib/x_graphreaders.py follow www/KTHlistFormat.txt, www/graphformats.org and docs/graphs.rst; '
               "matrix lines starting with '#' are taken as comments (undocumented feature); dot/gml texts outside the plain subset "
               'are only checked for the exception type')
    only = getattr(ctx, 'only', None)
    if not only or 'round' in only:
        bounded_roundtrip(ctx)
    if not only or 'text' in only:
        bounded_texts(ctx)
    if not only or 'layout' in only:
        bounded_bipartite_layouts(ctx)


def replay(ctx, data):
    return generic_replay(data)
