"""C06 - DIMACS output round-trips and the DIMACS reader never misreads.

bounded part (this file):
  writer   every rendering (to_dimacs, to_file on a stream, to_file on a path; header on/off,
           variable names on/off) is read by the independent strict reader
           vlib.x_readers.dimacs_writer_form: comment lines, ONE problem line with the true
           counts, one clause per line in order; then cnfgen's own reader must give back the
           same number of variables and the same clauses in the same order.
  reader   valid texts and their truncations / token / line / character corruptions: the
           outcome must be ValueError or exactly one of the readings of
           vlib.x_readers.dimacs_lenient (which rejects out-of-range literals, wrong counts
           and tokens that are not integers of the format).
"""
import contextlib
import gc
import itertools
import os
import random
import re
import tempfile
from io import StringIO

from vlib import core
from vlib import enumerate as en
from vlib import x_readers as xr
from vlib import x_ioformulas as xf
from vlib.replay import generic_replay

LEVEL = 'exploration'


def _CNF():
    core.import_repo()
    from cnfgen.formula.cnf import CNF
    return CNF


# =====================================================================================
# writer + round trip
# =====================================================================================
def _render(F, header, varnames, route, tmpdir=None):
    if route == 'to_dimacs':
        return F.to_dimacs(), None
    if route == 'stream':
        s = StringIO()
        F.to_file(s, fileformat='dimacs', export_header=header, export_varnames=varnames)
        return s.getvalue(), None
    if route == 'file':
        path = os.path.join(tmpdir, 'f.cnf')
        F.to_file(path, export_header=header, export_varnames=varnames)
        with open(path, 'rb') as f:
            return f.read().decode('utf-8'), path
    raise ValueError(route)


@contextlib.contextmanager
def _nodir():
    yield None


def eval_roundtrip(spec, header, varnames, route):
    """None if the property holds for this formula and rendering, else (key, what)"""
    CNF = _CNF()
    F, exp = xf.build(spec)
    rows = [list(r) for r in exp['rows']]
    with (tempfile.TemporaryDirectory(prefix='verif_c06_') if route == 'file' else _nodir()) as tmp:
        try:
            text, path = _render(F, header, varnames, route, tmp)
        except Exception as e:
            return ('dimacs:writer:raises:' + type(e).__name__, 'writer raised {}: {}'.format(type(e).__name__, e))
        try:
            doc = xr.dimacs_writer_form(text, universal=route == 'file')
        except xr.FormatError as e:
            src = 'body'
            if route != 'to_dimacs':
                for h, v, name in ((False, varnames, 'header'), (header, False, 'varnames')):
                    if (h, v) == (header, varnames):
                        continue
                    try:
                        xr.dimacs_writer_form(_render(F, h, v, route, tmp)[0], universal=route == 'file')
                        src = name
                        break
                    except xr.FormatError:
                        pass
            if src != 'body':
                return ('dimacs:writer:noncomment_line:' + src, 'a line that is neither a comment, the problem line nor a clause of the formula comes from the {}: {}'.format(src, e.msg))
            return ('dimacs:writer:{}:{}'.format(e.kind, src), 'output is not comment lines + problem line + clause lines: {}'.format(e.msg))
        if doc['n'] != exp['n'] or doc['m'] != len(rows):
            return ('dimacs:writer:problem_line', 'problem line says {} variables {} clauses, formula has {} and {}'.format(doc['n'], doc['m'], exp['n'], len(rows)))
        if doc['clauses'] != rows:
            i = next(i for i, (a, b) in enumerate(itertools.zip_longest(doc['clauses'], rows)) if a != b)
            return ('dimacs:writer:clauses', 'clause line {} is {} but the formula has {}'.format(i, doc['clauses'][i:i + 1], rows[i:i + 1]))
        if not header and not varnames and doc['comments'] and route != 'to_dimacs':
            pass  # comments without header are not forbidden by the statement
        try:
            G = CNF.from_file(path) if path else CNF.from_file(StringIO(text))
        except Exception as e:
            return ('dimacs:roundtrip:raises:' + type(e).__name__, 'reading back raised {}: {}'.format(type(e).__name__, e))
        if G.number_of_variables() != exp['n']:
            return ('dimacs:roundtrip:numvar', 'read back {} variables, written {}'.format(G.number_of_variables(), exp['n']))
        got = [list(c) for c in G]
        if got != rows:
            return ('dimacs:roundtrip:clauses', 'read back {} , written {}'.format(got[:4], rows[:4]))
        if F.number_of_variables() != exp['n'] or [list(c) for c in F] != rows:
            return ('dimacs:writer:mutates_formula', 'formula changed while being written')
    return None


def replay_roundtrip(spec, header, varnames, route):
    return eval_roundtrip(spec, header, varnames, route) is None


def _check_rt(ctx, spec, header, varnames, route, case_key, nontrivial=True):
    ctx.case(case_key, nontrivial)
    bad = eval_roundtrip(spec, header, varnames, route)
    if bad:
        ctx.violation(bad[0], '{} header={} varnames={} via {} : {}'.format(_short(spec), header, varnames, route, bad[1]),
                      {'fn': 'checks.C06:replay_roundtrip', 'args': dict(spec=spec, header=header, varnames=varnames, route=route)})
    return bad


def _short(spec):
    s = repr(spec)
    return s if len(s) < 200 else s[:200] + '...'


VARIANTS = [(False, False, 'to_dimacs'), (False, False, 'stream'), (True, False, 'stream'), (False, True, 'stream'), (True, True, 'stream')]


def _rt_worker(job):
    """pool worker: list of (n, clauses) -> list of failures"""
    out = []
    for n, clauses, variants in job:
        spec = {'kind': 'cnf', 'n': n, 'clauses': clauses}
        for (h, v, r) in variants:
            bad = eval_roundtrip(spec, h, v, r)
            if bad:
                out.append((spec, h, v, r, bad))
    return out


def _spec_worker(job):
    out = []
    for spec, variants in job:
        for (h, v, r) in variants:
            bad = eval_roundtrip(spec, h, v, r)
            if bad:
                out.append((spec, h, v, r, bad))
    return out


def bounded_small(ctx):
    """every CNF over <= 3 variables with <= 3 clauses (declared with 3 variables: unused ones included)"""
    import multiprocessing as mp
    thorough = ctx.tier == 'thorough'
    rng = random.Random(ctx.seed)
    allf = list(en.cnfs(3, 3 if thorough else 2, 3))
    if not thorough:
        three = list(en.cnfs(3, 3, 3))
        three = [f for f in three if len(f[1]) == 3]
        allf += rng.sample(three, 4000)
    ctx.bounds['roundtrip_small'] = ('all CNFs over 3 declared variables, clauses of <= 3 distinct literals (opposite literals allowed), '
                                     '<= {} clauses{} ; 5 renderings each (to_dimacs, stream x header x varnames)'.format(
                                         3 if thorough else 2, '' if thorough else ' plus 4000 sampled 3-clause formulas'))
    ctx.rule('C06 writer/round trip: one case = (formula, header flag, varnames flag, route); non-trivial iff the formula has a non-empty clause')
    jobs, chunk = [], []
    for n, clauses in allf:
        chunk.append((n, clauses, VARIANTS))
        for (h, v, r) in VARIANTS:
            ctx.case(('small', n, tuple(map(tuple, clauses)), h, v, r), nontrivial=any(clauses))
        if len(chunk) >= 400:
            jobs.append(chunk)
            chunk = []
    if chunk:
        jobs.append(chunk)
    with mp.Pool(min(12, os.cpu_count() or 1)) as pool:
        for res in pool.imap(_rt_worker, jobs):
            for spec, h, v, r, bad in res:
                ctx.violation(bad[0], '{} header={} varnames={} via {} : {}'.format(_short(spec), h, v, r, bad[1]),
                              {'fn': 'checks.C06:replay_roundtrip', 'args': dict(spec=spec, header=h, varnames=v, route=r)})
    ctx.sample({'roundtrip': {'n': 3, 'clauses': [[1, -2], [], [3]]}, 'renderings': 5})


SPECIALS = [
    {'kind': 'cnf', 'n': 0, 'clauses': []},
    {'kind': 'cnf', 'n': 0, 'clauses': [[]]},
    {'kind': 'cnf', 'n': 0, 'clauses': [[], [], []]},
    {'kind': 'cnf', 'n': 5, 'clauses': []},
    {'kind': 'cnf', 'n': 5, 'clauses': [[], [1], []]},
    {'kind': 'cnf', 'n': 7, 'clauses': [[1, 2], [-2]]},
    {'kind': 'cnf', 'n': 1, 'clauses': [[1, 1, 1], [1, -1], [-1, 1, -1]]},
    {'kind': 'cnf', 'n': 0, 'clauses': [[3, -3, 2, 2]]},
    {'kind': 'cnf', 'n': 0, 'clauses': [[100000, -99999]]},
    {'kind': 'cnf', 'n': 0, 'clauses': [list(range(1, 41)), list(range(-40, 0))]},
    {'kind': 'cnf', 'n': 0, 'clauses': [[10, 1], [9], [100, -10]]},
    {'kind': 'cnf', 'n': 2, 'clauses': [[1, 2]], 'names': [['var', 'X'], ['var', 'Y']]},
    {'kind': 'cnf', 'n': 0, 'clauses': [[1, -6], [7]], 'names': [['var', 'X'], ['block', [2, 2], 'z_{{{},{}}}'], ['anon', 2]]},
    {'kind': 'cnf', 'n': 9, 'clauses': [[-4]], 'names': [['block', [3], 'p_{}'], ['block', [0], 'q_{}'], ['block', [1, 2], 'r({},{})']]},
]


def bounded_special(ctx):
    ctx.bounds['roundtrip_special'] = '{} hand-made formulas: no variables, only empty clauses, unused top variables, repeated/opposite literals, wide clauses, large indices, named groups; 5 renderings + file route'.format(len(SPECIALS))
    for spec in SPECIALS:
        for (h, v, r) in VARIANTS + [(True, True, 'file'), (False, False, 'file')]:
            _check_rt(ctx, spec, h, v, r, ('special', repr(spec), h, v, r), nontrivial=True)
    ctx.sample({'roundtrip': SPECIALS[4]})


def bounded_families(ctx):
    thorough = ctx.tier == 'thorough'
    names = xf.family_names()
    ctx.bounds['roundtrip_families'] = ('{} family instances (two sizes per family of C01-C03 and the other public families), as CNF; '
                                        'transformation chains of length 1 (all 9) {} on 3 bases; renderings: 5 + file route'.format(
                                            len(names), 'and 2 (all 81)' if thorough else 'and 2 (21 pairs)'))
    for name in names:
        spec = {'kind': 'family', 'name': name, 'cls': 'cnf', 'chain': []}
        for (h, v, r) in VARIANTS + [(True, True, 'file')]:
            _check_rt(ctx, spec, h, v, r, ('family', name, h, v, r))
    bases = ['php_3_2', 'peb_pyr', 'randkcnf_unused']
    chains = [[t] for t in xf.TRANSFORMATIONS]
    pairs = [[a, b] for a in xf.TRANSFORMATIONS for b in xf.TRANSFORMATIONS]
    if not thorough:      # the blow-up of maj/neq followed by another substitution is left to the thorough tier
        pairs = [p for p in pairs[::3] if p[0][0] not in ('maj', 'neq')]
    import multiprocessing as mp
    jobs = []
    for base in bases:
        for chain in chains + pairs:
            spec = {'kind': 'family', 'name': base, 'cls': 'cnf', 'chain': chain}
            variants = [(True, True, 'stream'), (False, False, 'to_dimacs')] + ([(True, True, 'file')] if len(chain) == 1 else [])
            for (h, v, r) in variants:
                ctx.case(('chain', base, repr(chain), h, v, r))
            jobs.append([(spec, variants)])
    with mp.Pool(min(12, os.cpu_count() or 1)) as pool:
        for res in pool.imap(_spec_worker, jobs):
            for spec, h, v, r, bad in res:
                ctx.violation(bad[0], '{} header={} varnames={} via {} : {}'.format(_short(spec), h, v, r, bad[1]),
                              {'fn': 'checks.C06:replay_roundtrip', 'args': dict(spec=spec, header=h, varnames=v, route=r)})
    ctx.sample({'roundtrip': {'family': 'php_3_2', 'chain': [['xor', 2], ['shuffle']]}})


def _fmt_escape(t):
    return t.replace('{', '{{').replace('}', '}}')


def bounded_unusual(ctx):
    """descriptions, extra header fields and variable names with unusual text"""
    ctx.bounds['roundtrip_unusual'] = '{} unusual texts (newline, CR, "c", "p cnf", %, braces, tabs, non-ASCII, VT/FF/NEL/LS, long) as description, as extra header value, as variable name and as block label; stream and file routes'.format(len(xf.UNUSUAL))
    clauses = [[1, -2], [2]]
    for t in xf.UNUSUAL:
        for route in ('stream', 'file'):
            spec = {'kind': 'cnf', 'n': 2, 'clauses': clauses, 'description': t}
            _check_rt(ctx, spec, True, False, route, ('descr', t, route))
            _check_rt(ctx, spec, False, False, route, ('descr-off', t, route))
            spec = {'kind': 'cnf', 'n': 0, 'clauses': clauses, 'names': [['var', t], ['var', 'Y']]}
            _check_rt(ctx, spec, False, True, route, ('name', t, route))
            _check_rt(ctx, spec, True, False, route, ('name-off', t, route))
            spec = {'kind': 'cnf', 'n': 0, 'clauses': clauses, 'names': [['block', [2], _fmt_escape(t) + '{}']]}
            _check_rt(ctx, spec, True, True, route, ('blockname', t, route))
    # an extra header field (families and the command line add such fields)
    for t in xf.UNUSUAL:
        ctx.case(('field', t))
        bad = eval_header_field(t)
        if bad:
            ctx.violation(bad[0], 'header field value {!r}: {}'.format(t, bad[1]), {'fn': 'checks.C06:replay_header_field', 'args': {'value': t}})
    ctx.sample({'roundtrip': {'description': 'a\nb', 'clauses': clauses}})


def eval_header_field(value):
    CNF = _CNF()
    F = CNF([[1, -2], [2]])
    F.header['note'] = value
    s = StringIO()
    F.to_file(s, export_header=True)
    try:
        doc = xr.dimacs_writer_form(s.getvalue())
    except xr.FormatError as e:
        return ('dimacs:writer:noncomment_line:header', e.msg)
    if (doc['n'], doc['clauses']) != (2, [[1, -2], [2]]):
        return ('dimacs:writer:clauses', 'wrong content')
    try:
        G = CNF.from_file(StringIO(s.getvalue()))
    except Exception as e:
        return ('dimacs:roundtrip:raises:' + type(e).__name__, str(e))
    if G.number_of_variables() != 2 or [list(c) for c in G] != [[1, -2], [2]]:
        return ('dimacs:roundtrip:clauses', 'read back {}'.format(list(G)))
    return None


def replay_header_field(value):
    return eval_header_field(value) is None


# =====================================================================================
# reader robustness
# =====================================================================================
def base_texts():
    """valid DIMACS texts in many styles (written here, not by cnfgen)"""
    T = []
    forms = [
        (0, []), (0, [[]]), (1, [[1]]), (1, [[-1], [1]]), (2, [[1, -2], [2]]), (3, [[1, 2, 3], [-1, -2], [], [3]]),
        (4, [[1, 2], [-3]]), (3, [[1, 1], [2, -2]]), (12, [[10, -11], [12, 1], [-1]]), (2, []), (3, [[], []]),
    ]

    def body(cl, sep=' ', end='\n'):
        return ''.join(sep.join(str(l) for l in c + [0]) + end for c in cl)
    for n, cl in forms:
        m = len(cl)
        T.append('p cnf {} {}\n'.format(n, m) + body(cl))
        T.append('c a comment\nc\np cnf {} {}\n'.format(n, m) + body(cl))
    for n, cl in forms[4:9]:
        m = len(cl)
        flat = ' '.join(' '.join(str(l) for l in c + [0]) for c in cl)
        T.append('p cnf {} {}\n{}\n'.format(n, m, flat))                                   # all clauses on one line
        T.append('p cnf {} {}\n'.format(n, m) + '\n'.join(flat.split(' ')) + '\n')           # one token per line
        T.append('p cnf {} {}\n'.format(n, m) + body(cl)[:-1])                               # no final newline
        T.append('c x\r\np cnf {} {}\r\n'.format(n, m) + body(cl, end='\r\n'))              # CRLF
        T.append('p  cnf\t{}   {} \n'.format(n, m) + body(cl, sep='\t', end=' \n'))         # tabs, trailing blanks
        T.append('\n\np cnf {} {}\n\n'.format(n, m) + body(cl, end='\n\n'))                  # blank lines
        T.append('p cnf {} {}\nc in the middle\n'.format(n, m) + body(cl, end='\nc after\n'))  # comments among clauses
        T.append('c varname 1 x\nc p cnf 9 9\nc 1 2 0\np cnf {} {}\n'.format(n, m) + body(cl))  # confusing comments
    out, seen = [], set()
    for t in T:
        if t not in seen:
            seen.add(t)
            out.append(t)
    return out


REPL = ['0', '-0', '+1', '1_0', '{n+1}', '-{n+1}', 'x', 'p', 'p cnf 1', 'c', '%', '1.0', '--1', '1e1', '0x1',
        '１', '١', '-', '1-', '00', '-01', '{n}', '9' * 30]


def _declared_n(text):
    mo = re.search(r'^p\s+cnf\s+(\d+)', text, re.M)
    return int(mo.group(1)) if mo else 0


def mutations(text, thorough):
    """truncations, token replacement/insertion/deletion, line operations, problem line edits,
    single character edits (deterministic)"""
    n = _declared_n(text)
    yield text
    for i in range(len(text)):
        yield text[:i]
    parts = re.split(r'(\s+)', text)          # tokens at even positions
    tok_idx = [i for i in range(0, len(parts), 2) if parts[i] != '']
    repl = [r.replace('{n+1}', str(n + 1)).replace('{n}', str(n)) for r in REPL]
    for i in tok_idx:
        yield ''.join(parts[:i] + parts[i + 1:])                                  # deletion (separators stay)
        for r in repl:
            yield ''.join(parts[:i] + [r] + parts[i + 1:])                        # replacement
            yield ''.join(parts[:i] + [r, ' '] + parts[i:])                       # insertion before
    yield text + '1'
    yield text + '0\n'
    yield text + '1 0\n'
    yield text + 'c\n'
    yield text + 'p cnf 1 1\n'
    lines = text.split('\n')
    for i in range(len(lines)):
        yield '\n'.join(lines[:i] + lines[i + 1:])                                # delete line
        yield '\n'.join(lines[:i] + [lines[i], lines[i]] + lines[i + 1:])         # duplicate line
        if i + 1 < len(lines):
            yield '\n'.join(lines[:i] + [lines[i + 1], lines[i]] + lines[i + 2:])  # swap
        for ins in ('', 'c', 'p cnf 1 1', 'p', ' c indented comment', 'cnf', '0', 'p cnf {} 0'.format(n)):
            yield '\n'.join(lines[:i] + [ins] + lines[i:])
    mo = re.search(r'^p\s+cnf\s+(\d+)\s+(\d+)', text, re.M)
    if mo:
        a, b = mo.start(), mo.end()
        nn, mm = int(mo.group(1)), int(mo.group(2))
        for pl in ['p cnf {} {}'.format(nn + 1, mm), 'p cnf {} {}'.format(nn - 1, mm), 'p cnf {} {}'.format(nn, mm + 1),
                   'p cnf {} {}'.format(nn, mm - 1), 'p cnf {} {}'.format(mm, nn), 'p cnf -{} {}'.format(nn, mm),
                   'p cnf {} -{}'.format(nn, mm), 'p cnf {} {} 7'.format(nn, mm), 'p cnf {}'.format(nn), 'p {} {}'.format(nn, mm),
                   'p cnf', 'p', 'P CNF {} {}'.format(nn, mm), 'p dnf {} {}'.format(nn, mm), 'pcnf {} {}'.format(nn, mm),
                   'p cnf {}.0 {}'.format(nn, mm), 'p cnf {} {}_0'.format(nn, mm), 'p cnf +{} +{}'.format(nn, mm),
                   'p cnf 0{} 0{}'.format(nn, mm), 'p cnf １ {}'.format(mm), ' p cnf {} {}'.format(nn, mm),
                   'p cnf {} {}'.format(10 ** 20, mm), 'p\tcnf\t{}\t{}'.format(nn, mm), 'p cnf {}{}'.format(nn, mm)]:
            yield text[:a] + pl + text[b:]
    chars = ['\x00', '-', ' ', '\n', '9', '_', '\r', 'c', '\x0c', '\xa0'] if thorough else ['-', '\n', '_', '9']
    for i in range(len(text)):
        for ch in chars:
            if text[i] != ch:
                yield text[:i] + ch + text[i + 1:]
        if thorough:
            yield text[:i] + text[i + 1:]


def _universal(text):
    return text.replace('\r\n', '\n').replace('\r', '\n')


def eval_reader(text, route='stream'):
    """None if the reader's outcome on this text is ValueError or a defensible reading"""
    core.import_repo()
    from cnfgen.formula.cnf import CNF
    from cnfgen.utils.parsedimacs import parse_dimacs
    seen = text
    try:
        if route == 'stream':
            G = CNF.from_file(StringIO(text))
            got = (G.number_of_variables(), [list(c) for c in G])
        elif route == 'parse':
            items = list(parse_dimacs(StringIO(text)))
            got = (items[0], [list(c) for c in items[2:]])
            if items[1] != len(items) - 2:
                return ('dimacs:reader:parse_dimacs_count', 'parse_dimacs announced {} clauses and produced {}'.format(items[1], len(items) - 2))
        else:
            seen = _universal(text)
            with tempfile.TemporaryDirectory(prefix='verif_c06_') as tmp:
                path = os.path.join(tmp, 'in.cnf')
                with open(path, 'wb') as f:
                    f.write(text.encode('utf-8'))
                G = CNF.from_file(path)
                got = (G.number_of_variables(), [list(c) for c in G])
    except ValueError:
        return None
    except Exception as e:
        return ('dimacs:reader:raises:' + type(e).__name__, 'reader raised {}: {}'.format(type(e).__name__, e))
    verdict = xr.dimacs_lenient(seen)
    if verdict[0] == 'reject':
        return ('dimacs:reader:accepts:' + verdict[1], 'text accepted as {} although {}'.format(got, verdict[2]))
    if got[0] != verdict[1] or got[1] not in verdict[2]:
        return ('dimacs:reader:misreads', 'text read as {} ; it says {} variables, clauses {}'.format(got, verdict[1], verdict[2][0]))
    return None


def replay_reader(text, route='stream'):
    return eval_reader(text, route) is None


def _reader_worker(job):
    out = []
    stats = [0, 0]
    for text, routes in job:
        for route in routes:
            bad = eval_reader(text, route)
            if bad:
                out.append((text, route, bad))
        stats[xr.dimacs_lenient(text)[0] == 'ok'] += 1
    return out, stats


def bounded_reader(ctx):
    import multiprocessing as mp
    thorough = ctx.tier == 'thorough'
    bases = base_texts()
    texts, seen = [], set()
    for b in bases:
        for t in mutations(b, thorough):
            if t not in seen:
                seen.add(t)
                texts.append(t)
    rng = random.Random(ctx.seed)
    # two independent single corruptions of the same base text (seeded sample)
    ndouble = 60000 if thorough else 6000
    singles = {}
    for _ in range(ndouble):
        b = rng.choice(bases)
        if b not in singles:
            singles[b] = [t for t in mutations(b, False)]
        t = rng.choice(singles[b])
        ms = list(itertools.islice(mutations(t, False), 0, None)) if len(t) < 40 else None
        if ms is None:
            # long text: corrupt one more token only
            parts = re.split(r'(\s+)', t)
            idx = [i for i in range(0, len(parts), 2) if parts[i] != '']
            if not idx:
                continue
            i = rng.choice(idx)
            parts[i] = rng.choice(REPL).replace('{n+1}', str(_declared_n(t) + 1)).replace('{n}', str(_declared_n(t)))
            t2 = ''.join(parts)
        else:
            t2 = rng.choice(ms)
        if t2 not in seen:
            seen.add(t2)
            texts.append(t2)
    extra = ['', '\n', ' ', 'c', 'p', 'p cnf', '0', 'c only a comment\n', '\x00', 'p cnf 0 0', 'p cnf 0 0\n0\n', 'p cnf 0 1\n0\n',
             'p cnf 1 1\n1 0 extra\n', 'p cnf 1 1\n1\n0\n', 'p cnf 2 1\n1 c 2 0\n', 'p cnf 2 2\n1 0 2\n', 'p cnf 1 1\n%\n0\n',
             'p cnf 3 1\n1 2 3 0\n%\n0\n', 'p cnf 10 1\n1_0 0\n', 'p cnf 1_0 1\n10 0\n', 'p cnf 1 1\n١ 0\n', 'p cnf 2 1\n1 2 0\x0c\n',
             'p cnf 2 1\n1\xa02 0\n', 'p cnf 2 1\n1 2 0\n', 'p cnf 1 1\n' + '9' * 5000 + ' 0\n', 'p cnf 1 1\n1 0\np cnf 1 1\n']
    for t in extra:
        if t not in seen:
            seen.add(t)
            texts.append(t)
    ctx.bounds['reader'] = ('{} valid base texts (styles: comments, one line, one token per line, no final newline, CRLF, tabs, blank lines, '
                            'comments among clauses); every prefix; every token deleted/replaced/preceded by one of {} tokens; line '
                            'delete/duplicate/swap/insert; 24 problem-line edits; every character replaced by one of {} characters; {} seeded double corruptions; '
                            '{} distinct texts; routes CNF.from_file(stream) all, parse_dimacs every 3rd, from_file(path) every {}th'.format(
                                len(bases), len(REPL), 10 if thorough else 4, ndouble, len(texts), 20 if thorough else 40))
    ctx.rule('C06 reader: one case = (text, route); non-trivial iff the text differs from every valid base text; expected outcome from vlib.x_readers.dimacs_lenient')
    jobs, chunk = [], []
    nfile = 20 if thorough else 40
    for i, t in enumerate(texts):
        routes = ['stream'] + (['parse'] if i % 3 == 0 else []) + (['file'] if i % nfile == 0 and '\x00' not in t else [])
        chunk.append((t, routes))
        ctx.case(('reader', t), nontrivial=t not in bases, n=len(routes))
        if len(chunk) >= 1500:
            jobs.append(chunk)
            chunk = []
    if chunk:
        jobs.append(chunk)
    acc = [0, 0]
    with mp.Pool(min(12, os.cpu_count() or 1)) as pool:
        for res, stats in pool.imap(_reader_worker, jobs):
            acc[0] += stats[0]
            acc[1] += stats[1]
            for text, route, bad in res:
                ctx.violation(bad[0], 'text {!r} via {} : {}'.format(text[:120], route, bad[1]),
                              {'fn': 'checks.C06:replay_reader', 'args': {'text': text, 'route': route}})
    ctx.section('reader', texts=len(texts), texts_with_a_valid_reading=acc[1], texts_that_must_be_rejected=acc[0])
    for t in rng.sample(texts, 3):
        ctx.sample({'reader_text': t[:80]})
    ctx.sample({'reader_text': 'p cnf 2 1\n1 3 0\n', 'expected': 'ValueError'})


# =====================================================================================
# command line:  cnfgen dimacs <file>
# =====================================================================================
def eval_cli(text, header, varnames):
    """`cnfgen [-q] [--varnames] -o OUT dimacs IN` on a valid text: OUT is in writer form and
    carries the clauses of IN"""
    cg = core.import_repo()
    verdict = xr.dimacs_lenient(text)
    assert verdict[0] == 'ok'
    with tempfile.TemporaryDirectory(prefix='verif_c06_') as tmp:
        pin, pout = os.path.join(tmp, 'in.cnf'), os.path.join(tmp, 'out.cnf')
        with open(pin, 'w') as f:
            f.write(text)
        argv = ['cnfgen'] + ([] if header else ['-q']) + (['--varnames'] if varnames else []) + ['-o', pout, 'dimacs', pin]
        try:
            cg.cnfgen(argv)
        except BaseException as e:
            return ('dimacs:cli:raises:' + type(e).__name__, '{} raised {}: {}'.format(argv, type(e).__name__, e))
        gc.collect()
        with open(pout) as f:
            out = f.read()
    try:
        doc = xr.dimacs_writer_form(out)
    except xr.FormatError as e:
        return ('dimacs:cli:{}'.format(e.kind), e.msg)
    if doc['n'] != verdict[1] or doc['clauses'] not in verdict[2]:
        return ('dimacs:cli:content', 'output has {} variables, clauses {} ; input {}'.format(doc['n'], doc['clauses'][:4], verdict[1:]))
    return None


def replay_cli(text, header, varnames):
    return eval_cli(text, header, varnames) is None


def bounded_cli(ctx):
    bases = base_texts()
    ctx.bounds['cli'] = '`cnfgen [-q] [--varnames] -o OUT dimacs IN` (in process) on the {} valid base texts'.format(len(bases))
    for i, t in enumerate(bases):
        h, v = bool(i % 2), bool(i // 2 % 2)
        ctx.case(('cli', t, h, v))
        bad = eval_cli(t, h, v)
        if bad:
            ctx.violation(bad[0], 'input {!r} header={} varnames={} : {}'.format(t[:80], h, v, bad[1]),
                          {'fn': 'checks.C06:replay_cli', 'args': {'text': t, 'header': h, 'varnames': v}})


# =====================================================================================
def run(ctx):
    from checks import proofs
    proofs.run_group(ctx, 'C06')
    only = getattr(ctx, 'only', None)
    for name, fn in (('small', bounded_small), ('special', bounded_special), ('families', bounded_families),
                     ('unusual', bounded_unusual), ('reader', bounded_reader), ('cli', bounded_cli)):
        if only and only not in name:
            continue
        fn(ctx)
    ctx.assume('independent readers in vlib/x_readers.py (dimacs_writer_form, dimacs_lenient): written from the DIMACS format and the property statement, no cnfgen code')
    ctx.assume('in-memory reference of a family formula = list(F), F.number_of_variables(); of a hand-built formula = the clauses handed to add_clause')
    ctx.assume("a 'line' of the output is broken at \\n; for output written to a path also at \\r\\n and \\r (what a text-mode consumer, cnfgen's reader included, sees)")


def replay(ctx, data):
    return generic_replay(data)
