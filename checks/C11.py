"""C11 - variable groups map indices to identifiers bijectively, with names aligned.

bounded part (this file):
 * every group kind x small shapes (blocks <= 3 dims, words of the four kinds, all small bipartite /
   simple / directed graphs, unary / sparse / binary mappings) x start offsets x both formula classes:
   contiguous fresh id range, indices enumerated in identifier order, index <-> id round trip for
   positive and negative literals, wildcard patterns, rejection outside the domain, labels.
 * all histories of bounded length interleaving group creation, clause insertion and
   update_variable_number: all_variable_labels() (and the 'c varname' lines of the DIMACS / OPB
   writers) are aligned with an independent ghost model of "who owns variable i".

The oracle of every group kind is the documented legal index set, written here by brute force
(filters over cartesian products / edge lists); nothing of cnfgen's index arithmetic is reused.
"""
import io
import itertools

from vlib import core
from vlib.replay import generic_replay

LEVEL = 'exploration'


def _classes():
    core.import_repo()
    from cnfgen.formula.cnf import CNF
    from cnfgen.formula.opb import OPB
    return {'cnf': CNF, 'opb': OPB}


# ---------------------------------------------------------------------------------
# group specifications:  spec = {'kind': ..., parameters...}  (JSON-able)
# oracle(spec) -> dict(legal=[canonical index tuples], canon=fn, arity, patterns=bool,
#                      bad=[out-of-domain index tuples], fmt=fn(idx)->label, values=per-position value pools)
# ---------------------------------------------------------------------------------
def _legal_words(kind, n, k):
    allw = itertools.product(range(1, n + 1), repeat=k)
    if kind == 'combinations':
        return [w for w in allw if all(w[i] < w[i + 1] for i in range(k - 1))]
    if kind == 'combinations_with_replacement':
        return [w for w in allw if all(w[i] <= w[i + 1] for i in range(k - 1))]
    if kind == 'permutations':
        return [w for w in allw if len(set(w)) == k]
    if kind == 'words':
        return list(allw)
    raise ValueError(kind)


def oracle(spec):
    kind = spec['kind']
    ident = lambda t: tuple(t)
    if kind == 'block':
        ranges = spec['ranges']
        legal = list(itertools.product(*[range(1, r + 1) for r in ranges]))
        d = len(ranges)
        bad = []
        for pos in range(d):
            for base in (legal[:1] + legal[-1:]) or [tuple(1 for _ in ranges)]:
                for val in (0, ranges[pos] + 1, -1):
                    t = list(base)
                    t[pos] = val
                    bad.append(tuple(t))
        bad.append(tuple([1] * (d + 1)))
        if d > 1:
            bad.append(tuple([1] * (d - 1)))
        bad = [t for t in bad if t not in set(legal)]
        lab = spec.get('label') or ('X(' + ','.join(['{}'] * d) + ')')
        return dict(legal=legal, canon=ident, arity=d, patterns=True, bad=bad,
                    fmt=lambda idx: lab.format(*idx), pools=[list(range(1, r + 1)) for r in ranges],
                    badpools=[[0, r + 1] for r in ranges])
    if kind in ('combinations', 'combinations_with_replacement', 'permutations', 'words'):
        n, k = spec['n'], spec['k']
        legal = _legal_words(kind, n, k)
        ls = set(legal)
        bad = [w for w in itertools.product(range(0, n + 2), repeat=k) if w not in ls]
        bad += [w for w in itertools.product(range(1, n + 1), repeat=k + 1) if w not in ls][:6]
        if k >= 2:
            bad += [w for w in itertools.product(range(1, n + 1), repeat=k - 1) if w not in ls][:6]
        lab = spec.get('label') or 'p_{{{}}}'
        return dict(legal=legal, canon=ident, arity=k, patterns=False, bad=bad,
                    fmt=lambda idx: lab.format(','.join(str(x) for x in idx)), pools=None, badpools=None)
    if kind in ('bipartite', 'sparse_mapping', 'mapping'):
        L, R = spec['L'], spec['R']
        if kind == 'mapping':
            edges = [(u, v) for u in range(1, L + 1) for v in range(1, R + 1)]
        else:
            edges = [tuple(e) for e in spec['edges']]
        es = set(edges)
        bad = [(u, v) for u in range(0, L + 2) for v in range(0, R + 2) if (u, v) not in es]
        bad += [(1,), (1, 1, 1)]
        lab = spec.get('label') or ('e({},{})' if kind == 'bipartite' else 'f({})={}')
        return dict(legal=sorted(edges), canon=ident, arity=2, patterns=True, bad=bad,
                    fmt=lambda idx: lab.format(*idx), pools=[list(range(1, L + 1)), list(range(1, R + 1))],
                    badpools=[[0, L + 1], [0, R + 1]])
    if kind == 'graph':
        n = spec['n']
        edges = [tuple(sorted(e)) for e in spec['edges']]
        es = set(edges)
        bad = [(u, v) for u in range(0, n + 2) for v in range(0, n + 2)
               if (min(u, v), max(u, v)) not in es]
        bad += [(1,), (1, 2, 1)]
        lab = spec.get('label') or 'e({},{})'
        return dict(legal=sorted(edges), canon=lambda t: tuple(sorted(t)), arity=2, patterns=True, bad=bad,
                    fmt=lambda idx: lab.format(*sorted(idx)), pools=[list(range(1, n + 1))] * 2,
                    badpools=[[0, n + 1]] * 2, symmetric=True)
    if kind == 'digraph':
        n = spec['n']
        edges = [tuple(e) for e in spec['edges']]
        es = set(edges)
        bad = [(u, v) for u in range(0, n + 2) for v in range(0, n + 2) if (u, v) not in es]
        bad += [(1,), (1, 2, 1)]
        lab = spec.get('label') or 'e({},{})'
        return dict(legal=sorted(edges), canon=ident, arity=2, patterns=True, bad=bad,
                    fmt=lambda idx: lab.format(*idx), pools=[list(range(1, n + 1))] * 2,
                    badpools=[[0, n + 1]] * 2)
    if kind == 'binary_mapping':
        n, m = spec['n'], spec['m']
        bits = 0
        while (1 << bits) < m:       # smallest k with m <= 2^k  (documentation of new_binary_mapping)
            bits += 1
        legal = [(i, b) for i in range(1, n + 1) for b in range(bits)]
        ls = set(legal)
        bad = [(i, b) for i in range(0, n + 2) for b in range(-1, bits + 1) if (i, b) not in ls]
        bad += [(1,), (1, 0, 0)]
        lab = spec.get('label') or 'v({},{})'
        return dict(legal=legal, canon=ident, arity=2, patterns=True, bad=bad, fmt=lambda idx: lab.format(*idx),
                    pools=[list(range(1, n + 1)), list(range(bits))], badpools=[[0, n + 1], [-1, bits]], bits=bits)
    raise ValueError(kind)


def make_group(F, spec):
    """create the group of `spec` on formula F through the public new_* methods"""
    from cnfgen.graphs import BipartiteGraph, Graph, DirectedGraph
    kind = spec['kind']
    kw = {}
    if spec.get('label'):
        kw['label'] = spec['label']
    if kind == 'block':
        return F.new_block(*spec['ranges'], **kw)
    if kind == 'combinations':
        return F.new_combinations(spec['n'], spec['k'], **kw)
    if kind == 'combinations_with_replacement':
        return F.new_combinations_with_replacement(spec['n'], spec['k'], **kw)
    if kind == 'permutations':
        if spec.get('kdefault'):
            return F.new_permutations(spec['n'], **kw)
        return F.new_permutations(spec['n'], spec['k'], **kw)
    if kind == 'words':
        return F.new_words(spec['n'], spec['k'], **kw)
    def reused(G, maker):
        # "for all sequences ... of group creation": the SAME graph object may already have served another group,
        # in another formula, at another offset; nothing of that may leak into the new group
        if spec.get('reuse') is not None:
            F0 = type(F)()
            F0.update_variable_number(spec['reuse'])
            maker(F0)(G)
        return G
    if kind in ('bipartite', 'sparse_mapping'):
        B = BipartiteGraph(spec['L'], spec['R'])
        for u, v in spec['edges']:
            B.add_edge(u, v)
        reused(B, lambda X: (X.new_bipartite_edges if kind == 'bipartite' else X.new_sparse_mapping))
        return (F.new_bipartite_edges if kind == 'bipartite' else F.new_sparse_mapping)(B, **kw)
    if kind == 'mapping':
        return F.new_mapping(spec['L'], spec['R'], **kw)
    if kind == 'graph':
        G = Graph(spec['n'])
        for u, v in spec['edges']:
            G.add_edge(u, v)
        reused(G, lambda X: X.new_graph_edges)
        return F.new_graph_edges(G, **kw)
    if kind == 'digraph':
        D = DirectedGraph(spec['n'])
        for u, v in spec['edges']:
            D.add_edge(u, v)
        reused(D, lambda X: (lambda g: X.new_digraph_edges(g, sortby=spec.get('sortby', 'pred'))))
        return F.new_digraph_edges(D, sortby=spec.get('sortby', 'pred'), **kw)
    if kind == 'binary_mapping':
        return F.new_binary_mapping(spec['n'], spec['m'], **kw)
    raise ValueError(kind)


class Bad(Exception):
    """property fails: .aspect is the coarse aspect name, .msg the concrete description"""

    def __init__(self, aspect, msg):
        Exception.__init__(self, aspect + ': ' + msg)
        self.aspect = aspect
        self.msg = msg


def _rejects(fn, what, aspect='reject'):
    """fn() must raise ValueError (documented rejection)"""
    try:
        r = fn()
    except ValueError:
        return
    except Exception as e:
        raise Bad(aspect + '-type', '{} raised {} ({}) instead of ValueError'.format(what, type(e).__name__, e))
    raise Bad(aspect, '{} accepted, returned {!r}'.format(what, r))


def _listed(x):
    """int stays int, iterables are consumed"""
    if isinstance(x, int):
        return x
    return list(x)


def eval_group(cls, spec, pre):
    """None iff the group of `spec`, created on a formula of class cls that already has `pre`
    variables, satisfies C11; else (aspect, description)"""
    C = _classes()[cls]
    O = oracle(spec)
    F = C()
    F.update_variable_number(pre)
    try:
        try:
            g = make_group(F, spec)
        except Exception as e:
            raise Bad('create', 'creation raised {}: {}'.format(type(e).__name__, e))
        _check_group(F, g, O, spec, pre)
    except Bad as b:
        return (b.aspect, b.msg)
    return None


def _check_group(F, g, O, spec, pre):
    legal = O['legal']
    canon = O['canon']
    N = len(legal)
    b = pre + 1
    # --- contiguous fresh range
    if len(g) != N:
        raise Bad('range', 'len(group)={} but the legal index set has {} elements'.format(len(g), N))
    if list(g) != list(range(b, b + N)):
        raise Bad('range', 'ids {} expected {}'.format(list(g)[:8], list(range(b, b + N))[:8]))
    if F.number_of_variables() != pre + N:
        raise Bad('range', 'number_of_variables()={} expected {}'.format(F.number_of_variables(), pre + N))
    # --- enumeration in identifier order
    try:
        idxs = [tuple(i) for i in g.indices()]
    except Exception as e:
        raise Bad('indices', 'indices() raised {}: {}'.format(type(e).__name__, e))
    if len(idxs) != len(set(idxs)) or set(canon(i) for i in idxs) != set(legal) or len(idxs) != N:
        raise Bad('indices', 'indices()={} but legal set is {}'.format(idxs[:10], legal[:10]))
    for t, idx in enumerate(idxs):
        try:
            v = g(*idx)
        except Exception as e:
            raise Bad('index->id', 'group{} raised {}: {}'.format(idx, type(e).__name__, e))
        if v != b + t:
            raise Bad('order', 'group{} = {} but it is index number {} of indices(), expected id {}'.format(idx, v, t, b + t))
    # --- round trip
    for t, idx in enumerate(idxs):
        v = b + t
        for lit in (v, -v):
            try:
                back = g.to_index(lit)
            except Exception as e:
                raise Bad('id->index', 'to_index({}) raised {}: {}'.format(lit, type(e).__name__, e))
            if tuple(back) != idx:
                raise Bad('id->index', 'to_index({}) = {} expected {}'.format(lit, back, idx))
            if lit not in g:
                raise Bad('contains', '{} in group is False'.format(lit))
        if O.get('symmetric'):
            if g(*idx[::-1]) != v:
                raise Bad('index->id', 'group{} != group{}'.format(idx[::-1], idx))
    for lit in (b - 1, b + N, -(b + N), 0, -(b - 1)):
        if b <= abs(lit) < b + N:
            continue
        _rejects(lambda: g.to_index(lit), 'to_index({})'.format(lit), 'reject-literal')
        if lit in g:
            raise Bad('contains', '{} in group is True'.format(lit))
    try:
        D = g.to_dict()
    except Exception as e:
        raise Bad('to_dict', 'to_dict() raised {}: {}'.format(type(e).__name__, e))
    if {tuple(k): v for k, v in D.items()} != {idx: b + t for t, idx in enumerate(idxs)}:
        raise Bad('to_dict', 'to_dict()={}'.format(D))
    # --- labels
    try:
        labs = list(g.label())
        # (a 0-ary index is indistinguishable from the empty 'everything' pattern: skip the single-label call there)
        one = [g.label(*idx) for idx in idxs] if O['arity'] > 0 else None
    except Exception as e:
        raise Bad('label', 'label raised {}: {}'.format(type(e).__name__, e))
    want = [O['fmt'](idx) for idx in idxs]
    if one is None:
        one = want
    if labs != want or one != want:
        raise Bad('label', 'labels {} / {} expected {}'.format(labs[:6], one[:6], want[:6]))
    allv = list(F.all_variable_labels())
    if allv != ['x{}'.format(i) for i in range(1, b)] + want:
        raise Bad('all_variable_labels', 'got {} expected {}'.format(allv[:10], (['x{}'.format(i) for i in range(1, b)] + want)[:10]))
    # --- rejection of indices outside the domain
    for idx in O['bad']:
        _rejects(lambda: _listed(g(*idx)), 'group{}'.format(idx))
        _rejects(lambda: _listed(g.indices(*idx)), 'indices{}'.format(idx))
    # --- wildcard patterns
    if O['patterns'] and O['arity'] >= 1:
        pools = O['pools']
        for pat in itertools.product(*[[None] + p for p in pools]):
            if None not in pat:
                continue
            exp = [t for t, idx in enumerate(idxs)
                   if _matches(pat, idx, O.get('symmetric'))]
            try:
                got_idx = [tuple(i) for i in g.indices(*pat)]
                got_ids = list(g(*pat))
                got_lab = list(g.label(*pat))
            except Exception as e:
                raise Bad('pattern', 'pattern {} raised {}: {}'.format(pat, type(e).__name__, e))
            if sorted(got_ids) != [b + t for t in exp] or len(got_ids) != len(set(got_ids)):
                raise Bad('pattern', 'group{} = {} expected ids {}'.format(pat, got_ids, [b + t for t in exp]))
            if [b + idxs.index(_find(idxs, i, canon)) for i in got_idx] != got_ids:
                raise Bad('pattern', 'indices{} = {} not aligned with ids {}'.format(pat, got_idx, got_ids))
            if got_lab != [want[v - b] for v in got_ids]:
                raise Bad('pattern', 'label{} = {} not aligned with ids {}'.format(pat, got_lab, got_ids))
        # a fixed component outside its range together with a wildcard
        for pos in range(O['arity']):
            for val in O['badpools'][pos]:
                pat = [None] * O['arity']
                pat[pos] = val
                if O['arity'] == 1:
                    continue
                _rejects(lambda: _listed(g(*pat)), 'group{}'.format(tuple(pat)), 'reject-pattern')
    # --- mapping extras
    kind = spec['kind']
    if kind in ('mapping', 'sparse_mapping'):
        L, R = spec['L'], spec['R']
        if list(g.domain()) != list(range(1, L + 1)) or list(g.range()) != list(range(1, R + 1)):
            raise Bad('domain-range', 'domain {} range {}'.format(list(g.domain()), list(g.range())))
        for u in range(1, L + 1):
            if list(g.range(u)) != [v for (x, v) in legal if x == u]:
                raise Bad('domain-range', 'range({}) = {}'.format(u, list(g.range(u))))
        for v in range(1, R + 1):
            if list(g.domain(v)) != [x for (x, y) in legal if y == v]:
                raise Bad('domain-range', 'domain({}) = {}'.format(v, list(g.domain(v))))
    if kind == 'binary_mapping':
        if g.bits() != O['bits']:
            raise Bad('bits', 'bits()={} expected {}'.format(g.bits(), O['bits']))
        if list(g.domain()) != list(range(1, spec['n'] + 1)) or list(g.range()) != list(range(spec['m'])):
            raise Bad('domain-range', 'domain {} range {}'.format(list(g.domain()), list(g.range())))
        # documented order: v(i,k-1) ... v(i,0) for i = 1..n
        if idxs != [(i, bb) for i in range(1, spec['n'] + 1) for bb in range(O['bits'] - 1, -1, -1)]:
            raise Bad('order', 'binary mapping order {}'.format(idxs))
    if kind == 'block' and idxs != legal:
        raise Bad('order', 'block indices are not in the documented lexicographic order: {}'.format(idxs[:8]))


def _matches(pat, idx, symmetric):
    if symmetric:
        fixed = [p for p in pat if p is not None]
        return all(p in idx for p in fixed)
    return all(p is None or p == x for p, x in zip(pat, idx))


def _find(idxs, i, canon):
    c = canon(i)
    for x in idxs:
        if canon(x) == c:
            return x
    raise Bad('pattern', 'indices(pattern) produced {} which is not a legal index'.format(i))


def replay_group(cls, spec, pre):
    return eval_group(cls, spec, pre) is None


# ---------------------------------------------------------------------------------
def _graph_specs(thorough):
    from vlib import enumerate as en
    out = []
    bip_shapes = [(0, 0), (0, 2), (2, 0), (1, 1), (1, 3), (2, 2), (2, 3), (3, 2)] + ([(3, 3)] if thorough else [])
    for (L, R) in bip_shapes:
        for _, _, edges in en.bipartite_graphs(L, R):
            out.append({'kind': 'bipartite', 'L': L, 'R': R, 'edges': edges})
            out.append({'kind': 'sparse_mapping', 'L': L, 'R': R, 'edges': edges})
    if not thorough:
        # a deterministic slice of the 3x3 graphs (every 7th mask)
        for i, (_, _, edges) in enumerate(en.bipartite_graphs(3, 3)):
            if i % 7 == 3:
                out.append({'kind': 'bipartite', 'L': 3, 'R': 3, 'edges': edges})
                out.append({'kind': 'sparse_mapping', 'L': 3, 'R': 3, 'edges': edges})
    for n in range(0, 5):
        for _, edges in en.simple_graphs(n):
            out.append({'kind': 'graph', 'n': n, 'edges': edges})
    if thorough:
        for i, (_, edges) in enumerate(en.simple_graphs(5)):
            if i % 5 == 2:
                out.append({'kind': 'graph', 'n': 5, 'edges': edges})
    # edges given in the other orientation / insertion order reversed
    out.append({'kind': 'graph', 'n': 4, 'edges': [(4, 2), (3, 2), (2, 1), (3, 1)]})
    for n in range(0, 4):
        for i, (_, edges) in enumerate(en.digraphs(n, loops=True)):
            if n == 3 and not thorough and i % 3:
                continue
            for sortby in ('pred', 'succ'):
                out.append({'kind': 'digraph', 'n': n, 'edges': edges, 'sortby': sortby})
    extra = []
    for i, sp in enumerate(out):
        if sp['edges'] and i % 2 == 0:
            extra.append(dict(sp, reuse=(0 if i % 4 == 0 else 3)))
    return out + extra


def _plain_specs(thorough):
    out = []
    R = 4 if thorough else 3
    for d in (1, 2, 3):
        for ranges in itertools.product(range(0, R + 1), repeat=d):
            out.append({'kind': 'block', 'ranges': list(ranges)})
    out.append({'kind': 'block', 'ranges': [2, 1, 3, 2]})
    out.append({'kind': 'block', 'ranges': [2, 3], 'label': 'z_{{{},{}}}'})
    out.append({'kind': 'block', 'ranges': [7, 5]})
    for kind in ('combinations', 'combinations_with_replacement', 'permutations', 'words'):
        for n in range(0, 5 if thorough else 4 + 1):
            for k in range(0, 4):
                if kind == 'words' and n ** k > 100:
                    continue
                out.append({'kind': kind, 'n': n, 'k': k})
        out.append({'kind': kind, 'n': 4, 'k': 2, 'label': 'q({})'})
    for n in range(0, 4):
        out.append({'kind': 'permutations', 'n': n, 'k': n, 'kdefault': True})
    for L in range(0, 4):
        for Rr in range(0, 5):
            out.append({'kind': 'mapping', 'L': L, 'R': Rr})
    out.append({'kind': 'mapping', 'L': 4, 'R': 10})
    for n in range(1, 4):
        for m in range(1, 18 if thorough else 10):
            out.append({'kind': 'binary_mapping', 'n': n, 'm': m})
    out.append({'kind': 'binary_mapping', 'n': 10, 'm': 13, 'label': 'f({},{})'})
    out.append({'kind': 'binary_mapping', 'n': 2, 'm': 64})
    out.append({'kind': 'binary_mapping', 'n': 2, 'm': 65})
    return out


def bounded_groups(ctx):
    thorough = ctx.tier == 'thorough'
    specs = _plain_specs(thorough) + _graph_specs(thorough)
    pres = [0, 5] if not thorough else [0, 1, 5, 11]
    ctx.bounds['groups'] = ('blocks with <= 3 dimensions and ranges 0..{} (+ a 4-dimensional one); the four word kinds n <= {}, k <= 3; '
                            'all bipartite graphs up to 2x3/3x2 ({}3x3), used both as edge group and sparse mapping; all simple graphs on <= 4 '
                            'vertices; all digraphs with loops on <= 2 vertices and {} on 3, both sortings; unary mappings <= 3x4; '
                            'binary mappings n <= 3, m <= {}; each created after {} pre-existing variables on CNF and OPB'
                            ).format(4 if thorough else 3, 5 if thorough else 4, 'all ' if thorough else 'every 7th ',
                                     'all' if thorough else 'every 3rd', 17 if thorough else 9, pres)
    ctx.rule('C11 groups: one case = (formula class, group specification, number of variables before creation); '
             'every legal index, every id, every wildcard pattern and every out-of-domain index in a margin of 1 is checked; '
             'non-trivial iff the group has at least one variable')
    for spec in specs:
        n_legal = len(oracle(spec)['legal'])
        for pre in pres:
            for cls in ('cnf', 'opb'):
                ctx.case(('group', cls, repr(sorted(spec.items())), pre), nontrivial=n_legal > 0)
                bad = eval_group(cls, spec, pre)
                if bad:
                    key = 'group:{}:{}'.format(_kindkey(spec), bad[0])
                    ctx.violation(key, '{} {} after {} variables: {}'.format(cls, spec, pre, bad[1]),
                                  {'fn': 'checks.C11:replay_group', 'args': dict(cls=cls, spec=spec, pre=pre)})
    ctx.sample({'group': {'kind': 'block', 'ranges': [2, 0, 3]}, 'pre': 5, 'class': 'opb'})
    ctx.sample({'group': {'kind': 'digraph', 'n': 3, 'edges': [(1, 1), (3, 2), (2, 3)], 'sortby': 'succ'}, 'pre': 0})
    ctx.sample({'group': {'kind': 'sparse_mapping', 'L': 3, 'R': 2, 'edges': [(1, 2), (3, 1), (3, 2)]}, 'pre': 5})


def _kindkey(spec):
    k = spec['kind']
    if k == 'digraph':
        return 'digraph-' + spec.get('sortby', 'pred')
    return k


# ---------------------------------------------------------------------------------
# histories
# ---------------------------------------------------------------------------------
OPS = ['var_named', 'var_anon', 'block', 'combinations', 'mapping', 'graph_edges', 'clause_raise', 'clause_inside',
       'update_up', 'update_noop', 'empty_block', 'binary_mapping', 'digraph_edges', 'bipartite_edges']


def _apply(F, op, step, ghost):
    """apply op to formula F and to the ghost model (ghost = {'n': numvar, 'names': {id: label or ('?',)}})"""
    from cnfgen.graphs import Graph, DirectedGraph, BipartiteGraph
    n = ghost['n']
    tag = 'abcdefgh'[step]

    def own(labels):
        for i, l in enumerate(labels):
            ghost['names'][n + 1 + i] = l
        ghost['n'] = n + len(labels)

    if op == 'var_named':
        v = F.new_variable(label='V' + tag)
        if v != n + 1:
            raise Bad('new_variable', 'new_variable returned {} with {} variables'.format(v, n))
        own(['V' + tag])
    elif op == 'var_anon':
        v = F.new_variable()
        if v != n + 1:
            raise Bad('new_variable', 'new_variable returned {} with {} variables'.format(v, n))
        own([None])
    elif op == 'block':
        F.new_block(2, 2, label=tag + '[{},{}]')
        own([tag + '[{},{}]'.format(i, j) for i in (1, 2) for j in (1, 2)])
    elif op == 'empty_block':
        F.new_block(2, 0, label=tag + '[{},{}]')
        own([])
    elif op == 'combinations':
        F.new_combinations(3, 2, label=tag + '{{{}}}')
        own([tag + '{1,2}', tag + '{1,3}', tag + '{2,3}'])
    elif op == 'mapping':
        F.new_mapping(2, 2, label=tag + '({})={}')
        own([tag + '({})={}'.format(i, j) for i in (1, 2) for j in (1, 2)])
    elif op == 'binary_mapping':
        F.new_binary_mapping(2, 3, label=tag + '<{},{}>')
        own([tag + '<{},{}>'.format(i, b) for i in (1, 2) for b in (1, 0)])
    elif op == 'graph_edges':
        G = Graph(3)
        G.add_edge(3, 1)
        G.add_edge(2, 3)
        F.new_graph_edges(G, label=tag + '_{}_{}')
        own([tag + '_1_3', tag + '_2_3'])
    elif op == 'digraph_edges':
        D = DirectedGraph(3)
        D.add_edge(3, 1)
        D.add_edge(1, 2)
        F.new_digraph_edges(D, label=tag + '>{}>{}', sortby='succ')
        own([tag + '>3>1', tag + '>1>2'])     # sorted by successor: (3,1) then (1,2)
    elif op == 'bipartite_edges':
        B = BipartiteGraph(2, 2)
        B.add_edge(2, 1)
        B.add_edge(1, 2)
        F.new_bipartite_edges(B, label=tag + '|{}|{}')
        own([tag + '|1|2', tag + '|2|1'])
    elif op == 'clause_raise':
        F.add_clause([-(n + 2), 1])
        ghost['n'] = n + 2
    elif op == 'clause_inside':
        if n >= 1:
            F.add_clause([n, -1] if n > 1 else [1])
        else:
            F.add_clause([])
    elif op == 'update_up':
        F.update_variable_number(n + 2)
        ghost['n'] = n + 2
    elif op == 'update_noop':
        F.update_variable_number(max(n - 1, 0))
    else:
        raise ValueError(op)


def _label_ok(got, ghost, fmt='x{}'):
    """index of first misaligned variable or None; unnamed single variables may show either None or the default name"""
    n = ghost['n']
    if len(got) != n:
        return 0
    for v in range(1, n + 1):
        if v in ghost['names']:
            want = ghost['names'][v]
            if want is None:
                if got[v - 1] not in (None, fmt.format(v)):
                    return v
            elif got[v - 1] != want:
                return v
        elif got[v - 1] != fmt.format(v):
            return v
    return None


def _varname_lines(F, comment):
    """names printed by the file writer: list of (id, name)"""
    buf = io.StringIO()
    F.to_file(buf, export_header=False, export_varnames=True)
    out = []
    for line in buf.getvalue().splitlines():
        parts = line.split()
        if len(parts) >= 4 and parts[0] == comment and parts[1] == 'varname':
            out.append((int(parts[2].lstrip('x')), ' '.join(parts[3:])))
    return out


def eval_history(cls, ops):
    """None iff names stay aligned after every prefix of the history; else (aspect, description)"""
    C = _classes()[cls]
    F = C()
    ghost = {'n': 0, 'names': {}}
    try:
        for step, op in enumerate(ops):
            before_gap = ghost['n'] > 0 and ghost['n'] not in ghost['names']
            try:
                _apply(F, op, step, ghost)
            except Bad:
                raise
            except Exception as e:
                raise Bad(op + ':raised', '{} raised {}: {}'.format(op, type(e).__name__, e))
            where = '{}:{}'.format(op, 'after-gap' if before_gap else 'no-gap')
            if F.number_of_variables() != ghost['n']:
                raise Bad(where + ':count', 'number_of_variables()={} expected {} after {}'.format(F.number_of_variables(), ghost['n'], ops[:step + 1]))
            for fmt in ('x{}', 'y_{}'):
                try:
                    got = list(F.all_variable_labels(fmt)) if fmt != 'x{}' else list(F.all_variable_labels())
                except Exception as e:
                    raise Bad(where + ':labels', 'all_variable_labels raised {}: {} after {}'.format(type(e).__name__, e, ops[:step + 1]))
                bad = _label_ok(got, ghost, fmt)
                if bad is not None:
                    want = [ghost['names'].get(v, fmt.format(v)) for v in range(1, ghost['n'] + 1)]
                    raise Bad(where + ':labels', 'after {}: all_variable_labels() = {} expected {} (first misaligned variable {})'.format(
                        ops[:step + 1], got, want, bad))
        # file writers
        if None not in ghost['names'].values():
            comment = 'c' if cls == 'cnf' else '*'
            try:
                lines = _varname_lines(F, comment)
            except Exception as e:
                raise Bad('varnames-output', 'to_file(export_varnames=True) raised {}: {}'.format(type(e).__name__, e))
            want = [(v, ghost['names'].get(v, 'x{}'.format(v))) for v in range(1, ghost['n'] + 1)]
            if lines != want:
                # only alignment is demanded: every printed line must carry the right name
                wd = dict(want)
                for v, name in lines:
                    if wd.get(v) != name:
                        raise Bad('varnames-output', "after {}: '{} varname {} {}' but variable {} is {}".format(ops, comment, v, name, v, wd.get(v)))
    except Bad as b:
        return (b.aspect, b.msg)
    return None


def replay_history(cls, ops):
    return eval_history(cls, ops) is None


def bounded_histories(ctx):
    thorough = ctx.tier == 'thorough'
    core8 = ['var_named', 'var_anon', 'block', 'combinations', 'mapping', 'graph_edges', 'clause_raise', 'update_up']
    extra = [o for o in OPS if o not in core8]
    maxlen = 4 if thorough else 3
    hist = []
    for n in range(0, maxlen + 1):
        hist += [list(h) for h in itertools.product(core8, repeat=n)]
    # the remaining operations: all histories of length <= 2 over everything, plus each extra op in the middle of core pairs
    for n in range(1, 3):
        for h in itertools.product(OPS, repeat=n):
            if any(o in extra for o in h):
                hist.append(list(h))
    for e in extra:
        for a in core8:
            for c in core8:
                hist.append([a, e, c])
    ctx.bounds['histories'] = ('all histories of length <= {} over {}; all of length <= 2 over these plus {}; each extra operation between every '
                               'pair of the former; on CNF and OPB; names checked after every step with the default and a custom default format, '
                               "and the 'varname' lines of the DIMACS/OPB writers at the end").format(maxlen, core8, extra)
    ctx.rule('C11 histories: one case = (formula class, sequence of operations); the ghost model records which group label owns each '
             'identifier; non-trivial iff the history is non-empty')
    for cls in ('cnf', 'opb'):
        for h in hist:
            ctx.case(('history', cls, tuple(h)), nontrivial=len(h) > 0)
            bad = eval_history(cls, h)
            if bad:
                ctx.violation('history:{}'.format(bad[0]), '{} {}: {}'.format(cls, h, bad[1]),
                              {'fn': 'checks.C11:replay_history', 'args': dict(cls=cls, ops=h)})
    ctx.sample({'history': ['update_up', 'var_named', 'block'], 'class': 'cnf'})
    ctx.sample({'history': ['mapping', 'clause_raise', 'graph_edges'], 'class': 'opb'})


def run(ctx):
    from checks import proofs
    proofs.run_group(ctx, 'C11')
    core.import_repo()
    bounded_groups(ctx)
    bounded_histories(ctx)
    ctx.assume('C11 bounded: the legal index set of every group kind is written from the documentation by brute force in checks/C11.py:oracle')
    ctx.assume('C11 bounded: graph objects (Graph, DirectedGraph, BipartiteGraph) store the edges they are given (C16)')


def replay(ctx, data):
    return generic_replay(data)
