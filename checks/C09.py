"""C09 - Shuffle is a signed renaming of the variables plus a reordering of the clauses.

bounded part
  explicit : every formula of a small family with N,M <= 3 x every explicit / 'fixed' / 'shuffle' choice of flips,
             variable permutation, clause permutation (lists and tuples): the result must be the image demanded
             by the documentation (clause i of F, literal by literal, at position S[i]);
  invalid  : wrong length, entries outside {-1,1}, non-permutations, 0/1-based mix-ups ... must be rejected;
  random   : random formulas x seeds x the 8 combinations of 'fixed'/'shuffle': a witness (sigma, s, pi) is searched
             independently (backtracking, vlib/x_transform.find_witness), with switched-off components forced to the
             identity; variable/clause counts, width multiset and number of models (<= 16 variables) compared;
  tools    : cnfshuffle (in process and as a subprocess on stdin/stdout) and 'cnfgen dimacs FILE -T shuffle' with
             all 8 switch combinations, short and long spellings; output parsed by an own DIMACS reader.
"""
import itertools
import os
import random
import subprocess
import sys
import tempfile

import numpy as np

from vlib import core, sat
from vlib import x_transform as xt
from vlib.replay import generic_replay

LEVEL = 'exploration'


def _shuffle():
    core.import_repo()
    from cnfgen.transformations.shuffle import Shuffle
    return Shuffle


def _ident(arg, n, base):
    """the component demanded by an argument: None = free ('shuffle')"""
    if isinstance(arg, str):
        if arg == 'fixed':
            return [1] * n if base is None else list(range(base, base + n))
        return None
    return list(arg)


def _as(arg, shape):
    if isinstance(arg, str):
        return arg
    return tuple(arg) if shape == 'tuple' else list(arg)


def judge(clauses, nvars, G_n, G_clauses, flips, vperm, cperm):
    """None if (G_n, G_clauses) is F shuffled as demanded by the three arguments, else (kind, text)"""
    M = len(clauses)
    if G_n != nvars:
        return 'counts', 'result has {} variables, input {}'.format(G_n, nvars)
    if len(G_clauses) != M:
        return 'counts', 'result has {} clauses, input {}'.format(len(G_clauses), M)
    if sorted(map(len, clauses)) != sorted(map(len, G_clauses)):
        return 'widths', 'multiset of clause widths changed: {} -> {}'.format(sorted(map(len, clauses)), sorted(map(len, G_clauses)))
    top = max([abs(l) for c in G_clauses for l in c] + [0])
    if top > nvars:
        return 'renaming', 'result mentions variable {} > {}'.format(top, nvars)
    if nvars <= 16:
        a = int(sat.cnf_table(nvars, clauses).sum())
        b = int(sat.cnf_table(nvars, G_clauses).sum())
        if a != b:
            return 'models', 'number of satisfying assignments changed: {} -> {}'.format(a, b)
    want = (_ident(flips, nvars, None), _ident(vperm, nvars, 1), _ident(cperm, M, 0))
    verdict, w = xt.find_witness(nvars, clauses, G_clauses, *want)
    if verdict == 'yes':
        return None
    if verdict == 'unknown':
        return 'unknown', 'witness search exhausted its budget'
    free, _ = xt.find_witness(nvars, clauses, G_clauses)
    if free == 'no':
        return 'renaming', 'no bijection of variables + polarity choice + clause permutation maps the input onto {}'.format(G_clauses)
    return 'as-given', 'result {} is a shuffle of the input but not with flips={} variables={} clauses={} (None = free)'.format(G_clauses, *want)


def eval_library(clauses, nvars, flips, vperm, cperm, seed, shape='list', naming='plain'):
    F = xt.build_formula(clauses, nvars, naming)
    Shuffle = _shuffle()
    random.seed(seed)
    try:
        G = Shuffle(F, _as(flips, shape), _as(vperm, shape), _as(cperm, shape))
        n, cl = G.number_of_variables(), [list(c) for c in G]
    except Exception as e:
        return 'raised', 'raised {}: {}'.format(type(e).__name__, e)
    if G is F:
        return 'as-given', 'the input object itself was returned'
    return judge(clauses, nvars, n, cl, flips, vperm, cperm)


def replay_library(clauses, nvars, flips, vperm, cperm, seed, shape='list', naming='plain'):
    r = eval_library(clauses, nvars, flips, vperm, cperm, seed, shape, naming)
    return r is None or r[0] == 'unknown'


def eval_invalid(clauses, nvars, flips, vperm, cperm, seed, shape='list'):
    """the arguments contain an invalid component: Shuffle must refuse (any exception but an internal assertion)"""
    F = xt.build_formula(clauses, nvars, 'plain')
    Shuffle = _shuffle()
    random.seed(seed)
    try:
        G = Shuffle(F, _as(flips, shape), _as(vperm, shape), _as(cperm, shape))
    except AssertionError as e:
        return 'internal assertion instead of a rejection: {!r}'.format(e)
    except Exception:
        return None
    return 'accepted, returned {}'.format([list(c) for c in G])


def replay_invalid(clauses, nvars, flips, vperm, cperm, seed, shape='list'):
    return eval_invalid(clauses, nvars, flips, vperm, cperm, seed, shape) is None


# ------------------------------------------------------------------ explicit arguments
def small_formulas(rng):
    out = []
    for N in range(0, 4):
        pool = [l for v in range(1, N + 1) for l in (v, -v)]
        for M in range(0, 4):
            fs = []
            if N == 0:
                fs.append([[] for _ in range(M)])
            else:
                for _ in range(3):
                    fs.append([[rng.choice(pool) for _ in range(rng.choice([0, 1, 1, 2, 2, 3]))] for _ in range(M)])
                fs.append([[1] for _ in range(M)])          # repeated clauses, unused variables
                fs.append([[(i % N) + 1] * (i + 1) for i in range(M)])  # pairwise distinguishable clauses
            for f in fs:
                if (f, N) not in out:
                    out.append((f, N))
    out.append(([[1, -2], [2, 3, 3], [-1]], 3))
    out.append(([[1, -1], [], [2]], 3))
    return out


def bounded_explicit(ctx):
    rng = random.Random(ctx.seed)
    fs = small_formulas(rng)
    thorough = ctx.tier == 'thorough'
    ctx.bounds['explicit'] = ('{} formulas with N<=3 variables, M<=3 clauses (empty clauses, repeated clauses and literals, unused variables) x '
                              "flips in {{'fixed','shuffle'}} + all of {{-1,1}}^N x variables in {{'fixed','shuffle'}} + all permutations of 1..N x clauses in "
                              "{{'fixed','shuffle'}} + all permutations of 0..M-1; lists and tuples").format(len(fs))
    ctx.rule("C09 bounded: one case = (formula, flips argument, variables argument, clauses argument, seed, argument shape); non-trivial iff "
             "the formula has a non-empty clause; an explicit or 'fixed' component must be exactly the one used, 'shuffle' components are searched")
    n = 0
    for clauses, N in fs:
        M = len(clauses)
        fl = ['fixed', 'shuffle'] + [list(t) for t in itertools.product([1, -1], repeat=N)]
        vp = ['fixed', 'shuffle'] + [list(t) for t in itertools.permutations(range(1, N + 1))]
        cp = ['fixed', 'shuffle'] + [list(t) for t in itertools.permutations(range(M))]
        for a, b, c in itertools.product(fl, vp, cp):
            n += 1
            shape = 'tuple' if n % 3 == 0 else 'list'
            seed = n % 5
            ctx.case(('explicit', repr(clauses), N, repr(a), repr(b), repr(c), shape), nontrivial=any(clauses))
            bad = eval_library(clauses, N, a, b, c, seed, shape)
            if bad and bad[0] != 'unknown':
                ctx.violation('Shuffle:explicit:{}'.format(bad[0]),
                              'Shuffle({} with {} variables, {}, {}, {}) seed {}: {}'.format(clauses, N, a, b, c, seed, bad[1]),
                              {'fn': 'checks.C09:replay_library',
                               'args': dict(clauses=clauses, nvars=N, flips=a, vperm=b, cperm=c, seed=seed, shape=shape)})
    ctx.sample({'F': [[1, -2], [2, 3, 3], [-1]], 'flips': [1, -1, -1], 'variables': [3, 1, 2], 'clauses': [2, 0, 1],
                'expected': 'clause 0 -> position 2 as {3, 1}, ...'})
    # named variables / larger explicit arguments
    for i in range(200 if thorough else 40):
        N = rng.randint(4, 9)
        M = rng.randint(4, 10)
        clauses = _random_formula(rng, N, M)
        a = [rng.choice([1, -1]) for _ in range(N)]
        b = list(range(1, N + 1))
        rng.shuffle(b)
        c = list(range(M))
        rng.shuffle(c)
        args = [a, b, c]
        for j in range(3):
            if rng.random() < .3:
                args[j] = rng.choice(['fixed', 'shuffle'])
        naming = rng.choice(['plain', 'named', 'gap', 'ctor'])
        ctx.case(('explicit-large', repr(clauses), N, repr(args), naming))
        bad = eval_library(clauses, N, args[0], args[1], args[2], i, 'list', naming)
        if bad and bad[0] != 'unknown':
            ctx.violation('Shuffle:explicit:{}'.format(bad[0]),
                          'Shuffle({} with {} variables ({}), {}) seed {}: {}'.format(clauses, N, naming, args, i, bad[1]),
                          {'fn': 'checks.C09:replay_library',
                           'args': dict(clauses=clauses, nvars=N, flips=args[0], vperm=args[1], cperm=args[2], seed=i, naming=naming)})


def invalid_values(kind, size):
    """invalid arguments of each kind for a formula with `size` variables (flips, variables) or clauses"""
    out = []
    if kind == 'flips':
        out.append([1] * (size + 1))
        if size >= 1:
            out.append([1] * (size - 1))
            for bad in (0, 2, -2, 3):
                out.append([1] * (size - 1) + [bad])
                out.append([bad] + [-1] * (size - 1))
        if size >= 2:
            out.append([1, 0] + [1] * (size - 2))
    else:
        base = 1 if kind == 'variables' else 0
        ident = list(range(base, base + size))
        out.append(ident + [base + size])                 # one too long
        if size >= 1:
            out.append(ident[:-1])                        # one too short
            out.append([x + 1 - 2 * base for x in ident])  # 0-based for variables / 1-based for clauses
            out.append(ident[:-1] + [base + size])        # last element out of range (too large)
            out.append([base - 1] + ident[1:])            # first element out of range (too small)
        if size >= 2:
            out.append([ident[0]] + ident[:-1])           # repeated element, one missing
            out.append(ident[:-2] + [ident[-1], ident[-1]])
            out.append([-x for x in ident] if base == 1 else [ident[-1] + 1] + ident[1:])
    return out


def bounded_invalid(ctx):
    rng = random.Random(ctx.seed + 1)
    fs = [(f, N) for f, N in small_formulas(rng)]
    fs += [(_random_formula(rng, 5, 6), 5), (_random_formula(rng, 6, 4), 6)]
    ctx.bounds['invalid'] = ('the same formulas (+2 larger): flips of wrong length or with an entry in {0,2,-2,3}; variable/clause sequences of wrong '
                             'length, with a repeated, missing or out-of-range element, 0-based instead of 1-based (and conversely), negated; each '
                             "combined with 'fixed', 'shuffle' and valid explicit values of the other two arguments")
    n = 0
    for clauses, N in fs:
        M = len(clauses)
        valid = {'flips': ['fixed', 'shuffle', [-1] * N], 'variables': ['fixed', 'shuffle', list(range(N, 0, -1))],
                 'clauses': ['fixed', 'shuffle', list(range(M - 1, -1, -1))]}
        for pos, kind in enumerate(('flips', 'variables', 'clauses')):
            for badv in invalid_values(kind, M if kind == 'clauses' else N):
                others = [valid[k] for k in ('flips', 'variables', 'clauses') if k != kind]
                for o1, o2 in itertools.product(*others):
                    args = [o1, o2]
                    args.insert(pos, badv)
                    n += 1
                    shape = 'tuple' if n % 2 else 'list'
                    ctx.case(('invalid', repr(clauses), N, repr(args), shape))
                    bad = eval_invalid(clauses, N, args[0], args[1], args[2], n % 3, shape)
                    if bad:
                        ctx.violation('Shuffle:invalid:{}'.format(kind),
                                      'Shuffle({} with {} variables, {}) : {}'.format(clauses, N, args, bad),
                                      {'fn': 'checks.C09:replay_invalid',
                                       'args': dict(clauses=clauses, nvars=N, flips=args[0], vperm=args[1], cperm=args[2], seed=n % 3, shape=shape)})
    ctx.sample({'invalid': 'variables', 'F': [[1, -2], [2]], 'argument': [0, 1], 'expected': 'rejected'})


# ------------------------------------------------------------------ random path
def _random_formula(rng, N, M):
    pool = [l for v in range(1, N + 1) for l in (v, -v)]
    out = []
    for _ in range(M):
        w = rng.choice([0, 1, 2, 2, 3, 3, 3, 4]) if N else 0
        if rng.random() < .8 and w <= N:
            vs = rng.sample(range(1, N + 1), w)
            out.append([v * rng.choice([1, -1]) for v in vs])
        else:
            out.append([rng.choice(pool) for _ in range(w)])   # repeated / opposite literals
    return out


COMBOS = list(itertools.product(['shuffle', 'fixed'], repeat=3))


def bounded_random(ctx):
    thorough = ctx.tier == 'thorough'
    rng = random.Random(ctx.seed + 2)
    nform = 6000 if thorough else 200
    seeds = 6 if thorough else 3
    ctx.bounds['random'] = ('{} random formulas (0..12 variables, 0..16 clauses, widths 0..4, repeated/opposite literals, unused variables, '
                            'some with named variables) x {} seeds x the 8 fixed/shuffle combinations; witness searched by backtracking'
                            ).format(nform, seeds)
    unknown = 0
    for i in range(nform):
        N = rng.choice([0, 1, 2, 3, 4, 5, 6, 7, 8, 10, 12])
        M = rng.choice([0, 1, 2, 3, 5, 8, 12, 16])
        clauses = _random_formula(rng, N, M)
        naming = rng.choice(['plain', 'plain', 'named', 'gap', 'ctor'])
        for s in range(seeds):
            seed = rng.randrange(10 ** 6)
            for combo in COMBOS:
                ctx.case(('random', i, s, combo), nontrivial=any(clauses))
                bad = eval_library(clauses, N, combo[0], combo[1], combo[2], seed, 'list', naming)
                if bad and bad[0] == 'unknown':
                    unknown += 1
                elif bad:
                    tag = ''.join(x for x, y in zip('pvc', combo) if y == 'fixed') or 'none'
                    ctx.violation('Shuffle:random[fixed={}]:{}'.format(tag, bad[0]),
                                  'Shuffle({} with {} variables ({}), {}) after random.seed({}): {}'.format(clauses, N, naming, combo, seed, bad[1]),
                                  {'fn': 'checks.C09:replay_library',
                                   'args': dict(clauses=clauses, nvars=N, flips=combo[0], vperm=combo[1], cperm=combo[2], seed=seed, naming=naming)})
    ctx.section('random', witness_search_budget_exhausted=unknown)
    ctx.sample({'F': 'random, 8 variables, 12 clauses', 'call': "Shuffle(F,'shuffle','fixed','shuffle')", 'seed': 4711,
                'checked': 'witness with identity variable permutation exists; same counts, widths, models'})


# ------------------------------------------------------------------ the two command line tools
SWITCHES = [('p', '-p', '--no-polarity-flips'), ('v', '-v', '--no-variables-permutation'), ('c', '-c', '--no-clauses-permutation')]


def _flags(combo, long):
    return [(lg if long else sh) for (name, sh, lg), on in zip(SWITCHES, combo) if on]


def eval_tool(tool, clauses, nvars, combo, seed, long=False, sub=False):
    """tool: 'cnfshuffle' | 'cnfgen'; combo: three booleans = switches -p -v -c given"""
    core.import_repo()
    flags = _flags(combo, long)
    text_in = 'c a comment\n' + xt.to_dimacs_text(nvars, clauses)
    with tempfile.TemporaryDirectory() as d:
        path = os.path.join(d, 'in.cnf')
        with open(path, 'w') as f:
            f.write(text_in)
        try:
            if tool == 'cnfshuffle' and sub:
                env = dict(os.environ, PYTHONPATH=core.REPO, PYTHONDONTWRITEBYTECODE='1', PYTHONWARNINGS='ignore')
                argv = [sys.executable, '-B', '-m', 'cnfgen.clitools.cnfshuffle'] + flags + (['-S', str(seed)] if seed is not None else [])
                p = subprocess.run(argv, input=text_in, capture_output=True, text=True, env=env, cwd=d, timeout=120)
                if p.returncode != 0:
                    return 'raised', 'exit code {} stderr {}'.format(p.returncode, p.stderr[-300:])
                text = p.stdout
            elif tool == 'cnfshuffle':
                from cnfgen.clitools.cnfshuffle import cli
                argv = ['cnfshuffle', '-q', '-i', path] + (['-S', str(seed)] if seed is not None else []) + flags
                text = cli(argv, mode='string')
            else:
                from cnfgen.clitools.cnfgen import cli
                argv = ['cnfgen', '-q'] + (['-S', str(seed)] if seed is not None else []) + ['dimacs', path, '-T', 'shuffle'] + flags
                text = cli(argv, mode='string')
        except BaseException as e:
            if isinstance(e, KeyboardInterrupt):
                raise
            return 'raised', 'raised {}: {}'.format(type(e).__name__, e)
    try:
        n, m, cl, _ = xt.parse_dimacs(text)
    except (AssertionError, ValueError) as e:
        return 'output', 'output is not DIMACS ({}): {!r}'.format(e, text[:200])
    if m != len(cl):
        return 'counts', 'problem line announces {} clauses, {} present'.format(m, len(cl))
    args = ['fixed' if on else 'shuffle' for on in combo]
    return judge(clauses, nvars, n, cl, *args)


def replay_tool(tool, clauses, nvars, combo, seed, long=False, sub=False):
    r = eval_tool(tool, clauses, nvars, combo, seed, long, sub)
    return r is None or r[0] == 'unknown'


def bounded_tools(ctx):
    thorough = ctx.tier == 'thorough'
    rng = random.Random(ctx.seed + 3)
    fs = [([], 0), ([[]], 0), ([[1]], 3), ([[1, -2], [2, 3, 3], [-1], []], 4)]
    for _ in range(20 if thorough else 6):
        N = rng.choice([3, 5, 8, 11])
        fs.append((_random_formula(rng, N, rng.choice([4, 9, 14])), N))
    seeds = [None, 0, 1, 42] + ([7, 123456] if thorough else [])
    ctx.bounds['tools'] = ("cnfshuffle -i FILE and cnfgen dimacs FILE -T shuffle (in process, output as string) on {} formulas x 8 combinations of "
                           "-p -v -c (short and long spellings) x seeds {}; cnfshuffle as a subprocess (stdin -> stdout) for the 8 combinations"
                           ).format(len(fs), seeds)
    n = 0
    for tool in ('cnfshuffle', 'cnfgen'):
        for clauses, N in fs:
            for combo in itertools.product([False, True], repeat=3):
                for seed in seeds:
                    n += 1
                    long = n % 2 == 0
                    ctx.case((tool, repr(clauses), N, combo, seed, long), nontrivial=any(clauses))
                    bad = eval_tool(tool, clauses, N, list(combo), seed, long)
                    _tool_report(ctx, tool, clauses, N, combo, seed, long, False, bad)
    clauses, N = fs[-1]
    for combo in itertools.product([False, True], repeat=3):
        ctx.case(('cnfshuffle-subprocess', combo))
        bad = eval_tool('cnfshuffle', clauses, N, list(combo), 5, combo[0], True)
        _tool_report(ctx, 'cnfshuffle', clauses, N, combo, 5, combo[0], True, bad)
    ctx.sample({'tool': 'cnfshuffle', 'argv': ['-q', '-i', 'FILE', '-S', '42', '-p', '-c'],
                'checked': 'no flips, clause i stays at position i, variables renamed by one bijection'})


def _tool_report(ctx, tool, clauses, N, combo, seed, long, sub, bad):
    if bad and bad[0] != 'unknown':
        tag = ''.join(x for (x, _, _), on in zip(SWITCHES, combo) if on) or 'none'
        ctx.violation('{}:{}[switches={}]:{}'.format(tool, 'subprocess' if sub else 'cli', tag, bad[0]),
                      '{} {} seed {} on {} ({} variables): {}'.format(tool, _flags(combo, long), seed, clauses, N, bad[1]),
                      {'fn': 'checks.C09:replay_tool',
                       'args': dict(tool=tool, clauses=clauses, nvars=N, combo=list(combo), seed=seed, long=long, sub=sub)})


def run(ctx):
    from checks import proofs
    proofs.run_group(ctx, 'C09')
    only = getattr(ctx, 'only', None)
    state = random.getstate()
    try:
        if not only or 'explicit' in only:
            bounded_explicit(ctx)
        if not only or 'invalid' in only:
            bounded_invalid(ctx)
        if not only or 'random' in only:
            bounded_random(ctx)
        if not only or 'tools' in only:
            bounded_tools(ctx)
    finally:
        random.setstate(state)
    ctx.assume('witness search (vlib/x_transform.find_witness) is exhaustive up to its node budget; exhausted searches are counted, never reported')
    ctx.assume("clauses are compared as multisets of literals (the property promises a renaming of every occurrence, not an order inside a clause)")
    ctx.assume("'rejected' = any exception other than an internal AssertionError")


def replay(ctx, data):
    return generic_replay(data)
