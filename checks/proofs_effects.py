"""Proof tier, effects mode (DESIGN 2.1 'effects'; C07, C18, C19, C20).

    from checks import proofs_effects
    proofs_effects.run_effects(ctx, 'C19')

runs pyvc/effects.py over the real source under vlib.core.REPO ($VERIF_REPO), checks the effect contracts of
contracts/effects_contracts.py registered for the property and records

  ctx.proof: functions under contract, obligations, discharged, by_backend['effects-analysis']
  every failing obligation -> ctx.violation(key, what, replay, kind='obligation-no-input') with the stable coarse
      key  effect:<kind>:<function>:<what>   and the witness chain (call / alias chain, file:line) in what + replay
  assumptions (library table, narrowed clauses, waivers) -> ctx.assume

Vacuity guards (RuntimeError = checker error, exit 3): a contracted function that is not in the tree, a contract
selecting fewer functions than committed, zero obligations for the property, an argparse action expression that
cannot be resolved.

The analysis over-approximates: a failing obligation is a *candidate*; it carries no concrete input
('no-failing-input-found'), the bounded tier of the property or a native reproduction confirms it.
"""
import time
import warnings

from vlib import core

PROPS = ('C07', 'C18', 'C19', 'C20')


def replay_effect(key=None, function=None, contract=None, **_):
    """re-run the effects analysis on $VERIF_REPO; True iff the obligation with this key is discharged now"""
    from pyvc import effects
    from contracts import effects_contracts as EC
    with warnings.catch_warnings():
        warnings.simplefilter('ignore')
        A = effects.get_analyzer(core.REPO)
        for c in EC.EFFECT_CONTRACTS:
            if c['id'] == contract:
                for ob in effects.check_contract(A, c):
                    for (k, what, wit) in ob.failures:
                        if k == key:
                            return False
    return True


def run_effects(ctx, prop):
    if prop not in PROPS:
        raise RuntimeError('effects mode has no contracts for ' + prop)
    from pyvc import effects
    t0 = time.time()
    with warnings.catch_warnings():
        warnings.simplefilter('ignore')          # SyntaxWarnings of the analysed sources
        A, obs = effects.run_property(core.REPO, prop)
    p = ctx.proof
    funcs = sorted({o.function for o in obs})
    nd = 0
    rows = []
    nassumed = 0
    for o in obs:
        p['obligations'] += 1
        if o.verdict == 'discharged':
            p['discharged'] += 1
            nd += 1
        nassumed += len(o.assumed)
        rows.append({'contract': o.contract['id'], 'function': o.function, 'clause': o.clause, 'verdict': o.verdict,
                     'assumed': o.assumed[:6], 'failures': [f[0] for f in o.failures]})
        for (key, what, wit) in o.failures:
            text = '{} :: contract [{}] {} :: witness: {}'.format(what, o.contract['id'], o.clause, ' -> '.join(wit))
            ctx.violation(key, text,
                          {'fn': 'checks.proofs_effects:replay_effect',
                           'args': {'key': key, 'function': o.function, 'contract': o.contract['id']},
                           'clause': o.clause, 'witness_chain': list(wit)},
                          kind='obligation-no-input')
    for f in funcs:
        if f not in p['functions']:
            p['functions'].append(f)
    p['by_backend']['effects-analysis'] = p['by_backend'].get('effects-analysis', 0) + nd
    p['vacuity_guards'] += len({o.contract['id'] for o in obs})
    p['solver_s'] += 0.0
    ctx.section('effects', functions_under_contract=len(funcs), obligations=len(obs), discharged=nd,
                failed=len(obs) - nd, assumed_items=nassumed, analysed_functions=len(A.ix.funcs),
                analysed_classes=len(A.ix.classes), fixpoint_function_analyses=A.rounds,
                wall_s=round(time.time() - t0, 2), table=rows)
    for a in effects.assumptions(A):
        ctx.assume(a)
    from contracts import effects_contracts as EC
    for (fpat, k, wpat, anchor, reason) in EC.WAIVERS:
        ctx.assume('WAIVER {} {} in {}: {}'.format(k, wpat, fpat, reason))
    ctx.notes.append('effects mode ({}): {} functions under contract, {} obligations, {} discharged by the effect analysis.'.format(
        prop, len(funcs), len(obs), nd))
    print('EFFECTS {}: {} functions under contract, {} obligations, {} discharged, {} failed ({:.1f}s)'.format(
        prop, len(funcs), len(obs), nd, len(obs) - nd, time.time() - t0))
    return obs
